"""Kernel harness shared by C01, C05, C06, C09, C11, C14, C16.

* ``KModel``: the real generated C source of one model, compiled to IR on this
  run, plus a subclass of the real ``kerneldll.DllModel`` whose ctypes function
  pointers are replaced by calls into the IR interpreter -- so the real
  ``DllModel.make_kernel``, ``DllKernel.__init__/_call_kernel`` (chunk loop),
  ``Kernel.Fq/Iq`` and ``details.make_kernel_args`` run unmodified on proxies;
* ``sym_mesh``: a dispersity mesh of fresh symbols with a chosen shape;
* ``Reference``: the documented semantics (weighted sums over the full mesh,
  gates, volume normalisation), written from the property text, in z3 terms
  over the same uninterpreted leaf functions the stubs use.
"""
import ast
import itertools
import math
import re
import sys
from fractions import Fraction

import numpy as np
import z3

from . import symx
from .symx import Sym, term
from .llsym import build, irparse, interp, kcall
from .llsym.interp import Ptr, rat

from sasmodels import core, generate, kerneldll, details as sdetails
from sasmodels.kerneldll import DllModel

OBJ = np.dtype(object)

# details.convert_magnetism applies numpy's radians/sin/cos to the value vector;
# on a mixed object array (floats and proxies) numpy's object loop needs the
# method on every element, so the three names are shimmed elementwise.
from . import npshim as _npshim
sdetails.radians = _npshim.NpShim.radians
sdetails.sin = _npshim.NpShim.sin
sdetails.cos = _npshim.NpShim.cos


def live_constant(name):
    """Value of a ``#define NAME number`` in the live kernel_header.c."""
    text = generate.load_template("kernel_header.c")[0]
    m = re.search(r"#\s*define\s+%s\s+([-+0-9.eE]+)" % name, text)
    return float(m.group(1))


# ---------------------------------------------------------------------------
# leaf functions as uninterpreted functions

def _flat(it, args, layout):
    """Flatten the actual arguments of a leaf call: scalars stay, pointer
    arguments (vector parameters) are read out of the parameter table."""
    out = []
    for a, n in zip(args, layout):
        if isinstance(a, Ptr):
            for k in range(n):
                out.append(it.load(Ptr(a.reg, a.off + 8 * k), ("f64",)))
        else:
            out.append(a)
    return out


def _real(a):
    if isinstance(a, z3.ExprRef):
        return z3.ToReal(a) if z3.is_int(a) else a
    return rat(a)


def leaf(name, args):
    return rat(interp.uf(name, *[_real(a) for a in args]))


def ufr(name, *args):
    """Uninterpreted libm function as a z3 term (exact constants folded)."""
    return rat(interp.uf(name, *args))


class KModel:
    _cache = {}

    @classmethod
    def get(cls, name):
        if name not in cls._cache:
            cls._cache[name] = cls(core.load_model_info(name))
        return cls._cache[name]

    def __init__(self, info, leaf_names=None):
        self.info = info
        self.path, self.source = build.model_ir(info)
        self.mod = irparse.parse(self.path)
        p = info.parameters
        base = info.base if getattr(info, "base", None) is not None else p
        self.base = base
        self.names = [generate.kernel_name(info, v) for v in ("Iq", "Iqxy", "Imagnetic")]
        self.is_hollow = "shell_volume" in self.mod.functions
        fns = self.mod.functions
        self.xy_mode = ("qabc" if "Iqabc" in fns else "qac" if "Iqac" in fns
                        else "qxy" if "Iqxy" in fns else "qa")
        self.m_pi_180 = live_constant("M_PI_180")
        if abs(self.m_pi_180 - math.pi / 180) > 1e-17:
            raise RuntimeError("M_PI_180 in kernel_header.c is not pi/180")
        self.interpret = set()      # leaf functions to interpret instead of stubbing

    # -- stubs ---------------------------------------------------------------
    def leaf_layouts(self):
        b = self.base
        iq = [p.length for p in b.iq_parameters]
        vol = [p.length for p in b.form_volume_parameters]
        ori = [p.length for p in b.orientation_parameters]
        return {
            "Iq": [1] + iq, "Fq": [1, 1, 1] + iq, "Iqac": [1, 1] + iq,
            "Iqabc": [1, 1, 1] + iq, "Iqxy": [1, 1] + iq + ori,
            "form_volume": vol, "shell_volume": vol, "radius_effective": [1] + vol,
        }

    def stubs(self):
        lay = self.leaf_layouts()
        st = {}

        def mk(name):
            def f(it, *args):
                flat = _flat(it, args, lay[name])
                it.calls.append((name, tuple(flat)))
                return leaf(name, flat)
            return f

        def fq(it, *args):
            q, p1, p2 = args[:3]
            flat = _flat(it, (q,) + args[3:], [1] + lay["Fq"][3:])
            it.calls.append(("Fq", tuple(flat)))
            it.store(p1, leaf("F1", flat), ("f64",))
            it.store(p2, leaf("F2", flat), ("f64",))
            return None

        for name in lay:
            if name in self.mod.functions and name not in self.interpret:
                st[name] = fq if name == "Fq" else mk(name)
        return st

    def make_model(self):
        return SymDll(self)


class SymDll(DllModel):
    """The real DllModel with the ctypes symbols served by the IR interpreter."""

    def __init__(self, km, mode="sym"):
        DllModel.__init__(self, "<llsym:%s>" % km.info.id, km.info, dtype=OBJ)
        self.km = km
        self.mode = mode
        self.calls = []         # log of kernel invocations: (fname, start, stop)
        self.side = []          # side obligations from all invocations
        self.leaf_calls = []
        self.steps = 0
        self.called = set()
        self.defs = []          # defining equations of named result cells
        self.name_results = True

    def _load_dll(self):
        self._dll = self
        self._kernels = [self._entry(n) for n in self.km.names]

    def _entry(self, fname):
        def call(nq, start, stop, det_addr, val_addr, q_addr, res_addr, cutoff, mode):
            fr = sys._getframe(1)
            cd, values, kern = fr.f_locals["call_details"], fr.f_locals["values"], fr.f_locals["self"]
            if (cd.buffer.ctypes.data != det_addr or values.ctypes.data != val_addr
                    or kern.q_input.q.ctypes.data != q_addr
                    or kern.result.ctypes.data != res_addr):
                raise RuntimeError("llsym entry: argument buffers are not the driver's buffers")
            run_kernel(self, fname, nq, start, stop, cd.buffer, values,
                       kern.q_input.q.ravel(), kern.result, cutoff, mode)
        return call

    def make_kernel(self, q_vectors):
        kern = DllModel.make_kernel(self, [symx.oarray(list(q)) for q in q_vectors])
        kern._as_dtype = lambda x: x
        # np.empty result buffer = uninitialised memory = arbitrary values
        for i in range(len(kern.result)):
            kern.result[i] = Sym(z3.Real("stale!%d" % i))
        return kern


def run_kernel(host, fname, nq, start, stop, details_buffer, values, q, result, cutoff, mode):
    """One invocation of an exported kernel on the driver's own arrays."""
    km = host.km
    try:
        ex = symx.current()
        decide, conc = ex.decide, ex.concretize_int
    except RuntimeError:
        decide = conc = None
    it = interp.Interp(km.mod, mode=host.mode, decide=decide, stubs=km.stubs(), concretize=conc)
    regs = kcall.load_args(it, details_buffer, list(values), list(q), list(result))
    kcall.call_kernel(it, fname, int(nq), start, stop, regs, cutoff, mode)
    res = it.mem["result"]
    callno = len(host.calls)
    for i in range(len(result)):
        if 8 * i in res:
            v = res[8 * i]
            if host.mode == "sym":
                v = rat(v) if not isinstance(v, z3.ExprRef) else v
                if decide is not None and not z3.is_rational_value(v) and host.name_results:
                    # name the cell: the Python driver then computes on a small
                    # symbol and the defining equation is a path fact
                    nm = z3.Real("res!%d!%d" % (callno, i))
                    d = nm == v
                    ex.assume(d, check=False)
                    host.defs.append(d)
                    v = nm
                result[i] = Sym(v)
            else:
                result[i] = v
    host.calls.append((fname, start, stop))
    host.side.extend(it.side)
    host.leaf_calls.extend(it.calls)
    host.steps += it.steps
    host.called |= it.called


# ---------------------------------------------------------------------------
# symbolic meshes

def sym_mesh(info, lengths, dim, tag="", magnetic=False, free_sld_pd=False, unit_weights=False):
    """Mesh [(value, dispersity, weights)] per call parameter with fresh symbols.

    *lengths*: call-parameter name -> number of distribution points (default 1).
    Invariants of the real mesh builders that are assumed (and recorded by the
    callers): non-dispersible parameters carry the distribution ([value],[1]);
    a length-1 distribution has weight 1; in 1-D orientation parameters carry
    ([0],[1]).  Returns (mesh, symbols) where symbols maps names to terms."""
    pars = info.parameters
    mesh, syms = [], {}
    npars = pars.npars
    for i, p in enumerate(pars.call_parameters):
        v = symx.real("%s%s" % (tag, p.id))
        n = lengths.get(p.id, 1)
        is_kernel_par = 2 <= i < 2 + npars
        active = p.polydisperse and (dim == "2d" or p.type != "orientation")
        if i >= 2 + npars and (not magnetic or (magnetic is not True and p.id not in magnetic)):
            # magnetic block: up_frac_i, up_frac_f, up_theta, up_phi, then (M0, mtheta, mphi)...
            # (magnetic=True: all symbolic; magnetic=set of ids: those symbolic, others default)
            v = _mag_default(p)
        if not is_kernel_par or not active:
            if p.type == "orientation" and is_kernel_par:
                d, w = [0.0], [1.0]
            else:
                d, w = [v], [1.0]
        elif n == 1:
            d = [symx.real("%s%s_d0" % (tag, p.id))] if p.type != "orientation" else [0.0]
            w = [1.0]
        else:
            d = [symx.real("%s%s_d%d" % (tag, p.id, k)) for k in range(n)]
            w = ([1.0] * n if unit_weights else
                 [symx.real("%s%s_w%d" % (tag, p.id, k)) for k in range(n)])
        syms[p.id] = (v, d, w)
        mesh.append((v, symx.oarray(d), symx.oarray(w)))
    return mesh, syms


def _mag_default(p):
    return float(p.default)


def mesh_constraints(syms, weights_nonneg=True):
    cs = []
    for name, (v, d, w) in syms.items():
        for x in w:
            if isinstance(x, Sym) and weights_nonneg:
                cs.append(x.t >= 0)
    return cs


# ---------------------------------------------------------------------------
# validity predicate, evaluated independently of generate.py

def valid_ref(expr, env):
    """z3 Bool for the model's ``valid`` string with parameter terms *env*."""
    if not expr:
        return z3.BoolVal(True)
    py = expr.replace("&&", " and ").replace("||", " or ")
    py = re.sub(r"!(?!=)", " not ", py)
    tree = ast.parse(py.strip(), mode="eval").body

    def ev(n):
        if isinstance(n, ast.BoolOp):
            vals = [ev(v) for v in n.values]
            return z3.And(*vals) if isinstance(n.op, ast.And) else z3.Or(*vals)
        if isinstance(n, ast.UnaryOp):
            if isinstance(n.op, ast.Not):
                return z3.Not(ev(n.operand))
            if isinstance(n.op, ast.USub):
                return -ev(n.operand)
            return ev(n.operand)
        if isinstance(n, ast.Compare):
            left = ev(n.left)
            out = []
            for op, right in zip(n.ops, n.comparators):
                r = ev(right)
                out.append({ast.Lt: left < r, ast.LtE: left <= r, ast.Gt: left > r,
                            ast.GtE: left >= r, ast.Eq: left == r,
                            ast.NotEq: left != r}[type(op)])
                left = r
            return z3.And(*out) if len(out) > 1 else out[0]
        if isinstance(n, ast.BinOp):
            a, b = ev(n.left), ev(n.right)
            return {ast.Add: a + b, ast.Sub: a - b, ast.Mult: a * b,
                    ast.Div: a / b}[type(n.op)]
        if isinstance(n, ast.Name):
            return env[n.id]
        if isinstance(n, ast.Constant):
            return symx.rat(n.value)
        raise ValueError("valid expression node %r" % n)
    return ev(tree)


# ---------------------------------------------------------------------------
# documented semantics

class Reference:
    """Reference accumulators for one kernel request, as z3 terms."""

    def __init__(self, km, mesh, q, cutoff, mode, dim, translate=None, magnetic=False):
        info = km.info
        pars = info.parameters
        npars = pars.npars
        cps = pars.call_parameters
        self.km = km
        kernel_pars = cps[2:2 + npars]
        vals = [term(m[0]) for m in mesh]
        disp = [[term(x) for x in m[1]] for m in mesh]
        wts = [[term(x) for x in m[2]] for m in mesh]
        cutoff = term(cutoff)
        lengths = [len(disp[2 + i]) for i in range(npars)]
        self.num_points = int(np.prod(lengths)) if lengths else 1
        nq = len(q) if dim == "1d" else len(q) // 2
        self.nq = nq
        oriented = dim == "2d" and km.xy_mode in ("qac", "qabc")
        have_fq = info.have_Fq and dim == "1d"
        c180 = symx.rat(km.m_pi_180)
        F2 = [z3.RealVal(0)] * nq
        F1 = [z3.RealVal(0)] * nq
        W = WVf = WVs = WR = z3.RealVal(0)
        self.points = []
        lay = km.leaf_layouts()
        for multi in itertools.product(*[range(n) for n in lengths]):
            x = {}
            w = z3.RealVal(1)
            jitter = {}
            for i, p in enumerate(kernel_pars):
                k = multi[i]
                w = w * wts[2 + i][k]
                if p.type == "orientation":
                    jitter[p.id] = disp[2 + i][k]
                    x[p.id] = vals[2 + i]
                else:
                    x[p.id] = disp[2 + i][k]
            if oriented and "theta" in jitter:
                cth = ufr("cos", jitter["theta"] * c180)
                w = w * z3.If(cth >= 0, cth, -cth)
            xb = translate(x) if translate else x
            venv = dict(x)
            venv.update(xb)
            gate = z3.And(w > cutoff, valid_ref(self._valid_text(info), venv))
            volargs = self._args(km.base.form_volume_parameters, xb)
            if km.base.form_volume_parameters:
                vf = leaf("form_volume", volargs)
                vs = leaf("shell_volume", volargs) if km.is_hollow else vf
                if info.radius_effective_modes and not _is_zero(mode):
                    r = leaf("radius_effective", [term(mode)] + volargs)
                else:
                    r = z3.RealVal(0)
            else:
                vf = vs = z3.RealVal(1)
                r = z3.RealVal(0)
            g = lambda t: z3.If(gate, t, z3.RealVal(0))
            W = W + g(w)
            WVf = WVf + g(w * vf)
            WVs = WVs + g(w * vs)
            WR = WR + g(w * r)
            iqargs = self._args(km.base.iq_parameters, xb)
            pt = {"multi": multi, "x": x, "w": w, "gate": gate, "leaf": [], "leaf1": [],
                  "vf": vf, "vs": vs, "r": r}
            if magnetic and dim == "2d":
                for j in range(nq):
                    qx, qy = term(q[2 * j]), term(q[2 * j + 1])
                    f2 = z3.RealVal(0)
                    for wc, xc in self._spin_channels(info, vals, x, qx, qy, c180):
                        xcb = translate(xc) if translate else xc
                        f2 = f2 + wc * self._iq2d(km, qx, qy, self._args(km.base.iq_parameters, xcb),
                                                  xc, jitter, xcb, c180)
                    F2[j] = F2[j] + g(w * f2)
                    pt["leaf"].append(f2)
                    pt["leaf1"].append(None)
                self.points.append(pt)
                continue
            for j in range(nq):
                if dim == "1d":
                    qj = term(q[j])
                    if have_fq:
                        f2, f1 = leaf("F2", [qj] + iqargs), leaf("F1", [qj] + iqargs)
                    else:
                        f2, f1 = leaf("Iq", [qj] + iqargs), None
                else:
                    qx, qy = term(q[2 * j]), term(q[2 * j + 1])
                    f1 = None
                    f2 = self._iq2d(km, qx, qy, iqargs, x, jitter, xb, c180)
                F2[j] = F2[j] + g(w * f2)
                if f1 is not None:
                    F1[j] = F1[j] + g(w * f1)
                pt["leaf"].append(f2)
                pt["leaf1"].append(f1)
            self.points.append(pt)
        self.F2, self.F1 = F2, (F1 if have_fq else None)
        self.W, self.WVf, self.WVs, self.WR = W, WVf, WVs, WR
        self.have_fq = have_fq

    def _spin_channels(self, info, vals, x, qx, qy, c180):
        """Documented polarised cross sections: [(weight, parameter set with every SLD
        replaced by the channel's effective SLD)].  M_perp = M - q (q.M)/(q.q),
        P, e1, e2 from the polarisation polar angles, weights (1-i)(1-f), (1-i)f,
        i(1-f), i f over max(f, 1-f) with i, f clipped to [0,1]."""
        pars = info.parameters
        npars = pars.npars
        m0 = 2 + npars
        zero, one = z3.RealVal(0), z3.RealVal(1)
        clip = lambda v: z3.If(v < 0, zero, z3.If(v > 1, one, v))
        i, f = clip(vals[m0]), clip(vals[m0 + 1])
        uth, uph = vals[m0 + 2], vals[m0 + 3]
        norm = z3.If(f < symx.rat(0.5), 1 - f, f)
        w_dd, w_du = (1 - i) * (1 - f) / norm, (1 - i) * f / norm
        w_ud, w_uu = i * (1 - f) / norm, i * f / norm
        sth, cth = ufr("sin", uth * c180), ufr("cos", uth * c180)
        sph, cph = ufr("sin", uph * c180), ufr("cos", uph * c180)
        P = (sth * cph, sth * sph, cth)
        e1 = (-sph, cph, zero)
        e2 = (-cth * cph, -cth * sph, sth)
        slds = [p for p in pars.call_parameters[2:2 + npars] if p.type == "sld"]
        qq = qx * qx + qy * qy
        mperp = {}
        for k, p in enumerate(slds):
            M0, mth, mph = vals[m0 + 4 + 3 * k: m0 + 7 + 3 * k]
            s1, c1 = ufr("sin", mth * c180), ufr("cos", mth * c180)
            s2, c2 = ufr("sin", mph * c180), ufr("cos", mph * c180)
            M = (M0 * s1 * c2, M0 * s1 * s2, M0 * c1)
            # q_hat = q/|q|;  M_perp = M - q_hat (q_hat . M)
            qn = ufr("sqrt", qq)
            qhx, qhy = qx / qn, qy / qn
            qm = qhx * M[0] + qhy * M[1]
            mperp[p.id] = (M[0] - qhx * qm, M[1] - qhy * qm, M[2])
        dot = lambda a, b: a[0] * b[0] + a[1] * b[1] + a[2] * b[2]
        out = []
        for wc, fn in ((w_dd, lambda rho, m: rho - dot(P, m)), (w_du, lambda rho, m: dot(e1, m)),
                       (w_ud, lambda rho, m: dot(e1, m)), (w_uu, lambda rho, m: rho + dot(P, m)),
                       (w_du, lambda rho, m: -dot(e2, m)), (w_ud, lambda rho, m: dot(e2, m))):
            xc = dict(x)
            for p in slds:
                xc[p.id] = fn(x[p.id], mperp[p.id])
            out.append((wc, xc))
        self.channel_weights = [w_dd, w_du, w_ud, w_uu]
        return out

    @staticmethod
    def _valid_text(info):
        return getattr(info, "valid", None)

    @staticmethod
    def _scalar_env(info, x):
        return {k: v for k, v in x.items()}

    @staticmethod
    def _args(plist, x):
        out = []
        for p in plist:
            if p.length == 1:
                out.append(x[p.id])
            else:
                out.extend(x["%s%d" % (p.id, k)] for k in range(1, p.length + 1))
        return out

    def _iq2d(self, km, qx, qy, iqargs, x, jitter, xb, c180):
        mode = km.xy_mode
        if mode == "qa":
            qa = ufr("sqrt", qx * qx + qy * qy)
            if km.info.have_Fq:
                return leaf("F2", [qa] + iqargs)
            return leaf("Iq", [qa] + iqargs)
        if mode == "qxy":
            ori = self._args(km.base.orientation_parameters, xb)
            return leaf("Iqxy", [qx, qy] + iqargs + ori)
        rot = rotation_terms(x, jitter, c180, asymmetric=(mode == "qabc"))
        qa = rot[0][0] * qx + rot[0][1] * qy
        qb = rot[1][0] * qx + rot[1][1] * qy
        qc = rot[2][0] * qx + rot[2][1] * qy
        if mode == "qabc":
            return leaf("Iqabc", [qa, qb, qc] + iqargs)
        d = qx * qx + qy * qy - qc * qc
        qab = z3.If(d > 0, ufr("sqrt", d), z3.RealVal(0))
        return leaf("Iqac", [qab, qc] + iqargs)

    # -- what the result buffer must contain after the accumulation ---------
    def buffer(self):
        out = []
        if self.have_fq:
            for j in range(self.nq):
                out += [self.F2[j], self.F1[j]]
        else:
            out += list(self.F2)
        return out + [self.W, self.WVf, self.WVs, self.WR]


def _is_zero(mode):
    if isinstance(mode, Sym):
        return False
    return int(mode) == 0


def rotation_terms(x, jitter, c180, asymmetric):
    """Rows of R^-1 restricted to the (qx,qy) columns, R = Rz(phi) Ry(theta)
    Rz(psi) . Rx(dphi) Ry(dtheta) Rz(dpsi), from the documented convention
    (doc/guide/orientation): q_particle = R^-1 (qx, qy, 0)."""
    def sc(a):
        return ufr("sin", a * c180), ufr("cos", a * c180)

    def Rz(a):
        s, c = sc(a)
        return [[c, -s, 0], [s, c, 0], [0, 0, 1]]

    def Ry(a):
        s, c = sc(a)
        return [[c, 0, s], [0, 1, 0], [-s, 0, c]]

    def Rx(a):
        s, c = sc(a)
        return [[1, 0, 0], [0, c, -s], [0, s, c]]

    def mul(A, B):
        return [[sum(A[i][k] * B[k][j] for k in range(3)) for j in range(3)] for i in range(3)]

    zero = z3.RealVal(0)
    theta, phi = x["theta"], x["phi"]
    psi = x.get("psi", zero) if asymmetric else zero
    dth, dph = jitter.get("theta", zero), jitter.get("phi", zero)
    dps = jitter.get("psi", zero) if asymmetric else zero
    R = mul(mul(Rz(phi), Ry(theta)), Rz(psi))
    J = mul(mul(Rx(dph), Ry(dth)), Rz(dps))
    M = mul(R, J)
    # inverse of a rotation = transpose; keep the first two columns of R^-1
    return [[M[0][i], M[1][i]] for i in range(3)]


# ---------------------------------------------------------------------------
# aligning leaf applications of the reference with those of the code

LEAF_NAMES = ("Iq", "F1", "F2", "Iqac", "Iqabc", "Iqxy", "form_volume", "shell_volume",
              "radius_effective")


class _HashEnv(dict):
    def __missing__(self, name):
        import zlib
        return 0.3 + (zlib.crc32(name.encode()) % 100003) / 100003.0 * 1.4


class _HashFuncs(dict):
    def __missing__(self, name):
        import zlib
        k = zlib.crc32(name.encode()) % 1009

        def f(*args):
            r = 0.1 * k
            for i, a in enumerate(args):
                r += math.sin((i + 1.37) * float(a) + k)
            return r
        return f


_FP_CACHE = {}
_FP_KEEP = []


def fingerprint(t):
    """Float value of *t* under a fixed pseudo-random interpretation (shared
    cache: terms are kept alive so that ids stay unique)."""
    try:
        funcs = _HashFuncs(symx._PYF)
        _FP_KEEP.append(t)
        return float(symx.evalf(t, _HashEnv(), funcs, cache=_FP_CACHE))
    except Exception:
        return None


def align_leaves(u, hyps, ref_terms, code_terms, names=None, label="leaf-arguments", on_cex=None):
    """Layered congruence: for every uninterpreted application in the reference
    that does not occur syntactically in the code's terms (innermost first),
    look for a code application of the same function whose arguments are
    provably equal -- a solver query under *hyps* plus instantiated trig/sqrt
    axioms, with the already shared inner applications abstracted to constants
    -- and substitute it.  Returns the rewritten reference terms.  Unmatched
    applications are left alone: the main obligation then fails or is
    inconclusive; nothing is assumed."""
    import time as _time
    ref_terms = [z3.simplify(t) for t in ref_terms]
    u.unmatched = []
    code_apps = symx.apps_of(code_terms)
    have = {a.get_id() for a in code_apps}
    pending = [r for r in symx.apps_of(ref_terms) if r.get_id() not in have]
    if not pending:
        return ref_terms
    fps = [(fingerprint(c), c) for c in code_apps]
    by_decl = {}
    for fc, c in fps:
        by_decl.setdefault((c.decl().name(), c.num_args()), []).append((fc, c))
    # hypotheses indexed by their free symbols: a lemma only sees the relevant ones
    hyp_syms = [(h, set(symx.consts_of([h]))) for h in hyps]
    tried = set()
    for _round in range(12):
        ref_apps = [r for r in symx.apps_of(ref_terms) if r.get_id() not in have
                    and r.get_id() not in tried]
        frontier = [r for r in ref_apps
                    if all(x.get_id() in have or x.get_id() in tried
                           for x in symx.apps_of(r.children()))]
        if not frontier:
            break
        subs = []
        for r in frontier:
            tried.add(r.get_id())
            fr = fingerprint(r)
            same = by_decl.get((r.decl().name(), r.num_args()), [])
            if fr is not None:
                near = [c for fc, c in same if fc is not None
                        and abs(fc - fr) <= 1e-7 * max(1.0, abs(fr))]
            else:
                near = [c for fc, c in same]
            for c in near[:3]:
                eq = z3.And(*[r.arg(i) == c.arg(i) for i in range(r.num_args())])
                u.r["obligations"] += 1
                t0 = _time.time()
                esyms = set(symx.consts_of([eq]))
                rel = [h for h, hs in hyp_syms if hs & esyms]
                ax = symx.axioms_from_apps(symx.apps_of(rel + [eq]))
                sol = z3.Solver()
                sol.set("timeout", 30000)
                sol.add(*symx.abstract_ufs(rel + ax + [z3.Not(eq)]))
                res = str(sol.check())
                u.r["solver_s"] += _time.time() - t0
                u.r["solver_checks"] += 1
                if res == "unsat":
                    u.r["discharged"] += 1
                    subs.append((r, c))
                    break
                u.r["obligations"] -= 1
            else:
                # any unmatched application is a lead for search_witness: an inner one
                # (e.g. sqrt(qa^2+qb^2) of the symmetric rotation path) stops the layering
                # before the model leaf itself is reached
                if same and fr is not None:
                    u.unmatched.append((r, same, fr))
        if not subs:
            break
        ref_terms = [z3.substitute(t, *subs) for t in ref_terms]
    return ref_terms


def search_witness(u, hyps, on_cex, label="leaf-arguments"):
    """After a main obligation could not be discharged: for the reference leaf
    applications that found no provably equal code application, ask the solver
    where the closest code application's arguments differ and replay that
    input.  Only a reproducing witness is kept (search aid, not a verdict)."""
    found = False
    leads = sorted(getattr(u, "unmatched", []), key=lambda x: x[0].decl().name() not in LEAF_NAMES)
    for r, same, fr in leads[:4]:
        if sum(1 for c_ in u.r["cex"] if c_.get("reproduced")) >= u.max_cex:
            break
        cands = sorted([(abs(fc - fr), c) for fc, c in same if fc is not None], key=lambda x: x[0])
        for _d, c in cands[:1]:
            eq = z3.And(*[r.arg(i) == c.arg(i) for i in range(r.num_args())])
            ax = symx.axioms_from_apps(symx.apps_of(list(hyps) + [eq]))
            sol = z3.Solver()
            sol.set("timeout", 20000)
            sol.add(*symx.abstract_ufs(list(hyps) + ax + [z3.Not(eq)]))
            if str(sol.check()) == "sat":
                try:
                    info = dict(on_cex(sol.model()))
                except Exception:
                    info = {"reproduced": False}
                info.pop("block", None)
                if info.get("reproduced"):
                    info["obligation"] = label
                    u.r["cex"].append(info)
                    found = True
    return found


# ---------------------------------------------------------------------------
# reference translation for reparameterised models (C16)

def make_translator(info):
    """The translation text of a reparameterised model as a plain C function
    ``translate_ref(<call parameters...>, double *out)`` -- built by text
    concatenation only (every assignment line becomes ``const double var =
    expr;`` in order, call parameters are the function's arguments, C scoping
    resolves the names), compiled by clang and executed by the IR interpreter.
    generate.py's own substitution machinery is not used.  Returns
    ``translate(x) -> {base parameter id: term}`` for dicts of z3 terms."""
    base = info.base
    call_ids = [p.id for p in info.parameters.kernel_parameters]
    base_ids = [p.id for p in base.kernel_parameters]
    if any(p.length > 1 for p in base.kernel_parameters):
        raise irparse.Unsupported("vector parameters in a reparameterised base model")
    lines = []
    assigned = []
    for line in (info.translation or "").split("\n"):
        code = line.split("#", 1)[0].split("//", 1)[0].strip()
        if not code:
            continue
        var, expr = code.split("=", 1)
        var = var.strip()
        lines.append("    const double %s = %s;" % (var, expr.strip()))
        assigned.append(var)
    header = generate.load_template("kernel_header.c")[0]
    args = ", ".join("double %s" % n for n in call_ids)
    outs = "\n".join("    out[%d] = %s;" % (k, n) for k, n in enumerate(base_ids))
    src = "%s\nvoid translate_ref(%s, double *out)\n{\n%s\n%s\n}\n" % (
        header, args, "\n".join(lines), outs)
    path = build.c_to_ir(src, "translate_" + info.id)
    mod = irparse.parse(path)

    def translate(x):
        it = interp.Interp(mod, mode="sym", decide=None)
        out = it.region("out", {})
        it.call("translate_ref", [x[n] for n in call_ids] + [out])
        cells = it.mem["out"]
        return {n: rat(cells[8 * k]) for k, n in enumerate(base_ids)}
    return translate
