"""Shared machinery for the solver-based checks (see ../DESIGN.md section 2).

Importing this package makes the offline-installed solver packages
(/verif/.deps) importable, pins the sasmodels environment (no OpenCL, private
DLL cache in a scratch directory that is removed at exit) and makes sure the
real ``sasmodels`` is imported from /repo's working tree.
"""
import atexit
import os
import shutil
import subprocess
import sys
import tempfile

ROOT = os.path.dirname(os.path.dirname(os.path.abspath(__file__)))
REPO = os.environ.get("VERIF_REPO", "/repo")
DEPS = os.path.join(ROOT, ".deps")
GUARD = "SASMODELS_VERIF"


def _bootstrap():
    if not os.path.exists(os.path.join(DEPS, ".ok")):
        subprocess.check_call([os.path.join(ROOT, "setup.sh")],
                              stdout=subprocess.DEVNULL)
    if DEPS not in sys.path:
        sys.path.insert(0, DEPS)
    if REPO not in sys.path:
        sys.path.insert(0, REPO)
    os.environ.setdefault("SAS_OPENCL", "none")
    os.environ[GUARD] = "1"


_SCRATCH = None


def _sweep_stale(max_age_s=6 * 3600):
    """Remove scratch directories left behind by killed runs."""
    import glob
    import time
    for d in glob.glob(os.path.join(tempfile.gettempdir(), "sasverif-*")):
        try:
            if time.time() - os.path.getmtime(d) > max_age_s:
                shutil.rmtree(d, ignore_errors=True)
        except OSError:
            pass


def scratch():
    """Per-process-tree scratch directory outside /repo and /verif."""
    global _SCRATCH
    if _SCRATCH is None:
        env = os.environ.get("VERIF_SCRATCH")
        if env and os.path.isdir(env):
            _SCRATCH = env
        else:
            _sweep_stale()
            _SCRATCH = tempfile.mkdtemp(prefix="sasverif-")
            os.environ["VERIF_SCRATCH"] = _SCRATCH
            owner = os.getpid()

            def _cleanup(path=_SCRATCH, owner=owner):
                if os.getpid() == owner:
                    shutil.rmtree(path, ignore_errors=True)
            atexit.register(_cleanup)
        dll = os.path.join(_SCRATCH, "dll")
        os.makedirs(dll, exist_ok=True)
        os.environ["SAS_DLL_PATH"] = dll
    return _SCRATCH


_bootstrap()
