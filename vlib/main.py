"""Driver: ./check <ID> [--tier quick|thorough] [--replay FILE]."""
import argparse
import importlib
import json
import os
import sys
import traceback

from . import scratch
from .harness import Check, EXIT_HARNESS


def main():
    ap = argparse.ArgumentParser()
    ap.add_argument("pid")
    ap.add_argument("--tier", default=os.environ.get("VERIF_TIER", "quick"),
                    choices=["quick", "thorough"])
    ap.add_argument("--replay")
    ap.add_argument("--only", help="restrict to units whose name contains this text")
    a = ap.parse_args()
    seed = int(os.environ.get("VERIF_SEED", "0") or 0)
    scratch()
    mod = importlib.import_module("props.%s" % a.pid.lower())
    if a.replay:
        with open(a.replay) as f:
            cex = json.load(f)
        return mod.replay(cex)
    os.environ["VERIF_TIER_EFFECTIVE"] = a.tier
    if a.tier == "thorough":
        os.environ.setdefault("VERIF_UNIT_BUDGET", "1500")
    import faulthandler
    import signal
    faulthandler.register(signal.SIGUSR1, all_threads=True)
    chk = Check(a.pid.upper(), a.tier, seed)
    chk.only = a.only
    try:
        mod.run(chk)
    except Exception:
        traceback.print_exc()
        print("HARNESS-ERROR %s: driver crashed" % a.pid, file=sys.stderr)
        from .harness import new_unit
        u = new_unit("driver")
        u["errors"].append(traceback.format_exc()[-3000:])
        chk.add(u)
    return chk.finish()


if __name__ == "__main__":
    sys.exit(main())
