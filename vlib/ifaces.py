"""ifaces -- shared machinery of the calling-interface check C10.

* ``install_bumps_stub``: minimal ``bumps.parameter`` / ``bumps.names`` (the
  bumps package is not installed) injected into ``sys.modules`` before
  ``sasmodels.bumps_model`` is imported.
* ``install_weight_leaves``: the numeric leaves ``<Dispersion>._weights`` of
  ``sasmodels.weights`` become uninterpreted functions of everything they can
  read; the real ``weights.get_weights`` / ``Dispersion.get_weights`` (limits,
  degenerate one-point case, relative/absolute, normalisation) still run.
* ``SymKey`` / ``SymKeyDict``: a string proxy (z3 String) and a dict proxy
  holding concrete entries plus ONE entry under a symbolic key; every lookup
  forks on ``key == name`` through the explorer.
* ``kw_entry``: enter a ``**kwargs`` function with the dict proxy bound to its
  ``**`` parameter (clone of the code object, same bytecode).
* recording resolution stubs for the data-selection obligations.
"""
from __future__ import annotations

import sys
import types

import numpy as np
import z3

from . import symx
from . import npshim as npshim_mod
from .symx import Sym, SymBool, term

# --------------------------------------------------------------------------
# bumps stub

BUMPS_STUB = ("bumps.parameter / bumps.names -> minimal stub module (bumps is not installed): "
              "Parameter(value, name, limits) holding .value/.name/.limits with classmethod "
              "default(value, **kw) returning value itself when it already is a Parameter; Reference")


class Parameter(object):
    def __init__(self, value=None, name=None, limits=None, bounds=None, fixed=None, **kw):
        self.value = value
        self.name = name
        self.limits = limits if limits is not None else (-np.inf, np.inf)
        self.bounds = bounds
        self.fixed = True if fixed is None else fixed

    @classmethod
    def default(cls, value, **kw):
        if isinstance(value, Parameter):
            return value
        return cls(value, **kw)

    def range(self, lo, hi):
        self.bounds, self.fixed = (lo, hi), False
        return self


class Reference(Parameter):
    def __init__(self, obj, attr, **kw):
        Parameter.__init__(self, **kw)
        self.obj, self.attr = obj, attr


def install_bumps_stub():
    if "bumps.parameter" in sys.modules and getattr(sys.modules["bumps.parameter"], "_verif_stub", False):
        return
    pkg = types.ModuleType("bumps")
    par = types.ModuleType("bumps.parameter")
    nam = types.ModuleType("bumps.names")
    par.Parameter = nam.Parameter = Parameter
    par.Reference = nam.Reference = Reference
    par._verif_stub = True
    pkg.parameter, pkg.names = par, nam
    pkg.__path__ = []
    sys.modules["bumps"] = pkg
    sys.modules["bumps.parameter"] = par
    sys.modules["bumps.names"] = nam


# --------------------------------------------------------------------------
# distribution leaves as uninterpreted functions

POSINF = z3.Real("+inf")
NEGINF = z3.Real("-inf")
INF_AXIOMS = [POSINF > symx.rat(1e300), NEGINF < symx.rat(-1e300)]

WEIGHT_STUB = ("weights.<Dispersion>._weights (the numeric leaf of every distribution class except "
               "ArrayDispersion) -> npts value symbols and npts weight symbols that are uninterpreted "
               "functions of (class, npts, nsigmas, center, sigma, lb, ub); infinite limits are the "
               "constants +inf/-inf; the real weights.get_weights and Dispersion.get_weights run on top "
               "(relative/absolute sigma, centre 0 for absolute, one-point case inside/outside the "
               "limits, normalisation by the sum)")

_SAVED_LEAVES = {}


def _lim(x):
    if symx._is_inf(x):
        return Sym(POSINF if float(x) > 0 else NEGINF)
    return x


def _leaf(kind):
    def _weights(self, center, sigma, lb, ub):
        n = int(self.npts)
        ns = self.nsigmas if self.nsigmas is not None else -1.0
        args = (ns, center, sigma, _lim(lb), _lim(ub))
        x = symx.oarray([symx.uf("pdx.%s.%d.%d" % (kind, n, k), *args) for k in range(n)])
        w = symx.oarray([symx.uf("pdw.%s.%d.%d" % (kind, n, k), *args) for k in range(n)])
        return x, w
    return _weights


def install_weight_leaves():
    from sasmodels import weights as W
    for kind, cls in W.DISTRIBUTIONS.items():
        if kind == "array":
            continue
        if cls not in _SAVED_LEAVES:
            _SAVED_LEAVES[cls] = cls.__dict__.get("_weights")
        cls._weights = _leaf(kind)


def remove_weight_leaves():
    for cls, f in _SAVED_LEAVES.items():
        if f is not None:
            cls._weights = f
    _SAVED_LEAVES.clear()


# --------------------------------------------------------------------------
# data proxies for the selection harness

class YVal(object):
    """A measured value that may be NaN: (real symbol, symbolic NaN flag)."""
    __slots__ = ("v", "nan")

    def __init__(self, v, nan):
        self.v, self.nan = v, nan

    def __repr__(self):
        return "YVal(%s, nan=%s)" % (self.v, self.nan)


class DataNp(npshim_mod.NpShim):
    """``np`` for data.py / direct_model.py: isnan of YVal arrays forks on the flags."""

    @staticmethod
    def isnan(x):
        if isinstance(x, np.ndarray) and x.dtype == object and x.size and isinstance(x.flat[0], YVal):
            out = np.zeros(x.shape, dtype=bool)
            for idx in np.ndindex(x.shape):
                out[idx] = bool(SymBool(x[idx].nan))
            return out
        if isinstance(x, YVal):
            return bool(SymBool(x.nan))
        return npshim_mod.NpShim.isnan(x)


class RecResolution(object):
    """Recording stand-in for Pinhole1D / Slit1D / Pinhole2D: keeps its arguments,
    evaluates the kernel at the selected points and returns theory unchanged."""

    def __init__(self, kind, log):
        self.kind, self.log = kind, log

    def __call__(self, *args, **kw):
        r = _Res(self.kind, args, kw)
        self.log.append(r)
        return r


class _Res(object):
    def __init__(self, kind, args, kw):
        self.kind, self.args, self.kw = kind, args, kw
        if kind == "Pinhole2D":
            data, index = kw["data"], kw["index"]
            self.q_calc = [data.qx_data[index], data.qy_data[index]]
        else:
            self.q_calc = args[0]

    def apply(self, theory):
        return theory


def resolution_namespaces(log, real1d, real2d):
    """(direct_model.resolution, direct_model.resolution2d) replacements."""
    r1 = types.SimpleNamespace(Perfect1D=real1d.Perfect1D, Pinhole1D=RecResolution("Pinhole1D", log),
                               Slit1D=RecResolution("Slit1D", log))
    r2 = types.SimpleNamespace(Pinhole2D=RecResolution("Pinhole2D", log), Slit2D=real2d.Slit2D)
    return r1, r2


# --------------------------------------------------------------------------
# symbolic string key and the dict proxy that holds it

KEY_STUB = ("symbolic key: vlib.ifaces.SymKey (str subclass carrying a z3 String; == forks on the string "
            "equality) held by vlib.ifaces.SymKeyDict (mapping with concrete entries plus one entry under the "
            "symbolic key; pop/get/in/[]/setitem fork on key == name; copy/len/bool/keys/items as a dict); "
            "functions with a ** parameter are entered through a clone of their code object whose ** parameter "
            "is positional (same bytecode), and their own ** call sites re-wrap the converted dict; the "
            "SasviewModel params/dispersion tables are re-housed in a dict subclass whose membership test forks")


class SymKey(str):
    """A string whose content is the z3 String term ``.t``.  It is a ``str`` so
    that it survives ``f(**mapping)``; its hash is fixed, so a plain dict never
    compares it with other names -- ``hashes`` counts those events and every
    harness states how many it expects (plain-dict conversions it re-wraps)."""
    hashes = 0

    def __new__(cls, t, label="<symbolic key>", excluded=()):
        o = str.__new__(cls, label)
        o.t = t
        o.excluded = frozenset(excluded)   # names the path ASSUMPTION says the key differs from
        return o

    def __hash__(self):
        SymKey.hashes += 1
        return str.__hash__(self)

    def __eq__(self, o):
        if o is self:
            return True
        if isinstance(o, SymKey):
            return bool(SymBool(self.t == o.t))
        if isinstance(o, str):
            if o in self.excluded:
                return False
            return bool(SymBool(self.t == z3.StringVal(o)))
        return False

    def __ne__(self, o):
        return not self.__eq__(o)

    def split(self, sep=None, maxsplit=-1):
        parts = getattr(self, "parts", None)
        if parts is None or sep != ".":
            raise TypeError("SymKey.split: only the enumerated '.' structure is supported")
        return list(parts)


class SymKeyDict(object):
    def __init__(self, concrete, key=None, value=None):
        self._d = dict(concrete)
        self._k, self._v = key, value

    # the one symbolic comparison
    def _is_key(self, name):
        if self._k is None:
            return False
        if name is self._k:
            return True
        if isinstance(name, SymKey):
            return bool(SymBool(name.t == self._k.t))
        if name in self._k.excluded:
            return False
        return bool(SymBool(self._k.t == z3.StringVal(name)))

    def pop(self, name, *default):
        if not isinstance(name, SymKey) and name in self._d:
            return self._d.pop(name)
        if self._is_key(name):
            v, self._k, self._v = self._v, None, None
            return v
        if default:
            return default[0]
        raise KeyError(name)

    def get(self, name, default=None):
        if not isinstance(name, SymKey) and name in self._d:
            return self._d[name]
        return self._v if self._is_key(name) else default

    def __getitem__(self, name):
        if not isinstance(name, SymKey) and name in self._d:
            return self._d[name]
        if self._is_key(name):
            return self._v
        raise KeyError(name)

    def __setitem__(self, name, value):
        if not isinstance(name, SymKey) and name in self._d:
            self._d[name] = value
        elif self._is_key(name):
            self._v = value
        else:
            self._d[name] = value

    def __contains__(self, name):
        if not isinstance(name, SymKey) and name in self._d:
            return True
        return self._is_key(name)

    def copy(self):
        return SymKeyDict(self._d, self._k, self._v)

    def __len__(self):
        return len(self._d) + (self._k is not None)

    def __bool__(self):
        return len(self) > 0

    def keys(self):
        return list(self._d.keys()) + ([self._k] if self._k is not None else [])

    def __iter__(self):
        return iter(self.keys())

    def values(self):
        return list(self._d.values()) + ([self._v] if self._k is not None else [])

    def items(self):
        return list(self._d.items()) + ([(self._k, self._v)] if self._k is not None else [])

    def update(self, *a, **kw):
        for k, v in dict(*a, **kw).items():
            self[k] = v

    @staticmethod
    def rewrap(d):
        """A plain dict produced by ``f(**proxy)`` back into a proxy."""
        if isinstance(d, SymKeyDict):
            return d
        ks = [k for k in d if isinstance(k, SymKey)]
        if not ks:
            return d
        conc = dict((k, v) for k, v in d.items() if not isinstance(k, SymKey))
        return SymKeyDict(conc, ks[0], d[ks[0]])


# --------------------------------------------------------------------------
# entering functions that take **kwargs with the proxy intact

_CO_VARARGS, _CO_VARKEYWORDS = 0x04, 0x08


def kw_entry(fn):
    """(clone, name of the ** parameter): *clone* runs fn's bytecode with the
    ``**`` parameter turned into an ordinary last positional parameter."""
    code = fn.__code__
    if not code.co_flags & _CO_VARKEYWORDS or code.co_flags & _CO_VARARGS or code.co_kwonlyargcount:
        raise TypeError("kw_entry: %s must have **kwargs and neither *args nor keyword-only parameters" % fn.__name__)
    kwname = code.co_varnames[code.co_argcount]
    new = code.replace(co_argcount=code.co_argcount + 1, co_flags=code.co_flags & ~_CO_VARKEYWORDS)
    clone = types.FunctionType(new, fn.__globals__, fn.__name__, (fn.__defaults__ or ()) + (None,), fn.__closure__)
    return clone, kwname


def kw_wrapper(fn):
    """Replacement for *fn* (same call signature): what Python's call protocol
    put into ``**kwargs`` -- a plain dict that may hold the SymKey -- is turned
    back into the proxy and the real body runs on it."""
    clone, kwname = kw_entry(fn)
    named = set(fn.__code__.co_varnames[:fn.__code__.co_argcount])

    def wrapper(*args, **kw):
        own = dict((k, v) for k, v in kw.items() if not isinstance(k, SymKey) and k in named)
        rest = dict((k, v) for k, v in kw.items() if isinstance(k, SymKey) or k not in named)
        ks = [k for k in rest if isinstance(k, SymKey)]
        if ks:
            val = next(v for k, v in rest.items() if k is ks[0])
            proxy = SymKeyDict(dict((k, v) for k, v in rest.items() if not isinstance(k, SymKey)), ks[0], val)
        else:
            proxy = rest
        own[kwname] = proxy
        return clone(*args, **own)
    wrapper.__name__ = fn.__name__
    wrapper._verif_original = fn
    return wrapper


def install_kw_wrappers(targets):
    """targets: list of (owner object, attribute name).  Returns an undo list."""
    undo = []
    for owner, attr in targets:
        fn = owner.__dict__[attr] if isinstance(owner, type) else getattr(owner, attr)
        if getattr(fn, "_verif_original", None) is not None:
            continue
        undo.append((owner, attr, fn))
        setattr(owner, attr, kw_wrapper(fn))
    return undo


def undo_kw_wrappers(undo):
    for owner, attr, fn in undo:
        setattr(owner, attr, fn)


import collections as _collections


class SymAwareDict(_collections.OrderedDict):
    """OrderedDict whose lookups with a SymKey compare it with every key."""

    def _find(self, key):
        for k in list(_collections.OrderedDict.keys(self)):
            if key == k:            # SymKey.__eq__: forks
                return k
        return None

    def __contains__(self, key):
        if isinstance(key, SymKey):
            return self._find(key) is not None
        return _collections.OrderedDict.__contains__(self, key)

    def __getitem__(self, key):
        if isinstance(key, SymKey):
            k = self._find(key)
            if k is None:
                raise KeyError(key)
            key = k
        return _collections.OrderedDict.__getitem__(self, key)

    def __setitem__(self, key, value):
        if isinstance(key, SymKey):
            k = self._find(key)
            if k is not None:
                key = k
        _collections.OrderedDict.__setitem__(self, key, value)

    def get(self, key, default=None):
        try:
            return self[key]
        except KeyError:
            return default
