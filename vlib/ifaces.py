"""ifaces -- shared machinery of the calling-interface check C10.

* ``install_bumps_stub``: minimal ``bumps.parameter`` / ``bumps.names`` (the
  bumps package is not installed) injected into ``sys.modules`` before
  ``sasmodels.bumps_model`` is imported.
* ``install_weight_leaves``: the numeric leaves ``<Dispersion>._weights`` of
  ``sasmodels.weights`` become uninterpreted functions of everything they can
  read; the real ``weights.get_weights`` / ``Dispersion.get_weights`` (limits,
  degenerate one-point case, relative/absolute, normalisation) still run.
* ``SymKey`` / ``SymKeyDict``: a string proxy (z3 String) and a dict proxy
  holding concrete entries plus ONE entry under a symbolic key; every lookup
  forks on ``key == name`` through the explorer.
* ``kw_entry``: enter a ``**kwargs`` function with the dict proxy bound to its
  ``**`` parameter (clone of the code object, same bytecode).
* recording resolution stubs for the data-selection obligations.
"""
from __future__ import annotations

import sys
import types

import numpy as np
import z3

from . import symx
from .symx import Sym, SymBool, term

# --------------------------------------------------------------------------
# bumps stub

BUMPS_STUB = ("bumps.parameter / bumps.names -> minimal stub module (bumps is not installed): "
              "Parameter(value, name, limits) holding .value/.name/.limits with classmethod "
              "default(value, **kw) returning value itself when it already is a Parameter; Reference")


class Parameter(object):
    def __init__(self, value=None, name=None, limits=None, bounds=None, fixed=None, **kw):
        self.value = value
        self.name = name
        self.limits = limits if limits is not None else (-np.inf, np.inf)
        self.bounds = bounds
        self.fixed = True if fixed is None else fixed

    @classmethod
    def default(cls, value, **kw):
        if isinstance(value, Parameter):
            return value
        return cls(value, **kw)

    def range(self, lo, hi):
        self.bounds, self.fixed = (lo, hi), False
        return self


class Reference(Parameter):
    def __init__(self, obj, attr, **kw):
        Parameter.__init__(self, **kw)
        self.obj, self.attr = obj, attr


def install_bumps_stub():
    if "bumps.parameter" in sys.modules and getattr(sys.modules["bumps.parameter"], "_verif_stub", False):
        return
    pkg = types.ModuleType("bumps")
    par = types.ModuleType("bumps.parameter")
    nam = types.ModuleType("bumps.names")
    par.Parameter = nam.Parameter = Parameter
    par.Reference = nam.Reference = Reference
    par._verif_stub = True
    pkg.parameter, pkg.names = par, nam
    pkg.__path__ = []
    sys.modules["bumps"] = pkg
    sys.modules["bumps.parameter"] = par
    sys.modules["bumps.names"] = nam


# --------------------------------------------------------------------------
# distribution leaves as uninterpreted functions

POSINF = z3.Real("+inf")
NEGINF = z3.Real("-inf")
INF_AXIOMS = [POSINF > symx.rat(1e300), NEGINF < symx.rat(-1e300)]

WEIGHT_STUB = ("weights.<Dispersion>._weights (the numeric leaf of every distribution class except "
               "ArrayDispersion) -> npts value symbols and npts weight symbols that are uninterpreted "
               "functions of (class, npts, nsigmas, center, sigma, lb, ub); infinite limits are the "
               "constants +inf/-inf; the real weights.get_weights and Dispersion.get_weights run on top "
               "(relative/absolute sigma, centre 0 for absolute, one-point case inside/outside the "
               "limits, normalisation by the sum)")

_SAVED_LEAVES = {}


def _lim(x):
    if symx._is_inf(x):
        return Sym(POSINF if float(x) > 0 else NEGINF)
    return x


def _leaf(kind):
    def _weights(self, center, sigma, lb, ub):
        n = int(self.npts)
        ns = self.nsigmas if self.nsigmas is not None else -1.0
        args = (ns, center, sigma, _lim(lb), _lim(ub))
        x = symx.oarray([symx.uf("pdx.%s.%d.%d" % (kind, n, k), *args) for k in range(n)])
        w = symx.oarray([symx.uf("pdw.%s.%d.%d" % (kind, n, k), *args) for k in range(n)])
        return x, w
    return _weights


def install_weight_leaves():
    from sasmodels import weights as W
    for kind, cls in W.DISTRIBUTIONS.items():
        if kind == "array":
            continue
        if cls not in _SAVED_LEAVES:
            _SAVED_LEAVES[cls] = cls.__dict__.get("_weights")
        cls._weights = _leaf(kind)


def remove_weight_leaves():
    for cls, f in _SAVED_LEAVES.items():
        if f is not None:
            cls._weights = f
    _SAVED_LEAVES.clear()
