"""sched -- the symx explorer as a schedule / crash enumerator (DESIGN 3/C18).

N "processes" run the *real* code in threads, hand-over-hand: exactly one
thread runs at any time, the others are parked inside ``Scheduler.hook`` (the
yield point that ``vlib.vfs`` calls before every filesystem operation).  Which
parked process is resumed next, and at which of its yield points a process is
killed, are **symbolic integers** (``s<k>``, ``crash_proc``, ``crash_at``):
every alternative is a ``decide`` of the running ``symx.Explorer``, so z3
decides which alternatives are feasible (range of the choice, preemption bound,
unit assumptions) and the explorer's DFS enumerates the interleavings as paths.

Partial-order reduction (sound, stated in the evidence): a choice is offered
only when the running process is about to perform an operation of kind
"shared" (visible to other processes); operations on private files and reads
of static files commute with every operation of every other process and are
executed as part of the preceding step.  Crash points are *all* yield points.

A killed process performs no further filesystem operation: the kill is
delivered as a ``Killed`` exception at the yield point and every later
operation of that process raises it again without effect, so clean-up
handlers of the code under test cannot act after the "kill -9".

Second kill target (``crash_target == 1``): at a yield point of the scripted
compiler only the compiler child dies (``ChildKilled`` is raised inside the
compiler stub, which reports what ``subprocess`` reports for a child killed by
a signal: return code -9); the calling process carries on.
"""
from __future__ import annotations

import threading

import z3

from . import symx
from .vfs import ChildKilled


class Killed(BaseException):
    """Delivered inside a process thread when the scheduler kills the process."""


class SchedulerError(RuntimeError):
    pass


class Proc:
    def __init__(self, pid, fn, name):
        self.pid = pid
        self.fn = fn
        self.name = name or "p%d" % pid
        self.go = threading.Semaphore(0)
        self.state = "new"          # new -> parked/running -> done | dead
        self.dead = False
        self.child_kill = False
        self.result = None
        self.exc = None
        self.nyield = 0
        self.at = None              # (label, path, kind) of the pending operation
        self.thread = None

    @property
    def finished(self):
        return self.state in ("done", "dead")


class Scheduler:
    TIMEOUT = 60.0

    def __init__(self, chooser):
        self.chooser = chooser
        self.procs = []
        self.back = threading.Semaphore(0)
        self.trace = []             # (pid, yield index, label, path) | ("crash", pid, index, label)
        self._by_thread = {}
        self.crashed = None         # (pid, yield index, label, path) of a killed process
        self.child_killed = None    # (pid, yield index, label, path) of a killed compiler

    # -- called from process threads (through vfs.hook) ----------------------
    def current_pid(self):
        p = self._by_thread.get(threading.get_ident())
        return p.pid if p is not None else -1

    def hook(self, label, path, kind):
        p = self._by_thread.get(threading.get_ident())
        if p is None:
            return                  # harness thread: not scheduled
        if p.dead:
            raise Killed()
        p.at = (label, path, kind)
        p.state = "parked"
        self.back.release()
        p.go.acquire()
        p.state = "running"
        if p.dead:
            raise Killed()
        if p.child_kill:
            p.child_kill = False
            raise ChildKilled()
        self.trace.append((p.pid, p.nyield, label, path))
        p.nyield += 1

    # -- harness side ----------------------------------------------------------
    def spawn(self, fn, name=None):
        p = Proc(len(self.procs), fn, name)
        self.procs.append(p)

        def body():
            self._by_thread[threading.get_ident()] = p
            p.go.acquire()
            try:
                if p.dead:
                    raise Killed()
                p.state = "running"
                p.result = fn(p)
            except Killed:
                pass
            except BaseException as e:      # the code under test raised
                if not p.dead:
                    p.exc = e
            finally:
                p.state = "dead" if p.dead else "done"
                self._by_thread.pop(threading.get_ident(), None)
                self.back.release()

        p.thread = threading.Thread(target=body, name=p.name, daemon=True)
        p.thread.start()
        return p

    def _resume(self, p):
        p.go.release()
        if not self.back.acquire(timeout=self.TIMEOUT):
            raise SchedulerError("process %s did not yield within %gs" % (p.name, self.TIMEOUT))

    def _kill(self, p):
        label, path, _kind = p.at if p.at else ("start", "", "")
        self.crashed = (p.pid, p.nyield, label, path)
        self.trace.append(("crash", p.pid, p.nyield, label))
        p.dead = True
        self._resume(p)
        if not p.finished:
            raise SchedulerError("killed process %s is still running" % p.name)

    def _advance(self, p, through_shared):
        """Execute the pending shared operation of *p* (if *through_shared*) and
        everything after it up to, not including, its next shared operation.
        Returns False if *p* was killed on the way."""
        if p.state == "new":
            self._resume(p)                     # runs up to the first yield
        allowance = 1 if through_shared else 0
        while not p.finished:
            if p.at[2] == "shared":
                if allowance == 0:
                    return True
                allowance -= 1
            what = self.chooser.crash(p.pid, p.nyield, p.at)
            if what == "compiler":
                # only the compiler child dies; the process goes on with what
                # subprocess reports (negative return code)
                self.child_killed = (p.pid, p.nyield, p.at[0], p.at[1])
                self.trace.append(("killcc", p.pid, p.nyield, p.at[0]))
                p.child_kill = True
            elif what:
                self._kill(p)
                return False
            self._resume(p)
        return True

    def run(self, procs=None):
        """Run *procs* (default: all spawned, unfinished ones) to completion under
        the chooser's schedule."""
        procs = [p for p in (procs or self.procs) if not p.finished]
        try:
            for p in procs:                      # leading non-shared operations
                if p.state == "new":
                    self._advance(p, through_shared=False)
            cur = None
            while True:
                runnable = [p for p in procs if not p.finished]
                if not runnable:
                    break
                cur_pos = runnable.index(cur) if cur in runnable else None
                i = self.chooser.choose([p.pid for p in runnable], cur_pos)
                cur = runnable[i]
                self._advance(cur, through_shared=True)
        except BaseException:
            self.shutdown()
            raise

    def shutdown(self):
        for p in self.procs:
            if not p.finished:
                p.dead = True
                p.go.release()
                self.back.acquire(timeout=self.TIMEOUT)


# --------------------------------------------------------------------------
# choosers

class SymbolicChooser:
    """Schedule and crash point as symbolic integers resolved by the explorer.

    ``s<k>`` (k-th choice point) ranges over the positions in the list of
    runnable processes; ``crash_proc``/``crash_at`` name the process that is
    killed and the index of the yield point at which it dies (-1: nobody).
    The preemption bound is the z3 constraint
    ``sum_k ite(s<k> != position of the running process, 1, 0) <= bound``.
    """

    COMPILER_YIELDS = ("cc-half1", "cc-half2")

    def __init__(self, crash_candidates=(0,), preemption_bound=None, prefix="",
                 compiler_kills=True):
        self.k = 0
        self.prefix = prefix
        self.crash_proc = z3.Int(prefix + "crash_proc")
        self.crash_at = z3.Int(prefix + "crash_at")
        # 0: the process (and its compiler) is killed; 1: only the compiler child
        self.crash_target = z3.Int(prefix + "crash_target")
        self.compiler_kills = compiler_kills
        self.crash_candidates = tuple(crash_candidates)
        self.bound = preemption_bound
        self.pre = []
        self.crash_done = False
        self.choices = []           # (z3 var, n alternatives, value)
        self.preemptions = 0

    def assumptions(self):
        cands = list(self.crash_candidates)
        if not cands:
            return [self.crash_at == -1, self.crash_proc == -1, self.crash_target == 0]
        return [self.crash_at >= -1, z3.Or(*[self.crash_proc == c for c in cands]),
                z3.Or(self.crash_target == 0, self.crash_target == 1) if self.compiler_kills
                else self.crash_target == 0]

    def choose(self, pids, cur_pos):
        n = len(pids)
        if n == 1:
            return 0
        ex = symx.current()
        s = z3.Int("%ss%d" % (self.prefix, self.k))
        self.k += 1
        ex.assume(z3.And(s >= 0, s < n), check=False)
        if self.bound is not None and cur_pos is not None:
            self.pre.append(z3.If(s != cur_pos, 1, 0))
            ex.assume(z3.Sum(self.pre) <= self.bound if len(self.pre) > 1
                      else self.pre[0] <= self.bound, check=False)
        order = list(range(n))
        if cur_pos is not None:
            order.remove(cur_pos)
            order.insert(0, cur_pos)
        pick = None
        for v in order:
            if ex.decide(s == v):
                pick = v
                break
        if pick is None:
            raise symx.CutPath("infeasible")
        if cur_pos is not None and pick != cur_pos:
            self.preemptions += 1
        self.choices.append((s, n, pick))
        return pick

    def crash(self, pid, index, at):
        if self.crash_done or pid not in self.crash_candidates:
            return False
        ex = symx.current()
        here = z3.And(self.crash_proc == pid, self.crash_at == index)
        if self.compiler_kills and at and at[0] in self.COMPILER_YIELDS:
            if ex.decide(z3.And(here, self.crash_target == 1)):
                self.crash_done = True
                return "compiler"
        if ex.decide(z3.And(here, self.crash_target == 0)):
            self.crash_done = True
            return "process"
        return False


class ScriptedChooser:
    """Concrete schedule (used to re-run a stored trace in the model)."""

    def __init__(self, picks, crash=None, target="process"):
        self.picks = list(picks)
        self.crash_point = crash
        self.target = target
        self.i = 0

    def choose(self, pids, cur_pos):
        if len(pids) == 1:
            return 0
        v = self.picks[self.i]
        self.i += 1
        return v

    def crash(self, pid, index, at):
        if self.crash_point is not None and tuple(self.crash_point) == (pid, index):
            return self.target
        return False
