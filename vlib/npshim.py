"""A thin ``np`` stand-in installed as ``<module>.np`` for modules whose code
forces floats (``np.array(x, 'd')``, ``np.zeros(n, 'd')``, ``np.isnan``...).
Everything not overridden is the real numpy.  Each override only differs from
numpy when a proxy value is involved; on plain floats it calls numpy."""
import math

import numpy as _np

from . import symx
from .symx import Sym, SymBool


def _has_sym(x):
    if isinstance(x, (Sym, SymBool)):
        return True
    if isinstance(x, _np.ndarray):
        return x.dtype == object
    if isinstance(x, (list, tuple)):
        return any(_has_sym(v) for v in x)
    return False


def _is_float_dtype(dtype):
    if dtype is None:
        return True
    try:
        return _np.dtype(dtype).kind in "fc"
    except TypeError:
        return False


def _elementwise(name, pyfunc):
    real = getattr(_np, name)

    def f(x, *args, **kw):
        if not _has_sym(x):
            return real(x, *args, **kw)
        if isinstance(x, Sym):
            return getattr(x, name)()
        a = _np.asarray(x, dtype=object)
        out = _np.empty(a.shape, dtype=object)
        for idx in _np.ndindex(a.shape):
            v = a[idx]
            out[idx] = getattr(v, name)() if isinstance(v, Sym) else pyfunc(v)
        return out
    f.__name__ = name
    return f


class NpShim:
    def __init__(self, **extra):
        self.__dict__["_extra"] = extra

    def __getattr__(self, name):
        if name in self._extra:
            return self._extra[name]
        return getattr(_np, name)

    # -- constructors --------------------------------------------------------
    @staticmethod
    def array(x, dtype=None, *a, **kw):
        if _has_sym(x) and _is_float_dtype(dtype):
            return _np.array(x, dtype=object, *a, **{k: v for k, v in kw.items() if k != 'dtype'})
        return _np.array(x, dtype, *a, **kw)

    @staticmethod
    def asarray(x, dtype=None, *a, **kw):
        if _has_sym(x) and _is_float_dtype(dtype):
            return _np.asarray(x, dtype=object)
        return _np.asarray(x, dtype, *a, **kw)

    @staticmethod
    def ascontiguousarray(x, dtype=None, *a, **kw):
        if _has_sym(x) and _is_float_dtype(dtype):
            return _np.ascontiguousarray(_np.asarray(x, dtype=object))
        return _np.ascontiguousarray(x, dtype, *a, **kw)

    @staticmethod
    def ones_like(x, *a, **kw):
        if isinstance(x, _np.ndarray) and x.dtype == object and not a and not kw:
            out = _np.empty(x.shape, dtype=object)
            out[...] = Sym(symx.rat(1))
            return out
        return _np.ones_like(x, *a, **kw)

    @staticmethod
    def zeros_like(x, *a, **kw):
        if isinstance(x, _np.ndarray) and x.dtype == object and not a and not kw:
            out = _np.empty(x.shape, dtype=object)
            out[...] = Sym(symx.rat(0))
            return out
        return _np.zeros_like(x, *a, **kw)

    @staticmethod
    def isnan(x):
        if _has_sym(x):
            if isinstance(x, Sym):
                return False
            return _np.zeros(_np.shape(x), dtype=bool)
        return _np.isnan(x)

    @staticmethod
    def isfinite(x):
        if _has_sym(x):
            if isinstance(x, Sym):
                return True
            return _np.ones(_np.shape(x), dtype=bool)
        return _np.isfinite(x)

    exp = staticmethod(_elementwise("exp", math.exp))
    log = staticmethod(_elementwise("log", math.log))
    log10 = staticmethod(_elementwise("log10", math.log10))
    sqrt = staticmethod(_elementwise("sqrt", math.sqrt))
    sin = staticmethod(_elementwise("sin", math.sin))
    cos = staticmethod(_elementwise("cos", math.cos))
    tan = staticmethod(_elementwise("tan", math.tan))
    arctan = staticmethod(_elementwise("arctan", math.atan))
    arcsin = staticmethod(_elementwise("arcsin", math.asin))
    arccos = staticmethod(_elementwise("arccos", math.acos))
    fabs = staticmethod(_elementwise("fabs", abs))
    radians = staticmethod(_elementwise("radians", math.radians))
    ceil = staticmethod(_elementwise("ceil", math.ceil))
    floor = staticmethod(_elementwise("floor", math.floor))


def ident_float(x):
    """Replacement for the builtin ``float`` in a module namespace."""
    if isinstance(x, Sym):
        return x
    return float(x)


def ident_int(x):
    if isinstance(x, Sym):
        return x
    return int(x)
