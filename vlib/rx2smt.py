"""rx2smt -- live Python regular expressions as z3 regex terms (DESIGN 2.3).

A compiled pattern of the code under test is parsed with ``re._parser.parse``
and translated node by node into a small regex AST.  Zero-width assertions at
the edges of the pattern (look-behind, look-ahead, ``^``, ``$``, ``\\b``) become
languages of the text *before* / *after* the match, so that

    "P matches s[i:j] in s"  <=>  OR_k ( s[:i] in pre_k  and  s[i:j] in core_k
                                         and  s[j:] in post_k )

The AST has two back ends: z3 ``Re`` terms (``Z3Backend``) and an independent
Brzozowski-derivative matcher in plain Python (``accepts``/``PyMatcher``), used
to validate the translation against the real ``re`` module on concrete text.

``Marked`` is the encoding used by the obligations: the whole source is ONE z3
string with marker characters at the segment boundaries; "rx matches exactly
from marker i to marker j", "a match starts between markers i and j", "a
candidate match runs across marker i", "the text without markers is in L" are
all regular languages of that string (marker-closed translation of the
patterns), so re.sub's leftmost non-overlapping scan
(s = u0 m1 u1 ... mK rest, each u free of match starts) and every obligation
is a single regex membership -- no word equations, no length bounds.
``capture_live`` obtains the patterns and replacement templates from one traced
run of the real ``convert_type``.

AST nodes (tuples):
  ('set', frozenset_of_codepoints)      one character out of a finite set
  ('nset', frozenset_of_codepoints)     one character NOT in the set
  ('eps',) ('none',) ('all',)           empty string / empty language / Sigma*
  ('cat', a, b) ('alt', a, b) ('and', a, b) ('star', a) ('not', a)
"""
from __future__ import annotations

import re
import re._parser as _sp
import re._constants as _sc

import z3

# --------------------------------------------------------------------------
# AST constructors with light simplification

EPS, NONE, ALL = ('eps',), ('none',), ('all',)
ANY = ('nset', frozenset())


def cset(chars):
    return ('set', frozenset(ord(c) if isinstance(c, str) else c for c in chars))


def ncset(chars):
    return ('nset', frozenset(ord(c) if isinstance(c, str) else c for c in chars))


def cat(*xs):
    out = EPS
    for x in reversed(xs):
        if x == NONE or out == NONE:
            out = NONE
        elif x == EPS:
            pass
        elif out == EPS:
            out = x
        elif x == ALL and out == ALL:
            out = ALL
        else:
            out = ('cat', x, out)
    return out


def alt(*xs):
    out = NONE
    for x in reversed(xs):
        if x == NONE or x == out:
            pass
        elif out == NONE:
            out = x
        elif x == ALL or out == ALL:
            out = ALL
        else:
            out = ('alt', x, out)
    return out


def both(*xs):
    out = ALL
    for x in reversed(xs):
        if x == ALL or x == out:
            pass
        elif out == ALL:
            out = x
        elif x == NONE or out == NONE:
            out = NONE
        else:
            out = ('and', x, out)
    return out


def star(x):
    if x in (EPS, NONE):
        return EPS
    if x == ALL or x[0] == 'star':
        return x
    if x == ANY:
        return ALL
    return ('star', x)


def neg(x):
    if x == NONE:
        return ALL
    if x == ALL:
        return NONE
    if x[0] == 'not':
        return x[1]
    return ('not', x)


def plus(x):
    return cat(x, star(x))


def opt(x):
    return alt(EPS, x)


def lit(s):
    return cat(*[cset(c) for c in s])


def loop(x, lo, hi):
    parts = [x] * lo
    if hi is None:
        parts.append(star(x))
    else:
        tail = EPS
        for _ in range(hi - lo):
            tail = opt(cat(x, tail))
        parts.append(tail)
    return cat(*parts)


# character categories exactly as the ``re`` module defines them for str
# patterns restricted to ASCII text (the claim is restricted to ASCII sources).
_ASCII = range(128)
CATEGORY = {
    _sc.CATEGORY_DIGIT: frozenset(c for c in _ASCII if chr(c).isdigit()),
    _sc.CATEGORY_SPACE: frozenset(c for c in _ASCII if chr(c).isspace()),
    _sc.CATEGORY_WORD: frozenset(c for c in _ASCII if chr(c).isalnum() or chr(c) == '_'),
}
CATEGORY[_sc.CATEGORY_NOT_DIGIT] = frozenset(_ASCII) - CATEGORY[_sc.CATEGORY_DIGIT]
CATEGORY[_sc.CATEGORY_NOT_SPACE] = frozenset(_ASCII) - CATEGORY[_sc.CATEGORY_SPACE]
CATEGORY[_sc.CATEGORY_NOT_WORD] = frozenset(_ASCII) - CATEGORY[_sc.CATEGORY_WORD]
WORD = ('set', CATEGORY[_sc.CATEGORY_WORD])
NONWORD = ('nset', CATEGORY[_sc.CATEGORY_WORD])


class Unsupported(Exception):
    """Construct outside the translated fragment (harness error, never a verdict)."""


# --------------------------------------------------------------------------
# structural helpers

def nullable(x):
    k = x[0]
    if k in ('eps', 'all', 'star'):
        return True
    if k in ('set', 'nset', 'none'):
        return False
    if k == 'cat' or k == 'and':
        return nullable(x[1]) and nullable(x[2])
    if k == 'alt':
        return nullable(x[1]) or nullable(x[2])
    if k == 'not':
        return not nullable(x[1])
    raise ValueError(k)


def _is_cc(x):
    return x[0] in ('set', 'nset')


def _last1(p):
    """Language whose membership, for non-empty text, depends on the last char only."""
    if p == ALL:
        return True
    if p[0] == 'cat' and p[1] == ALL and _is_cc(p[2]):
        return True
    if p[0] == 'not':
        return _last1(p[1])
    if p[0] == 'and':
        return _last1(p[1]) and _last1(p[2])
    if p[0] == 'alt':
        return all(q == EPS or _last1(q) for q in p[1:])
    return False


def _first1(p):
    """Language whose membership, for non-empty text, depends on the first char only."""
    if p == ALL:
        return True
    if p[0] == 'cat' and _is_cc(p[1]) and p[2] == ALL:
        return True
    if p[0] == 'not':
        return _first1(p[1])
    if p[0] == 'and':
        return _first1(p[1]) and _first1(p[2])
    if p[0] == 'alt':
        return all(q == EPS or _first1(q) for q in p[1:])
    return False


def _combine(a, b):
    """Sequence two (pre, core, post) alternatives; None if contradictory."""
    p1, c1, q1 = a
    p2, c2, q2 = b
    if p2 != ALL:
        if c1 == EPS:
            p1 = both(p1, p2)
        elif not nullable(c1) and _last1(p2):
            c1 = both(c1, p2)
        else:
            raise Unsupported("look-behind after a possibly empty or long prefix")
    if q1 != ALL:
        if c2 == EPS:
            q2 = both(q1, q2)
        elif not nullable(c2) and _first1(q1):
            c2 = both(c2, q1)
        else:
            raise Unsupported("look-ahead before a possibly empty or long suffix")
    return (p1, cat(c1, c2), q2)


def _merge(alts):
    out = {}
    for p, c, q in alts:
        if c == NONE or p == NONE or q == NONE:
            continue
        key = (p, q)
        out[key] = alt(out[key], c) if key in out else c
    return [(p, c, q) for (p, q), c in out.items()]


def _in_set(av):
    chars, negate = set(), False
    for op, a in av:
        if op is _sc.NEGATE:
            negate = True
        elif op is _sc.LITERAL:
            chars.add(a)
        elif op is _sc.RANGE:
            chars.update(range(a[0], a[1] + 1))
        elif op is _sc.CATEGORY:
            if a not in CATEGORY:
                raise Unsupported("category %s" % a)
            chars.update(CATEGORY[a])
        else:
            raise Unsupported("set item %s" % op)
    return ('nset' if negate else 'set', frozenset(chars))


class _Tr:
    def __init__(self, flags):
        bad = flags & (re.IGNORECASE | re.LOCALE)
        if bad:
            raise Unsupported("flags %r" % bad)
        self.multiline = bool(flags & re.MULTILINE)
        self.dotall = bool(flags & re.DOTALL)
        self.lazy = 0

    def seq(self, items):
        alts = [(ALL, EPS, ALL)]
        for op, av in items:
            nxt = self.one(op, av)
            alts = _merge([_combine(a, b) for a in alts for b in nxt])
        return alts

    def pure(self, items, what):
        alts = self.seq(items)
        if not alts:
            return NONE
        if len(alts) != 1 or alts[0][0] != ALL or alts[0][2] != ALL:
            raise Unsupported("zero-width assertion inside %s" % what)
        return alts[0][1]

    def one(self, op, av):
        W, NW = WORD, NONWORD
        if op is _sc.LITERAL:
            return [(ALL, cset([av]), ALL)]
        if op is _sc.NOT_LITERAL:
            return [(ALL, ncset([av]), ALL)]
        if op is _sc.ANY:
            return [(ALL, ANY if self.dotall else ncset("\n"), ALL)]
        if op is _sc.IN:
            return [(ALL, _in_set(av), ALL)]
        if op is _sc.BRANCH:
            return _merge([a for b in av[1] for a in self.seq(b)])
        if op is _sc.SUBPATTERN:
            if av[1] or av[2]:
                raise Unsupported("inline flags")
            return self.seq(av[3])
        if op in (_sc.MAX_REPEAT, _sc.MIN_REPEAT):
            lo, hi, body = av
            if op is _sc.MIN_REPEAT:
                self.lazy += 1
            r = self.pure(body, "repeat")
            return [(ALL, loop(r, lo, None if hi is _sc.MAXREPEAT else hi), ALL)]
        if op in (_sc.ASSERT, _sc.ASSERT_NOT):
            direction, body = av
            r = self.pure(body, "look-around")
            lang = cat(r, ALL) if direction > 0 else cat(ALL, r)
            if op is _sc.ASSERT_NOT:
                lang = neg(lang)
            return [(ALL, EPS, lang)] if direction > 0 else [(lang, EPS, ALL)]
        if op is _sc.AT:
            nl = cset("\n")
            if av is _sc.AT_BEGINNING:
                return [(alt(EPS, cat(ALL, nl)) if self.multiline else EPS, EPS, ALL)]
            if av is _sc.AT_BEGINNING_STRING:
                return [(EPS, EPS, ALL)]
            if av is _sc.AT_END:
                # '$' also matches just before a newline that ends the string
                return [(ALL, EPS, alt(EPS, cat(nl, ALL)) if self.multiline else alt(EPS, nl))]
            if av is _sc.AT_END_STRING:
                return [(ALL, EPS, EPS)]
            endw, startw = cat(ALL, W), cat(W, ALL)
            if av is _sc.AT_BOUNDARY:
                return [(neg(endw), EPS, startw), (endw, EPS, neg(startw))]
            if av is _sc.AT_NON_BOUNDARY:
                return [(neg(endw), EPS, neg(startw)), (endw, EPS, startw)]
        raise Unsupported("regex node %s %r" % (op, av))


class Rx:
    """A live pattern translated to alternatives (pre, core, post)."""

    def __init__(self, pattern, flags=0, name="rx"):
        if isinstance(pattern, re.Pattern):
            pattern, flags = pattern.pattern, pattern.flags
        self.name, self.pattern, self.flags = name, pattern, flags
        tree = _sp.parse(pattern, flags)
        self.tree = tree
        tr = _Tr(tree.state.flags)
        self.alts = tr.seq(list(tree))
        self.lazy = tr.lazy
        self.ngroups = tree.state.groups - 1
        # top-level items with the language of their text (context ignored):
        # used to give names to the pieces referenced by a replacement template
        self.items = []
        for op, av in tree:
            g = av[0] if op is _sc.SUBPATTERN else None
            alts = _Tr(tree.state.flags).seq([(op, av)])
            self.items.append((g, alt(*[c for _p, c, _q in alts])))

    def template(self, repl):
        """Replacement template as a list of str literals and int group numbers."""
        compiled = re.compile(self.pattern, self.flags)
        t = _sp.parse_template(repl, compiled)
        if isinstance(t, list):          # Python >= 3.12: [lit, group, lit, ...]
            return [x for x in t if x != '' and x is not None]
        groups, literals = t             # older: ([(index, group)], [literal|None])
        out = list(literals)
        for i, g in groups:
            out[i] = g
        return [x for x in out if x != '' and x is not None]


# --------------------------------------------------------------------------
# back end 1: z3

_STR = z3.StringSort()
_RE = z3.ReSort(_STR)


def _ranges(codes):
    codes = sorted(codes)
    out, i = [], 0
    while i < len(codes):
        j = i
        while j + 1 < len(codes) and codes[j + 1] == codes[j] + 1:
            j += 1
        out.append((codes[i], codes[j]))
        i = j + 1
    return out


def _z3set(codes):
    rs = [z3.Re(chr(a)) if a == b else z3.Range(chr(a), chr(b)) for a, b in _ranges(codes)]
    if not rs:
        return z3.Empty(_RE)
    return rs[0] if len(rs) == 1 else z3.Union(*rs)


class Z3Backend:
    """AST -> z3 regex.  With ``marker`` set, the result is the closure of the
    language under insertion of that character anywhere (w is accepted iff w
    with all markers deleted is in the language): used for the re.sub
    decomposition where a segment boundary is marked inside the text."""

    def __init__(self, marker=None):
        self.marker = marker
        self.cache = {}
        self.mk = z3.Star(z3.Re(marker)) if marker else None
        self.anych = z3.AllChar(_RE)

    def char(self, r):
        if self.marker:
            return z3.Concat(self.mk, z3.Diff(r, z3.Re(self.marker)), self.mk)
        return r

    def __call__(self, x):
        if x in self.cache:
            return self.cache[x]
        k = x[0]
        if k == 'set':
            r = self.char(_z3set(x[1]))
        elif k == 'nset':
            r = self.char(z3.Diff(self.anych, _z3set(x[1])) if x[1] else self.anych)
        elif k == 'eps':
            r = self.mk if self.marker else z3.Re("")
        elif k == 'none':
            r = z3.Empty(_RE)
        elif k == 'all':
            r = z3.Full(_RE)
        elif k == 'cat':
            r = z3.Concat(self(x[1]), self(x[2]))
        elif k == 'alt':
            r = z3.Union(self(x[1]), self(x[2]))
        elif k == 'and':
            r = z3.Intersect(self(x[1]), self(x[2]))
        elif k == 'star':
            r = z3.Star(self(x[1]))
            if self.marker:
                r = z3.Concat(self.mk, r)
        elif k == 'not':
            r = z3.Complement(self(x[1]))
        else:
            raise ValueError(k)
        self.cache[x] = r
        return r


# --------------------------------------------------------------------------
# back end 2: Brzozowski derivatives in plain Python (independent of z3 and re)

_DCACHE = {}


def deriv(x, c):
    """Derivative of language x with respect to the character code c."""
    key = (x, c)
    r = _DCACHE.get(key)
    if r is not None:
        return r
    k = x[0]
    if k == 'set':
        r = EPS if c in x[1] else NONE
    elif k == 'nset':
        r = NONE if c in x[1] else EPS
    elif k in ('eps', 'none'):
        r = NONE
    elif k == 'all':
        r = ALL
    elif k == 'cat':
        r = cat(deriv(x[1], c), x[2])
        if nullable(x[1]):
            r = alt(r, deriv(x[2], c))
    elif k == 'alt':
        r = alt(deriv(x[1], c), deriv(x[2], c))
    elif k == 'and':
        r = both(deriv(x[1], c), deriv(x[2], c))
    elif k == 'star':
        r = cat(deriv(x[1], c), x)
    elif k == 'not':
        r = neg(deriv(x[1], c))
    else:
        raise ValueError(k)
    if len(_DCACHE) > 400000:
        _DCACHE.clear()
    _DCACHE[key] = r
    return r


def accepts(x, s, start=0, stop=None):
    stop = len(s) if stop is None else stop
    for i in range(start, stop):
        if x == NONE:
            return False
        if x == ALL:
            return True
        x = deriv(x, ord(s[i]))
    return nullable(x)


class PyMatcher:
    """re.sub-style leftmost scan computed from the translated alternatives."""

    def __init__(self, rx):
        self.rx = rx
        if any(nullable(c) for _p, c, _q in rx.alts):
            raise Unsupported("pattern can match the empty string")

    def ends_at(self, s, p, pre_ok):
        """All j such that s[p:j] is a match in context (any alternative)."""
        ends = set()
        for k, (pre, core, post) in enumerate(self.rx.alts):
            if not pre_ok[k][p]:
                continue
            x = core
            for j in range(p, len(s) + 1):
                if x == NONE:
                    break
                if nullable(x) and j > p and accepts(post, s, j):
                    ends.add(j)
                if j < len(s):
                    x = deriv(x, ord(s[j]))
        return ends

    def pre_table(self, s):
        tab = []
        for pre, _c, _q in self.rx.alts:
            x, row = pre, []
            for i in range(len(s) + 1):
                row.append(nullable(x))
                if i < len(s):
                    x = deriv(x, ord(s[i]))
            tab.append(row)
        return tab

    def scan(self, s, prefer=None):
        """List of (start, end, n_possible_ends) of the leftmost non-overlapping
        scan.  When several ends are possible at a start, ``prefer`` (the spans
        chosen by the real re module) selects among them; the ambiguity is
        returned so the caller can count it."""
        pre_ok = self.pre_table(s)
        out, p = [], 0
        prefer = dict(prefer or [])
        while p <= len(s):
            ends = self.ends_at(s, p, pre_ok)
            if ends:
                e = prefer[p] if prefer.get(p) in ends else max(ends)
                out.append((p, e, len(ends)))
                p = e
            else:
                p += 1
        return out


# --------------------------------------------------------------------------
# the live patterns and templates of the code under test

class _SubSpy:
    """Stands in for a compiled pattern bound to a module global; records the
    replacement templates passed to .sub()."""

    def __init__(self, compiled, log, name):
        self._c, self._log, self._name = compiled, log, name
        self.pattern, self.flags = compiled.pattern, compiled.flags

    def sub(self, repl, string, count=0):
        self._log.append((self._name, self._c.pattern, self._c.flags, repl))
        return self._c.sub(repl, string, count)

    def __getattr__(self, k):
        return getattr(self._c, k)


def capture_live(generate, dtype, probe="double x = sin(1) + 1.0;\n"):
    """Run the real convert_type once on a tiny input with re.sub / re.compile
    and the two module-level compiled patterns traced; returns the list of
    (name, pattern, flags, replacement template) in call order."""
    log = []
    real_sub, real_compile = re.sub, re.compile
    saved = {}

    def sub(pattern, repl, string, count=0, flags=0):
        if isinstance(pattern, re.Pattern):
            log.append(("re.sub", pattern.pattern, pattern.flags, repl))
        else:
            log.append(("re.sub", pattern, flags, repl))
        return real_sub(pattern, repl, string, count, flags)

    try:
        re.sub = sub
        for nm in ("FLOAT_RE", "TGMATH_INT_RE"):
            saved[nm] = getattr(generate, nm)
            setattr(generate, nm, _SubSpy(saved[nm], log, nm))
        out = generate.convert_type(probe, dtype)
    finally:
        re.sub, re.compile = real_sub, real_compile
        for nm, v in saved.items():
            setattr(generate, nm, v)
    return log, out


# --------------------------------------------------------------------------
# z3 constraint builders over string terms

class Enc:
    """Constraint builder: membership of z3 string terms in AST languages."""

    def __init__(self):
        self.z = Z3Backend()

    def isin(self, s, lang):
        if lang == ALL:
            return z3.BoolVal(True)
        if lang == EPS:
            return z3.Length(s) == 0
        return z3.InRe(s, self.z(lang))

    def match(self, rx, pre, m, post):
        """m is a match of rx in the string pre+m+post (any alternative)."""
        alts = rx.alts if isinstance(rx, Rx) else rx
        return z3.Or(*[z3.And(self.isin(pre, p), self.isin(m, c), self.isin(post, q))
                       for p, c, q in alts])

    def starts(self, rx, left, right):
        """a match of rx (of any length) starts at the cut left|right."""
        alts = rx.alts if isinstance(rx, Rx) else rx
        return z3.Or(*[z3.And(self.isin(left, p), self.isin(right, cat(c, q)))
                       for p, c, q in alts])

def lengths(x, cap=64):
    """Set of possible lengths of words of x (None if unbounded beyond cap)."""
    k = x[0]
    if k in ('set', 'nset'):
        return {1}
    if k == 'eps':
        return {0}
    if k == 'none':
        return set()
    if k == 'cat':
        a, b = lengths(x[1], cap), lengths(x[2], cap)
        if a is None or b is None:
            return None
        r = {i + j for i in a for j in b}
        return None if max(r, default=0) > cap else r
    if k == 'alt':
        a, b = lengths(x[1], cap), lengths(x[2], cap)
        return None if a is None or b is None else a | b
    if k == 'and':
        a, b = lengths(x[1], cap), lengths(x[2], cap)
        if a is None:
            return b
        return a if b is None else a & b
    return None


# --------------------------------------------------------------------------
# single-variable formulation: one symbolic text with boundary markers

class Marked:
    """A symbolic source  w = t0 <1> t1 <2> t2 ... <n> tn  as ONE z3 string with
    n distinct marker characters at the segment boundaries.  Every constraint
    ("segment i is in L", "the text without markers is in L", "rx matches
    exactly from marker i to marker j", "a match of rx starts between markers
    i and j", ...) is a regular language of w, so an obligation is a single
    membership  w in (H1 & ... & Hk & ~Phi)  decided by z3's regex solver: no
    word equations, no length bound on any segment."""

    def __init__(self, n, nonempty=()):
        self.n = n
        self.marks = [chr(1 + i) for i in range(n)]
        self.mre = [z3.Re(c) for c in self.marks]
        self.mks = z3.Union(*self.mre) if n > 1 else self.mre[0]
        self.mk0 = z3.Star(self.mks)
        self.P = z3.Diff(z3.AllChar(_RE), self.mks)
        self.PS = z3.Star(self.P)
        self.ALLM = z3.Full(_RE)
        zm = Z3Backend(self.marks[0])
        zm.mk = self.mk0
        zm.char = lambda r: z3.Concat(self.mk0, z3.Diff(r, self.mks), self.mk0)
        self.zm = zm
        parts = []
        for i in range(n + 1):
            parts.append(z3.Plus(self.P) if i in nonempty else self.PS)
            if i < n:
                parts.append(self.mre[i])
        self.struct = z3.Concat(*parts)
        self.w = z3.String("w")

    # -- regular languages of w --------------------------------------------
    def whole(self, lang):
        return self.zm(lang)

    def _plain(self, lang):
        return self.PS if lang == ALL else z3.Intersect(self.zm(lang), self.PS)

    def seg(self, langs):
        """segment i in langs[i] (ALL = unconstrained)."""
        parts = []
        for i, lang in enumerate(langs):
            parts.append(self._plain(lang))
            if i < self.n:
                parts.append(self.mre[i])
        return z3.Concat(*parts)

    def has(self, i):
        return z3.Concat(self.ALLM, self.mre[i], self.ALLM)

    def lacks(self, i):
        return z3.Complement(self.has(i))

    def match_between(self, alts, i, j):
        """a candidate match spans exactly from marker i to marker j."""
        alts = alts.alts if isinstance(alts, Rx) else alts
        return _union([z3.Concat(z3.Intersect(self.zm(p), self.lacks(i)), self.mre[i],
                                 z3.Intersect(self.zm(c), self.lacks(i), self.lacks(j)),
                                 self.mre[j], self.zm(q)) for p, c, q in alts])

    def starts_in(self, alts, i, j):
        """a candidate match starts at a position p with marker i <= p < marker j
        (i None: from the beginning of the text)."""
        alts = alts.alts if isinstance(alts, Rx) else alts
        notj = z3.Star(z3.Diff(self.mks, self.mre[j])) if self.n > 1 else z3.Re("")
        y_shape = z3.Intersect(z3.Concat(notj, self.P, self.ALLM), self.has(j))
        out = []
        for p, c, q in alts:
            x = z3.Intersect(self.zm(p), self.lacks(j))
            if i is not None:
                x = z3.Intersect(x, self.has(i))
            out.append(z3.Concat(x, z3.Intersect(self.zm(cat(c, q)), y_shape)))
        return _union(out)

    def straddles(self, alts, i):
        """a candidate match starts before marker i and ends after it."""
        alts = alts.alts if isinstance(alts, Rx) else alts
        across = z3.Concat(self.ALLM, self.P, self.mk0, self.mre[i], self.mk0, self.P, self.ALLM)
        return _union([z3.Concat(self.zm(p), z3.Intersect(self.zm(c), across), self.zm(q))
                       for p, c, q in alts])

    def touches(self, alts, i, j):
        """a candidate match shares at least one character with segment (i, j)."""
        alts = alts.alts if isinstance(alts, Rx) else alts
        after_i = z3.Concat(self.ALLM, self.mre[i], self.mk0, self.P, self.ALLM)
        before_j = z3.Concat(self.ALLM, self.P, self.mk0, self.mre[j], self.ALLM)
        out = []
        for p, c, q in alts:
            Pp, C, Q = self.zm(p), self.zm(c), self.zm(q)
            out.append(z3.Concat(Pp, z3.Intersect(C, z3.Union(after_i, before_j)), Q))
            out.append(z3.Concat(z3.Intersect(Pp, self.has(i)),
                                 z3.Intersect(C, z3.Plus(self.P)),
                                 z3.Intersect(Q, self.has(j))))
        return _union(out)

    def split(self, text):
        """segments of a concrete marked text."""
        out, cur = [], []
        for ch in text:
            if ch in self.marks:
                out.append("".join(cur))
                cur = []
            else:
                cur.append(ch)
        out.append("".join(cur))
        return out


def _union(xs):
    xs = list(xs)
    if not xs:
        return z3.Empty(_RE)
    return xs[0] if len(xs) == 1 else z3.Union(*xs)


def r_and(*xs):
    return xs[0] if len(xs) == 1 else z3.Intersect(*xs)


def r_or(*xs):
    return _union(xs)


def r_not(x):
    return z3.Complement(x)


def restrict_prefix(rx, n, lang):
    """Alternatives of rx in which the text matched by the first n top-level
    items (together) is additionally in ``lang``."""
    tr = _Tr(rx.tree.state.flags)
    items = list(rx.tree)
    head = [(p, both(c, lang), q) for p, c, q in tr.seq(items[:n])]
    alts = _merge(head)
    for op, av in items[n:]:
        nxt = tr.one(op, av)
        alts = _merge([_combine(x, y) for x in alts for y in nxt])
    return alts


def prefix_lang(rx, n):
    """Language of the text matched by the first n top-level items (context ignored)."""
    tr = _Tr(rx.tree.state.flags)
    return alt(*[c for _p, c, _q in tr.seq(list(rx.tree)[:n])])
