"""Obligation bookkeeping, known findings, evidence files, exit codes.

A property module (props/cNN.py) exposes ``run(chk)``.  Work is split into
independent *units* (one model / configuration each) that return a plain
``UnitResult`` dict so that units can run in forked worker processes; z3
objects never cross process boundaries.
"""
from __future__ import annotations

import json
import multiprocessing as mp
import os
import sys
import time
import traceback

import z3

from . import ROOT, symx

EXIT_OK, EXIT_VIOLATION, EXIT_HARNESS = 0, 1, 2


# --------------------------------------------------------------------------
# known findings

def load_known():
    path = os.path.join(ROOT, "known_findings.json")
    if not os.path.exists(path):
        return []
    with open(path) as f:
        return json.load(f)["findings"]


# --------------------------------------------------------------------------
# unit results (picklable)

def new_unit(name):
    return {
        "unit": name, "obligations": 0, "discharged": 0, "unknown": 0,
        "paths": 0, "paths_cut": 0, "solver_s": 0.0, "solver_checks": 0,
        "cex": [],          # dicts: {obligation, key, what, inputs, reproduced, detail}
        "samples": [], "errors": [], "notes": [], "not_encoded": [],
        "vacuity_ok": 0, "vacuity_fail": 0, "validated": 0,
        "validation_fail": 0, "functions": [],
    }


class Unit:
    """Per-unit prover: collects obligations for one explored configuration."""

    def __init__(self, name, timeout_ms=60000):
        self.r = new_unit(name)
        self.timeout_ms = timeout_ms
        self.max_cex = 2
        self.max_unknown = 2

    # -- exploration bookkeeping ------------------------------------------
    def absorb(self, ex, paths):
        self.r["paths"] += len(paths)
        self.r["paths_cut"] += ex.paths_cut
        self.r["solver_s"] += ex.solver_s
        self.r["solver_checks"] += ex.checks
        self.r["unknown_forks"] = self.r.get("unknown_forks", 0) + ex.unknown_forks
        ex.unknown_forks = 0
        ex.paths_cut = 0
        ex.solver_s = 0.0
        ex.checks = 0
        if ex.truncated:
            msg = "path/time bound reached (%d paths explored): exploration truncated" % len(paths)
            if getattr(self, "extended", False):
                self.note("extended unit undecided: " + msg)
                self.r["undecided_extended"] = self.r.get("undecided_extended", 0) + 1
            else:
                self.error(msg)

    def error(self, msg):
        self.r["errors"].append(str(msg)[:2000])

    def note(self, msg):
        self.r["notes"].append(str(msg)[:1000])

    def sample(self, obj):
        if len(self.r["samples"]) < 3:
            self.r["samples"].append(obj)

    def functions(self, *names):
        for n in names:
            if n not in self.r["functions"]:
                self.r["functions"].append(n)

    # -- solving ----------------------------------------------------------------
    def solve(self, constraints, timeout_ms=None):
        s = z3.Solver()
        s.set("timeout", timeout_ms or self.timeout_ms)
        s.add(*constraints)
        t = time.time()
        r = symx.guarded_check(s, timeout_ms or self.timeout_ms)
        self.r["solver_s"] += time.time() - t
        self.r["solver_checks"] += 1
        return r, (s.model() if r == "sat" else None), s

    def prove(self, name, phi, hyps, on_cex=None, axioms=True, blockers=None,
              mandatory=True, max_findings=6, sample=False, abstract=False):
        """Obligation  hyps => phi.

        ``on_cex(model)`` must replay the counterexample on the real code and
        return a dict {reproduced: bool, key: str, what: str, inputs: ...,
        block: z3 constraint or None}.  If the key is listed in
        known_findings.json (status known) the characterising constraint
        ``block`` is negated, added to the query, and the query is solved
        again so that a different violation still surfaces.
        Returns True when discharged (possibly modulo known findings)."""
        # fail fast: once a unit holds enough replayed, unlisted violations, the
        # remaining obligations of the unit are skipped (they are not counted)
        fresh = [c for c in self.r["cex"] if c.get("reproduced") and c.get("key") not in _known_keys()]
        if len(fresh) >= self.max_cex:
            self.r["skipped_after_violation"] = self.r.get("skipped_after_violation", 0) + 1
            return False
        if sum(1 for c in self.r["cex"] if not c.get("reproduced")) >= 3:
            # three counterexamples of this unit already failed to replay (harness errors):
            # further ones would only repeat the expensive replays
            self.r["skipped_after_unknown"] = self.r.get("skipped_after_unknown", 0) + 1
            return False
        if self.r["unknown"] >= self.max_unknown:
            self.r["skipped_after_unknown"] = self.r.get("skipped_after_unknown", 0) + 1
            return False
        self.r["obligations"] += 1
        hyps = list(hyps)
        neg = z3.Not(phi)
        if axioms is True:
            # axioms over the hypotheses are cached per hypothesis list (paths reuse it)
            key = tuple(h.get_id() for h in hyps)
            if getattr(self, "_axkey", None) != key:
                self._axkey, self._axapps = key, symx.apps_of(hyps)
            ax = symx.axioms_from_apps(self._axapps + symx.apps_of([neg]))
        else:
            ax = list(axioms or [])
        extra = list(blockers or [])
        if sample and len(self.r["samples"]) < 3:
            s = z3.Solver()
            s.add(*(hyps + ax + [neg]))
            txt = s.to_smt2()
            self.sample({"obligation": name, "smt2_head": txt[:1500],
                         "smt2_bytes": len(txt)})
        for _ in range(max_findings):
            if abstract:
                # fast path: UF applications as opaque constants (sound for unsat)
                aq = symx.abstract_ufs(hyps + ax + extra + [neg])
                r, m, _s = self.solve(aq, timeout_ms=min(self.timeout_ms, 20000))
                if r == "unsat":
                    self.r["discharged"] += 1
                    self.cross_check(name, aq)
                    return True
            r, m, _s = self.solve(hyps + ax + extra + [neg])
            if r == "unsat":
                self.r["discharged"] += 1
                return True
            if r == "unknown":
                self.r["unknown"] += 1
                if mandatory:
                    self.error("obligation %s: solver returned unknown" % name)
                else:
                    self.note("extended obligation %s undecided" % name)
                    self.r["obligations"] -= 1
                    self.r["unknown"] -= 1
                return False
            # sat: counterexample
            if on_cex is None:
                self.r["cex"].append({"obligation": name, "key": None,
                                      "what": "counterexample without replay handler",
                                      "reproduced": False, "inputs": str(m)[:2000]})
                return False
            try:
                info = on_cex(m)
            except Exception:
                self.error("replay of %s crashed: %s" % (name, traceback.format_exc()[-1500:]))
                return False
            info = dict(info)
            block = info.pop("block", None)
            info["obligation"] = name
            self.r["cex"].append(info)
            if info.get("reproduced") and block is not None and \
                    info.get("key") in _known_keys():
                extra.append(z3.Not(block))
                continue
            return False
        self.error("obligation %s: more than %d distinct findings" % (name, max_findings))
        return False

    def cross_check(self, name, constraints):
        """Thorough tier: re-decide a sample of discharged (UF-free) queries with
        cvc5; a disagreement (cvc5 says sat) is a harness error, cvc5 timeouts or
        unknowns are only counted."""
        if os.environ.get("VERIF_TIER_EFFECTIVE") != "thorough" or self.r.get("cvc5_checked", 0) >= 2:
            return
        import subprocess
        import tempfile
        self.r["cvc5_checked"] = self.r.get("cvc5_checked", 0) + 1
        s = z3.Solver()
        s.add(*constraints)
        text = "(set-logic ALL)\n" + s.to_smt2()
        try:
            with tempfile.NamedTemporaryFile("w", suffix=".smt2", delete=False) as f:
                f.write(text)
                path = f.name
            out = subprocess.run(["cvc5", "--lang=smt2", "--tlimit=15000", path], capture_output=True,
                                 text=True, timeout=30).stdout.strip().splitlines()
            ans = out[0] if out else "error"
        except Exception as e:      # noqa
            ans = "error"
        finally:
            try:
                os.unlink(path)
            except Exception:
                pass
        key = "cvc5_" + (ans if ans in ("unsat", "sat", "unknown") else "no_answer")
        self.r[key] = self.r.get(key, 0) + 1
        if ans == "sat":
            self.error("cvc5 disagrees with z3 on discharged obligation %s (z3 unsat, cvc5 sat)" % name)

    def reachable(self, name, hyps):
        """Vacuity guard: the hypotheses of a harness must be satisfiable (the
        reachability twin's final ``assert False`` must be violated)."""
        r, _m, _s = self.solve(list(hyps))
        if r == "sat":
            self.r["vacuity_ok"] += 1
            return True
        self.r["vacuity_fail"] += 1
        self.error("vacuity: hypotheses of %s are %s" % (name, r))
        return False

    def check_close(self, what, got, want, rtol=1e-9, atol=1e-300):
        """Translator validation: symbolic term evaluated in floats vs real code."""
        ok = abs(got - want) <= atol + rtol * max(abs(got), abs(want))
        if ok:
            self.r["validated"] += 1
        else:
            self.r["validation_fail"] += 1
            self.error("validation %s: encoding %.17g vs real code %.17g" % (what, got, want))
        return ok


_KNOWN = None


def _known_keys():
    global _KNOWN
    if _KNOWN is None:
        _KNOWN = {f["key"] for f in load_known() if f.get("status") == "known"}
    return _KNOWN


# --------------------------------------------------------------------------
# parallel map over units

class UnitTimeout(BaseException):
    pass


def _alarm(signum, frame):
    raise UnitTimeout()


# check-wide fail-fast: number of units of this run that already hold a replayed,
# unlisted violation (shared with the forked workers).  Once VERIF_MAX_BAD_UNITS
# (default 8) units have one, the units not yet started are skipped and counted:
# the run exits 1 either way, and a defect that breaks every unit no longer turns
# a two-minute check into half an hour.  Never reached on a tree that holds.
_BAD_UNITS = mp.get_context("fork").Value("i", 0)


def _run_unit(args):
    """Run one unit.  In the thorough tier a unit has a wall budget
    (VERIF_UNIT_BUDGET seconds): a unit that exceeds it is reported as undecided
    (listed, not counted as success, not an error)."""
    import signal
    fn, item = args
    t = time.time()
    limit = int(os.environ.get("VERIF_MAX_BAD_UNITS", "8") or 0)
    if limit and _BAD_UNITS.value >= limit:
        r = new_unit(str(item)[:200])
        r["skipped_unit_after_violations"] = 1
        r["notes"].append("unit not run: %d units of this run already hold replayed, unlisted violations"
                          % _BAD_UNITS.value)
        r["wall_s"] = 0.0
        return r
    budget = int(os.environ.get("VERIF_UNIT_BUDGET", "0") or 0)
    if budget:
        signal.signal(signal.SIGALRM, _alarm)
        signal.alarm(budget)
    try:
        r = fn(item)
    except UnitTimeout:
        r = new_unit(str(item)[:200])
        r["notes"].append("extended unit undecided: exceeded the %d s wall budget of the thorough tier" % budget)
        r["undecided_extended"] = 1
    except BaseException:
        r = new_unit(str(item)[:200])
        r["errors"].append("unit crashed: " + traceback.format_exc()[-3000:])
    finally:
        if budget:
            signal.alarm(0)
    r["wall_s"] = time.time() - t
    if any(c.get("reproduced") and c.get("key") not in _known_keys() for c in r.get("cex", [])):
        with _BAD_UNITS.get_lock():
            _BAD_UNITS.value += 1
    return r


def pmap(fn, items, nproc=None):
    items = list(items)
    nproc = nproc or int(os.environ.get("VERIF_NPROC", "0")) or min(16, os.cpu_count() or 1)
    nproc = min(nproc, max(1, len(items)))
    if nproc == 1:
        return [_run_unit((fn, it)) for it in items]
    ctx = mp.get_context("fork")
    with ctx.Pool(nproc) as pool:
        return pool.map(_run_unit, [(fn, it) for it in items], chunksize=1)


# --------------------------------------------------------------------------
# check-level aggregation

class Check:
    def __init__(self, pid, tier, seed):
        self.pid = pid
        self.tier = tier
        self.seed = seed
        self.t0 = time.time()
        self.units = []
        self.functions = []
        self.bounds = {}
        self.stubs = []
        self.assumptions = []
        self.outside = []
        self.explanation = ""
        self.trusted = ["z3 %s" % z3.get_version_string(),
                        "vlib.symx proxy layer / explorer",
                        "real-arithmetic model of doubles",
                        "instantiated UF axioms (DESIGN 2.4)"]
        self.extra = {}

    @property
    def quick(self):
        return self.tier == "quick"

    def add(self, results):
        if isinstance(results, dict):
            results = [results]
        self.units.extend(results)

    # ------------------------------------------------------------------
    def finish(self):
        known = [f for f in load_known() if f["property"] == self.pid]
        known_keys = {f["key"]: f for f in known if f.get("status") == "known"}
        tot = lambda k: sum(u[k] for u in self.units)
        errors = [(u["unit"], e) for u in self.units for e in u["errors"]]
        cex = [dict(c, unit=u["unit"]) for u in self.units for c in u["cex"]]
        violations, knowns, unreproduced = [], {}, []
        for c in cex:
            if not c.get("reproduced"):
                unreproduced.append(c)
            elif c.get("key") in known_keys:
                knowns.setdefault(c["key"], []).append(c)
            else:
                violations.append(c)
        os.makedirs(os.path.join(ROOT, "replays"), exist_ok=True)
        lines = []
        for key, cs in sorted(knowns.items()):
            lines.append("KNOWN-FINDING: property=%s %s [%s; %d witness(es) this run]"
                         % (self.pid, known_keys[key]["what"], key, len(cs)))
        bykey = {}
        for c in violations:
            bykey.setdefault(str(c.get("key")), []).append(c)
        for i, (key, cs) in enumerate(sorted(bykey.items())):
            c = cs[0]
            path = os.path.join(ROOT, "replays", "%s-%d.json" % (self.pid, i))
            with open(path, "w") as f:
                json.dump(dict(c, property=self.pid, witnesses=len(cs)), f, indent=1, default=str)
            lines.append("VIOLATION property=%s replay=%s" % (self.pid, path))
            lines.append("  key=%s witnesses=%d first: unit=%s obligation=%s: %s" % (
                key, len(cs), c["unit"], c["obligation"], str(c.get("what"))[:400]))
        for c in unreproduced:
            errors.append((c["unit"], "counterexample to %s did not reproduce on the "
                           "real code (encoding or stub wrong): %s" % (
                               c["obligation"], str(c.get("what"))[:500])))
        funcs = list(self.functions)
        for u in self.units:
            for f in u["functions"]:
                if f not in funcs:
                    funcs.append(f)
        samples = []
        for u in self.units:
            for s in u["samples"]:
                if len(samples) < 6:
                    samples.append({"unit": u["unit"], "case": s})
        if not samples:
            samples = [{"unit": u["unit"]} for u in self.units[:3]]
        nontrivial = sum(1 for u in self.units if u["obligations"] > 0 and u["paths"] > 0)
        cov = {
            "explanation": self.explanation,
            "functions_encoded": funcs,
            "bounds": self.bounds,
            "outside_bounds": self.outside,
            "stubs": self.stubs,
            "units": len(self.units),
            "evaluations": len(self.units),
            "distinct_nontrivial": nontrivial,
            "rule": "one unit = one enumerated configuration explored symbolically; "
                    "non-trivial = at least one path completed and at least one "
                    "obligation sent to the solver",
            "paths": tot("paths"), "paths_cut_at_bound": tot("paths_cut"),
            "obligations": tot("obligations"), "discharged": tot("discharged"),
            "unknown": tot("unknown"),
            "solver_checks": tot("solver_checks"),
            "fork_feasibility_unknown_treated_as_feasible": sum(u.get("unknown_forks", 0) for u in self.units),
            "solver_s": round(tot("solver_s"), 2),
            "vacuity_witnesses_ok": tot("vacuity_ok"),
            "vacuity_witnesses_failed": tot("vacuity_fail"),
            "encoding_validations_ok": tot("validated"),
            "encoding_validations_failed": tot("validation_fail"),
            "counterexamples_replayed": len(cex),
            "known_findings_seen": sorted(knowns),
            "known_findings_listed": sorted(known_keys),
            "not_encoded": sorted({x for u in self.units for x in u["not_encoded"]}),
            "notes": [n for u in self.units for n in u["notes"]][:200],
            "harness_errors": ["%s: %s" % e for e in errors][:20],
            "cvc5_cross_check": {k: sum(u.get(k, 0) for u in self.units) for k in
                                 ("cvc5_checked", "cvc5_unsat", "cvc5_sat", "cvc5_unknown", "cvc5_no_answer")},
            "slowest_units_s": [[u["unit"], round(u.get("wall_s", 0), 1)] for u in
                                sorted(self.units, key=lambda u: -u.get("wall_s", 0))[:8]],
            "extended_units_undecided_within_budget": sum(u.get("undecided_extended", 0) for u in self.units),
            "obligations_skipped_after_violation": sum(u.get("skipped_after_violation", 0) for u in self.units),
            "units_not_run_after_violations_in_8_units": sum(u.get("skipped_unit_after_violations", 0)
                                                             for u in self.units),
            "samples": samples,
            "trusted_base": self.trusted,
            "checker_cmd": "./check %s --tier %s" % (self.pid, self.tier),
            "exhaustive": False,
        }
        cov.update(self.extra)
        ev = {
            "property_id": self.pid, "tier": self.tier, "seed": self.seed,
            "level": "other", "coverage": cov,
            "assumptions": self.assumptions,
            "wall_s": round(time.time() - self.t0, 2),
            "violations": len(violations),
        }
        # evidence describes runs against /repo itself; experiments on another tree
        # (VERIF_REPO=<worktree>, seeded changes) write theirs next to the scratch space
        evdir = os.path.join(ROOT, "evidence")
        repo = os.environ.get("VERIF_REPO", "/repo")
        if os.path.realpath(repo) != os.path.realpath("/repo"):
            evdir = os.path.join(os.environ.get("TMPDIR", "/tmp"), "sasverif-evidence-other-tree")
            ev["coverage"]["tree_under_test"] = repo
        os.makedirs(evdir, exist_ok=True)
        with open(os.path.join(evdir, "%s.json" % self.pid), "w") as f:
            json.dump(ev, f, indent=1, default=str)
        for ln in lines:
            print(ln)
        print("%s tier=%s units=%d paths=%d obligations=%d discharged=%d unknown=%d "
              "known=%d violations=%d errors=%d solver=%.1fs wall=%.1fs" % (
                  self.pid, self.tier, len(self.units), cov["paths"], cov["obligations"],
                  cov["discharged"], cov["unknown"], len(knowns), len(violations),
                  len(errors), cov["solver_s"], ev["wall_s"]))
        if violations:
            return EXIT_VIOLATION
        if errors:
            for u, e in errors[:10]:
                print("HARNESS-ERROR %s: %s" % (u, e), file=sys.stderr)
            return EXIT_HARNESS
        return EXIT_OK
