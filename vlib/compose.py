"""compose -- shared machinery of the composition checks C07 (P@S) and C08
(sum/product mixtures).

* Recording stub kernels: real ``sasmodels.kernel.Kernel`` subclasses whose
  ``_call_kernel`` captures what the composition code hands to a leaf
  ``(call_details, values, cutoff, magnetic, radius_effective_mode)`` and fills
  ``self.result`` with named symbols, so that the REAL ``Kernel.Fq``/``Kernel.Iq``
  (normalisation by total weight / shell volume, ``scale``/``background``)
  still run on top of the abstract leaf.
* ``stub_build``: runs the REAL ``core.build_model`` (composition recursion,
  ``ProductModel``/``MixtureModel`` construction) with only the leaf loaders
  replaced.
* ``kernel_view``: the part of ``(call_details, values)`` that the C kernel
  template reads, with distribution offsets dereferenced, so that two calls can
  be compared although one addresses the distributions through the combined
  weight vector and the other through the part's own.
* helpers to run the real compiled kernels with a concrete mesh (replay and
  translator validation), and to ask z3 for a *robust* witness.
"""
from __future__ import annotations

import contextlib
import fcntl
import os
from types import SimpleNamespace

import numpy as np
import z3

from . import symx, npshim, scratch
from .symx import Sym, term

from sasmodels import core, details, product, mixture, kernel as skernel
from sasmodels import generate, kerneldll, kernelpy
from sasmodels.kernel import Kernel, KernelModel

OBJ = np.dtype(object)


# --------------------------------------------------------------------------
# shims (every one is listed in chk.stubs by the property modules)

SHIMS = [
    "product.int -> vlib.npshim.ident_int (int(x) is the identity on a proxy; the mode "
    "parameters are concrete in every unit, so this is only reached when an index is wrong)",
    "core.generate.make_source / kerneldll.load_dll / kernelpy.PyModel -> recording stub "
    "leaf models (real core.build_model, ProductModel, MixtureModel, make_kernel run unmodified)",
    "leaf kernels: sasmodels.kernel.Kernel subclasses with dtype=object whose _call_kernel "
    "records its arguments and fills self.result with named symbols "
    "(F2[i], F1[i], total weight, sum w*V_form, sum w*V_shell, sum w*R_eff[mode]); "
    "the real Kernel.Fq / Kernel.Iq run on top of them",
]


def install_shims():
    product.int = npshim.ident_int


def remove_shims():
    """The shims are the identity on plain floats, so the real-code replays run
    with them in place (removing them mid-unit would leave later explorations
    of the same worker without them)."""
    return None


# --------------------------------------------------------------------------
# recording stub leaves

class Call:
    __slots__ = ("leaf", "info", "details", "values", "cutoff", "magnetic", "mode", "dim")

    def __init__(self, **kw):
        for k, v in kw.items():
            setattr(self, k, v)


class StubKernel(Kernel):
    def __init__(self, info, q_vectors, leaf, rec):
        self.info = info
        self.dtype = OBJ
        self.dim = "2d" if len(q_vectors) == 2 else "1d"
        self.q_input = SimpleNamespace(nq=len(q_vectors[0]), q=q_vectors,
                                       is_2d=len(q_vectors) == 2)
        self.leaf = leaf
        self.rec = rec
        self.result = None

    def raw_names(self, mode):
        nq = self.q_input.nq
        nout = 2 if self.info.have_Fq and self.dim == "1d" else 1
        names = []
        for i in range(nq):
            names.append("L%d.F2[%d]" % (self.leaf, i))
            if nout == 2:
                names.append("L%d.F1[%d]" % (self.leaf, i))
        names += ["L%d.tw" % self.leaf, "L%d.fv" % self.leaf, "L%d.sv" % self.leaf,
                  "L%d.re[m%s]" % (self.leaf, mode)]
        return names

    def _call_kernel(self, call_details, values, cutoff, magnetic, radius_effective_mode):
        mode = radius_effective_mode
        if isinstance(mode, Sym):
            mode = z3.simplify(mode.t)
        self.rec.append(Call(
            leaf=self.leaf, info=self.info, dim=self.dim,
            details=SimpleNamespace(
                buffer=np.array(call_details.buffer), max_pd=len(call_details.pd_par),
                pd_par=np.array(call_details.pd_par), pd_length=np.array(call_details.pd_length),
                pd_offset=np.array(call_details.pd_offset), pd_stride=np.array(call_details.pd_stride),
                num_eval=int(call_details.num_eval), num_weights=int(call_details.num_weights),
                num_active=int(call_details.num_active), theta_par=int(call_details.theta_par),
                extra=(None if getattr(call_details, "length", None) is None else
                       (np.array(call_details.length), np.array(call_details.offset)))),
            values=np.array(values, dtype=object), cutoff=cutoff, magnetic=magnetic, mode=mode))
        self.result = symx.oarray([symx.real(n) for n in self.raw_names(mode)])


class StubModel(KernelModel):
    def __init__(self, info, leaf, rec):
        self.info = info
        self.dtype = OBJ
        self.leaf = leaf
        self.rec = rec

    def make_kernel(self, q_vectors):
        return StubKernel(self.info, q_vectors, self.leaf, self.rec)


@contextlib.contextmanager
def _patched_leaf_loaders(factory):
    saved = (generate.make_source, kerneldll.load_dll, kernelpy.PyModel)
    generate.make_source = lambda info: {"dll": None}
    kerneldll.load_dll = lambda source, info, dtype: factory(info)
    kernelpy.PyModel = lambda info: factory(info)
    try:
        yield
    finally:
        generate.make_source, kerneldll.load_dll, kernelpy.PyModel = saved


def stub_build(info, leaf_ids, rec):
    """The real ``core.build_model(info)`` with leaves -> recording stubs.  Leaves
    are numbered, in the order the real recursion creates them, by *leaf_ids*."""
    ids = list(leaf_ids)

    def factory(leaf_info):
        if not ids:
            raise RuntimeError("more leaves than expected in %s" % info.id)
        return StubModel(leaf_info, ids.pop(0), rec)

    with _patched_leaf_loaders(factory):
        model = core.build_model(info, dtype="double", platform="dll")
    if ids:
        raise RuntimeError("fewer leaves than expected in %s" % info.id)
    return model


def count_leaves(info):
    if info.composition is None:
        return 1
    return sum(count_leaves(p) for p in info.composition[1])


# --------------------------------------------------------------------------
# symbolic meshes

def is_structural(p):
    """Parameters whose value is *structure* (enumerated), not data."""
    return bool(getattr(p, "is_control", False)) or bool(getattr(p, "choices", None))


def sym_mesh(info, lengths=None, concrete=None, m0_symbolic=None, tag=""):
    """Mesh for the call parameters of *info*: every value, distribution value
    and weight is an independent real symbol.  *lengths*: name -> distribution
    length (default 1).  *concrete*: name -> float for structural parameters
    (vector-length controls, choice/mode parameters) and for magnetic
    amplitudes that are switched off.  *m0_symbolic*: set of ``*_M0`` names kept
    symbolic (None = all).  Returns (mesh list, dict by name)."""
    lengths = lengths or {}
    concrete = dict(concrete or {})
    mesh, by = [], {}
    for p in info.parameters.call_parameters:
        n = p.name
        L = lengths.get(n, 1)
        fixed = None
        if n in concrete:
            fixed = float(concrete[n])
        elif is_structural(p):
            fixed = float(p.default)
        elif n.endswith("_M0") and m0_symbolic is not None and n not in m0_symbolic:
            fixed = 0.0
        if fixed is not None:
            # structure, not data: value and its one-point distribution are concrete
            # (angles as constant proxies: numpy's object loops of radians/sin/cos
            # need the methods)
            if n.endswith(("_mtheta", "_mphi")):
                fixed = Sym(symx.rat(fixed))
            v = fixed
            d = symx.oarray([fixed])
            w = symx.oarray([symx.real("%sw.%s[0]" % (tag, n))])
        else:
            v = symx.real("%sv.%s" % (tag, n))
            d = symx.oarray([symx.real("%sd.%s[%d]" % (tag, n, i)) for i in range(L)])
            w = symx.oarray([symx.real("%sw.%s[%d]" % (tag, n, i)) for i in range(L)])
        entry = (v, d, w)
        mesh.append(entry)
        by[n] = entry
    return mesh, by


def is_var(x):
    """A proxy that is a genuine symbol (not a lifted constant)."""
    return isinstance(x, Sym) and not (z3.is_rational_value(x.t) or z3.is_int_value(x.t))


def const_entry(x):
    """What get_mesh produces for a fixed, non-dispersed value."""
    return (x, symx.oarray([x]), symx.oarray([1.0]))


# --------------------------------------------------------------------------
# the kernel's view of one call

def kernel_view(info, det, values, magnetic=True):
    """What kernel_iq.c reads: the value block, and for each of the max_pd loop
    slots (parameter, length, stride, distribution values, weights), plus the
    scalar fields.  *det*: CallDetails or the snapshot of a recorded Call.
    With *magnetic* false the non-magnetic kernel is the one that runs, which
    never reads the spin state and the magnetisation triples: they are left
    out of the view."""
    nvalues = info.parameters.nvalues
    max_pd = len(det.pd_par)
    nw = int(det.num_weights)
    nread = nvalues if magnetic else 2 + info.parameters.npars
    v = {"values": list(values[:nread]),
         "num_eval": int(det.num_eval), "num_active": int(det.num_active),
         "theta_par": int(det.theta_par), "max_pd": max_pd, "slots": []}
    for k in range(max_pd):
        L, off = int(det.pd_length[k]), int(det.pd_offset[k])
        lo = nvalues + off
        v["slots"].append({
            "par": int(det.pd_par[k]), "length": L, "stride": int(det.pd_stride[k]),
            "dist": list(values[lo:lo + L]), "weight": list(values[lo + nw:lo + nw + L]),
            "in_range": 0 <= off and off + L <= nw and lo + nw + L <= len(values)})
    return v


def _eq_terms(a, b):
    """z3 formula a == b for two scalars that may be proxies or numbers."""
    if not symx.is_sym(a) and not symx.is_sym(b):
        return z3.BoolVal(float(a) == float(b))
    return term(a) == term(b)


def views_equal(got, want):
    """(formula, list of human-readable structural mismatches)."""
    conj, bad = [], []
    for key in ("num_eval", "num_active", "theta_par", "max_pd"):
        if got[key] != want[key]:
            bad.append("%s: %r != %r" % (key, got[key], want[key]))
    if len(got["values"]) != len(want["values"]):
        bad.append("value block length %d != %d" % (len(got["values"]), len(want["values"])))
    else:
        conj += [_eq_terms(a, b) for a, b in zip(got["values"], want["values"])]
    if len(got["slots"]) == len(want["slots"]):
        for k, (g, w) in enumerate(zip(got["slots"], want["slots"])):
            for key in ("par", "length", "stride"):
                if g[key] != w[key]:
                    bad.append("loop %d %s: %r != %r" % (k, key, g[key], w[key]))
            if not g["in_range"]:
                bad.append("loop %d distribution out of range" % k)
            if g["length"] == w["length"] and g["in_range"] and w["in_range"]:
                conj += [_eq_terms(a, b) for a, b in zip(g["dist"], w["dist"])]
                conj += [_eq_terms(a, b) for a, b in zip(g["weight"], w["weight"])]
    if bad:
        conj.append(z3.BoolVal(False))
    return (z3.And(*conj) if conj else z3.BoolVal(True)), bad


_INV = z3.Function("inv", z3.RealSort(), z3.RealSort())


def normalise(e):
    """Rewrite every real division a/b (b not a numeral) into a*inv(b) with inv
    uninterpreted, then expand into a sum of monomials.  Two rational
    expressions that are equal by the ring axioms alone (the only kind of
    equality the composition code is supposed to preserve: it re-associates
    scale/volume factors, it never cancels) get the same normal form, so the
    solver is not asked for non-linear reasoning about reciprocals.  Sound: a
    formula valid for every interpretation of inv is valid for inv(b) = 1/b."""
    cache = {}

    def rw(t):
        k = t.get_id()
        if k in cache:
            return cache[k]
        r = t
        if z3.is_app(t) and t.num_args() > 0:
            ch = [rw(c) for c in t.children()]
            if t.decl().kind() == z3.Z3_OP_DIV and not (
                    z3.is_rational_value(ch[1]) or z3.is_int_value(ch[1])):
                r = ch[0] * _INV(ch[1])
            elif any(a.get_id() != b.get_id() for a, b in zip(ch, t.children())):
                r = t.decl()(*ch)
        cache[k] = r
        return r

    return z3.simplify(rw(e), som=True)


def unit_failed(u):
    """Fail fast (same thresholds as Unit.prove): the unit already holds enough
    replayed, unlisted violations / non-reproducing counterexamples / unknowns;
    the rest of it would only repeat them."""
    from .harness import _known_keys
    cex = u.r["cex"]
    fresh = sum(1 for c in cex if c.get("reproduced") and c.get("key") not in _known_keys())
    return (fresh >= getattr(u, "max_cex", 2)
            or sum(1 for c in cex if not c.get("reproduced")) >= 3
            or u.r["unknown"] >= getattr(u, "max_unknown", 2))


def prove_all(u, items, H, mk_handler, seen=None, sample=False, ring_normal_form=True):
    """Discharge the obligations *items* = [(name, phi, oracle)] of one path.
    One query decides the conjunction; unsat of its negation discharges every
    conjunct.  Otherwise each obligation is proved on its own (with replay).
    *seen*: obligation name -> [count, block] for names that already have a
    replayed violation in this unit: further instances are solved with the
    finding's characterising constraint excluded (so a different violation
    still surfaces) or, when the finding has no such constraint, counted
    without being replayed again."""
    seen = seen if seen is not None else {}
    if unit_failed(u):
        u.r["skipped_after_violation"] = u.r.get("skipped_after_violation", 0) + len(items)
        return
    todo = []
    for name, phi, oracle in items:
        if name in seen:
            seen[name][0] += 1
            blk = seen[name][1]
            if blk is not None and not z3.is_true(blk):
                todo.append((name, z3.Or(phi, blk), oracle))
        else:
            todo.append((name, phi, oracle))
    if not todo:
        return
    if ring_normal_form:
        H = [normalise(h) for h in H]
        todo = [(n, normalise(phi), o) for n, phi, o in todo]
        # a reciprocal is never zero (the code guards every divisor against 0)
        H = H + [a != 0 for a in symx.apps_of(H + [phi for _n, phi, _o in todo], names={"inv"})]
    res, _m, _s = u.solve(list(H) + [z3.Not(z3.And(*[phi for _n, phi, _o in todo]))])
    if res == "unsat":
        u.r["obligations"] += len(todo)
        u.r["discharged"] += len(todo)
        if sample:
            u.sample({"obligations_of_one_path": [n for n, _p, _o in todo],
                      "smt2_of_first": z3.Not(todo[0][1]).sexpr()[:800]})
        return
    for name, phi, oracle in todo:
        ncex = len(u.r["cex"])
        ok = u.prove(name, phi, H, mk_handler(name, phi, oracle), axioms=False)
        if not ok and len(u.r["cex"]) > ncex and u.r["cex"][-1].get("reproduced") \
                and name not in seen:
            seen[name] = [1, _BLOCKS.pop(id(u), None)]
    _BLOCKS.pop(id(u), None)


_BLOCKS = {}


def replayed(u, info):
    """Wrap a handler's answer: remember the block of a reproduced finding."""
    if info.get("reproduced"):
        remember_block(u, info.get("block"))
    return info


def remember_block(u, block):
    """Called by a replay handler: the z3 constraint characterising the finding
    it has just reproduced (harness.prove pops 'block' from the handler's
    answer, so it is handed over through this side channel)."""
    _BLOCKS[id(u)] = block


def circle_axioms(by):
    """sin^2 + cos^2 = 1 for the magnetisation angles that convert_magnetism
    passes through sin/cos (DESIGN 2.4; instantiated, never quantified)."""
    ax = []
    for name, (v, d, w) in by.items():
        if name.endswith(("_mtheta", "_mphi")):
            for x in [v] + list(d):
                if isinstance(x, Sym):
                    a = x.radians()
                    s_, c_ = term(a.sin()), term(a.cos())
                    ax.append(s_ * s_ + c_ * c_ == 1)
    return ax


def flag(x):
    """Python truth of a recorded flag that may be a numpy/py bool."""
    return bool(x)


# --------------------------------------------------------------------------
# robust witnesses

def robust_model(constraints, prefs, timeout_ms=20000, step_ms=2000, budget_s=15.0):
    """A model of *constraints* in which as many symbols as possible take their
    preferred (generic, pairwise distinct, physically valid) value.  *prefs*:
    list of (z3 const, float).  Groups of preferences are fixed at once and
    halved when they conflict with the constraints (few do: the symbols a path
    condition pins down), bounded in time.  Returns a model or None."""
    import time
    s = z3.Solver()
    s.set("timeout", timeout_ms)
    s.add(*constraints)
    if str(s.check()) != "sat":
        return None
    best = [s.model()]
    s.set("timeout", step_ms)
    t0 = time.time()

    def rec(group):
        if not group or time.time() - t0 > budget_s:
            return
        s.push()
        s.add(*[c == symx.rat(val) for c, val in group])
        if str(s.check()) == "sat":
            best[0] = s.model()
            return              # keep the group asserted
        s.pop()
        if len(group) > 1:
            mid = len(group) // 2
            rec(group[:mid])
            rec(group[mid:])

    rec(list(prefs))
    return best[0]


def robust_inputs(m, H, prefs, by):
    """Concrete mesh for a replay: every input symbol takes its preferred
    generic value, except the symbols that a path condition over inputs alone
    pins down differently (e.g. ``M0 == 0``), which take the solver's value.
    Conditions on leaf outputs are irrelevant for a replay: the real kernels
    produce their own.  No solver call."""
    env = {c.decl().name(): float(v) for c, v in prefs}
    inputs = set(env)
    consts = {c.decl().name(): c for c, _v in prefs}
    for _round in range(2):
        dirty = False
        for h in H:
            syms = symx.consts_of([h])
            if not syms or not set(syms) <= inputs:
                continue
            try:
                ok = bool(symx.evalf(h, env))
            except Exception:
                ok = False
            if not ok:
                dirty = True
                for n in syms:
                    env[n] = float(symx.model_float(m, consts[n]))
        if not dirty:
            break
    g = lambda x: env[x.t.decl().name()] if is_var(x) else float(x)
    return {n: [g(v), [g(x) for x in d], [g(x) for x in w]] for n, (v, d, w) in by.items()}


def default_prefs(info, by, dispersed=(), salt=0):
    """Preferred concrete values for the symbols of a symbolic mesh: defaults of
    the model perturbed so that all are distinct and inside the limits."""
    prefs, out = [], {}
    pars = {p.name: p for p in info.parameters.call_parameters}
    k = salt
    for name, (v, d, w) in by.items():
        p = pars[name]
        k += 1
        lo, hi = p.limits
        dflt = float(p.default)
        if name.endswith("_M0"):
            base = 1.5 + 0.25 * (k % 7)
        elif name in ("up_frac_i", "up_frac_f"):
            base = 0.3 if name == "up_frac_i" else 0.6
        elif dflt == 0.0:
            base = 0.0 if name in ("background",) else 0.11 + 0.01 * (k % 9)
            if name == "background":
                base = 0.0625 + 0.001 * (k % 5)
        else:
            base = dflt * (1.0 + 0.004 * (k % 11))
        base = _clip_inside(base, lo, hi, dflt)
        if is_var(v):
            prefs.append((v.t, base))
        vv = base if is_var(v) else float(v)
        L = len(d)
        for i in range(L):
            if L == 1:
                dv = _clip_inside(vv * 1.0078125 if vv else 0.015625, lo, hi, vv)
                wv = 0.75
            else:
                dv = _clip_inside(vv * (0.9375 + 0.0625 * i) if vv else 0.01 * (i + 1), lo, hi, vv)
                wv = 0.5 + 0.25 * i
            if is_var(d[i]):
                prefs.append((d[i].t, dv))
            if is_var(w[i]):
                prefs.append((w[i].t, wv))
    return prefs


def _clip_inside(x, lo, hi, fallback):
    lo, hi = float(lo), float(hi)
    if lo <= x <= hi:
        return x
    if lo <= fallback <= hi:
        return float(fallback)
    if np.isfinite(lo) and np.isfinite(hi):
        return 0.5 * (lo + hi)
    return lo if np.isfinite(lo) else hi


def concretise_mesh(m, by):
    """name -> [value, [dist...], [weights...]] of plain floats from model *m*."""
    out = {}
    for name, (v, d, w) in by.items():
        fv = symx.model_float(m, v.t) if is_var(v) else float(v)
        fl = lambda x: float(symx.model_float(m, x.t)) if is_var(x) else float(x)
        out[name] = [float(fv), [fl(x) for x in d], [fl(x) for x in w]]
    return out


# --------------------------------------------------------------------------
# real code (replay / translator validation): compiled kernels, plain floats

_REAL = {}


def real_model(expr):
    """core.build_model(core.load_model_info(expr)) with the real loaders; DLL
    builds of one model are serialised across worker processes by a file lock
    (the library's own build is not atomic)."""
    if expr in _REAL:
        return _REAL[expr]
    remove_shims()
    lockdir = os.path.join(scratch(), "locks")
    os.makedirs(lockdir, exist_ok=True)
    info = core.load_model_info(expr)
    leaves = []

    def walk(i):
        if i.composition is None:
            leaves.append(i.id)
        else:
            for p in i.composition[1]:
                walk(p)
    walk(info)
    fds = []
    try:
        for name in sorted(set(leaves)):
            fd = open(os.path.join(lockdir, name + ".lock"), "w")
            fcntl.flock(fd, fcntl.LOCK_EX)
            fds.append(fd)
        model = core.build_model(info, dtype="double", platform="dll")
        # force the lazy dlopen/compile while the lock is held
        q = [np.array([0.01, 0.02])]
        k = model.make_kernel(q)
        k.release()
    finally:
        for fd in fds:
            fcntl.flock(fd, fcntl.LOCK_UN)
            fd.close()
    _REAL[expr] = model
    return model


def float_mesh(info, conc, overrides=None):
    """Mesh list for *info*'s call parameters from name -> [v, dist, weights]."""
    overrides = overrides or {}
    mesh = []
    for p in info.parameters.call_parameters:
        v, d, w = overrides[p.name] if p.name in overrides else conc[p.name]
        mesh.append((float(v), np.asarray(d, dtype=float), np.asarray(w, dtype=float)))
    return mesh


def real_call(model, q_vectors, mesh, cutoff=0.0, want_values=False):
    """Body of direct_model.call_kernel after get_mesh, on the real kernel."""
    k = model.make_kernel([np.asarray(v, dtype=float) for v in q_vectors])
    cd, vals, mag = details.make_kernel_args(k, mesh)
    named = dict(zip([p.name for p in k.info.parameters.call_parameters],
                     [float(x) for x in vals]))
    out = k(cd, vals, cutoff, mag)
    if want_values:
        return np.array(out, dtype=float), k, named
    return np.array(out, dtype=float), k


def close(a, b, rtol=1e-8, atol=1e-300):
    """Element-wise relative agreement of two real-code results."""
    a, b = np.asarray(a, dtype=float), np.asarray(b, dtype=float)
    if a.shape != b.shape:
        return False
    fa, fb = np.isfinite(a), np.isfinite(b)
    if not np.array_equal(fa, fb):
        return False
    a, b = a[fa], b[fb]
    return bool(np.all(np.abs(a - b) <= atol + rtol * np.maximum(np.abs(a), np.abs(b))))
