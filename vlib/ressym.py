"""ressym -- support shared by the resolution checks C03 / C04 (DESIGN 3/C03, 3/C04).

* stubs for ``sasmodels.resolution`` / ``resolution2d`` that keep z3 proxies
  alive (``np`` shim, name-imported ``sqrt log log10 exp erf``, builtin ``int``)
  and a context manager that puts the real attributes back for replays;
* uninterpreted leaves with *instantiated* axioms.  Lemmas that are cheap
  (order, sign, ``pow10(log10 x) = x``) are asserted on the path when the
  application is created, so that the explorer does not wander into paths that
  no real function allows; the expensive ones (``sqrt(x)^2 = x``, erf
  monotonicity in cross-multiplied form) are added when an obligation is
  solved;
* bounded concretisation of ``int(np.ceil(x))`` trip counts;
* a tiny relation language (``Rel``) so that every property is written once
  and read twice: as a z3 formula over the symbolic run and as a numerical
  test (with tolerance) over the float replay of the real code.
"""
from __future__ import annotations

import contextlib
import math

import numpy as np
import z3

from . import symx, npshim
from .symx import Sym, SymBool, term

from scipy.special import erf as _scipy_erf

from sasmodels import resolution as R
from sasmodels import resolution2d as R2

MAXEXT = 3          # bound on grid-extension trip counts per side
SQRT2 = math.sqrt(2.0)


class DomainError(Exception):
    """A leaf was called outside its domain on a symbolic path."""


# --------------------------------------------------------------------------
# per-path registries

def _notes():
    return symx.current()._path.notes


def _assume(c):
    symx.current().assume(c)


def domain(label, cond):
    """Record the side condition *cond* (z3 Bool) of a leaf call.  It becomes a
    proof obligation of the path ('no exception / no NaN') and a hypothesis of
    every other obligation of that path."""
    c = z3.simplify(cond)
    if z3.is_true(c):
        return
    _notes().setdefault("dom", []).append((label, c))


def _mono_uf(name, x, positive=False, nonneg=False):
    """Strictly increasing uninterpreted function, order lemmas instantiated
    against the applications already made on this path."""
    xt = z3.simplify(term(x))
    reg = _notes().setdefault("uf:" + name, [])
    for yt, app in reg:
        if yt.eq(xt):
            return Sym(app)
    app = symx.uf_decl(name, 1)(xt)
    lem = []
    if positive:
        lem.append(app > 0)
    if nonneg:
        lem.append(app >= 0)
    for yt, bpp in reg:
        lem.append(z3.Implies(xt < yt, app < bpp))
        lem.append(z3.Implies(yt < xt, bpp < app))
        lem.append(z3.Implies(yt == xt, bpp == app))
    reg.append((xt, app))
    if lem:
        _assume(z3.And(*lem))
    return Sym(app)


def _elementwise(fsym, ffloat):
    def f(x, *a, **kw):
        if isinstance(x, Sym):
            return fsym(x)
        if isinstance(x, np.ndarray) and x.dtype == object:
            out = np.empty(x.shape, dtype=object)
            for idx in np.ndindex(x.shape):
                v = x[idx]
                out[idx] = fsym(v) if isinstance(v, Sym) else ffloat(v)
            return out
        return ffloat(x, *a, **kw)
    return f


def _log(x):
    domain("log of a positive number", term(x) > 0)
    return _mono_uf("log", x)


def _log10(x):
    domain("log10 of a positive number", term(x) > 0)
    return _mono_uf("log10", x)


def _sqrt(x):
    domain("sqrt of a non-negative number", term(x) >= 0)
    v = z3.simplify(term(x))
    if z3.is_rational_value(v):
        return math.sqrt(float(v.as_fraction()))
    # exploration only learns sqrt >= 0 (order lemmas over polynomial
    # arguments would make every fork a non-linear query); paths that no real
    # sqrt allows are refuted when the obligations are solved (sqrt_axioms).
    xt = z3.simplify(term(x))
    reg = _notes().setdefault("uf:sqrt", [])
    for yt, app in reg:
        if yt.eq(xt):
            return Sym(app)
    app = symx.uf_decl("sqrt", 1)(xt)
    reg.append((xt, app))
    _assume(app >= 0)
    return Sym(app)


def _pow10(y):
    yt = z3.simplify(term(y))
    r = _mono_uf("pow10", y, positive=True)
    if z3.is_app(yt) and yt.decl().kind() == z3.Z3_OP_UNINTERPRETED \
            and yt.decl().name() == "log10" and yt.num_args() == 1:
        x = yt.arg(0)
        _assume(z3.Implies(x > 0, r.t == x))
    return r


def _erf(x):
    return symx.uf("erf", x)


sym_log = _elementwise(_log, np.log)
sym_log10 = _elementwise(_log10, np.log10)
sym_sqrt = _elementwise(_sqrt, np.sqrt)
sym_erf = _elementwise(_erf, _scipy_erf)
sym_exp = _elementwise(lambda v: symx.uf("exp", v), np.exp)


def sym_logspace(start, stop, num=50, *a, **kw):
    """numpy.logspace = 10 ** linspace(start, stop, num) (numpy doc); the
    power is the uninterpreted increasing positive function pow10."""
    if not (npshim._has_sym(start) or npshim._has_sym(stop)):
        return np.logspace(start, stop, num, *a, **kw)
    y = np.linspace(start, stop, num)
    out = np.empty(len(y), dtype=object)
    for i, v in enumerate(y):
        out[i] = _pow10(v) if isinstance(v, Sym) else 10.0 ** v
    return out


def sym_zeros(shape, dtype=None, *a, **kw):
    out = np.empty(shape, dtype=object)
    out[...] = 0.0
    return out


def sym_isscalar(x):
    return isinstance(x, Sym) or np.isscalar(x)


class _Ceil:
    """np.ceil(x) of a proxy, waiting for the int() that always follows it."""
    def __init__(self, y):
        self.y = y


def sym_ceil(x, *a, **kw):
    if isinstance(x, Sym):
        return _Ceil(x)
    return np.ceil(x, *a, **kw)


def _fraction(t):
    """(num, den) with t == num/den for the shapes the grid code produces."""
    k = t.decl().kind() if z3.is_app(t) else None
    if k == z3.Z3_OP_DIV:
        n, d = _fraction(t.arg(0))
        n2, d2 = _fraction(t.arg(1))
        return _mul(n, d2), _mul(d, n2)
    if k == z3.Z3_OP_MUL:
        n, d = None, None
        for ch in t.children():
            cn, cd = _fraction(ch)
            n, d = _mul(n, cn), _mul(d, cd)
        return n, d
    return t, None


def _mul(a, b):
    if a is None:
        return b
    if b is None:
        return a
    return a * b


def bounded_int(x):
    """Replacement for the builtin ``int`` in sasmodels.resolution: the trip
    count ``int(np.ceil(y))`` is concretised by forking over -1..MAXEXT;
    anything beyond is cut (counted, never a success)."""
    if isinstance(x, _Ceil):
        y = x.y
    elif isinstance(x, Sym):
        return int(x)
    else:
        return int(x)
    ex = symx.current()
    t = z3.simplify(term(y))
    num, den = _fraction(t)
    if den is not None:
        den = z3.simplify(den)
        if not ex.decide(den > 0):
            if not ex.decide(den < 0):
                raise ZeroDivisionError("trip count: division by zero")
            num, den = -num, -den
        le = lambda v: num <= v * den
    else:
        le = lambda v: t <= v
    if ex.decide(z3.Not(le(MAXEXT))):
        raise symx.CutPath("grid extension needs more than %d points" % MAXEXT)
    if ex.decide(le(-2)):
        raise symx.CutPath("negative trip count")
    for v in range(-1, MAXEXT):
        if ex.decide(le(v)):
            return v
    return MAXEXT


# --------------------------------------------------------------------------
# stubs

_ORIG = {}


def _set(mod, name, value):
    key = (mod, name)
    if key not in _ORIG:
        _ORIG[key] = getattr(mod, name, _MISSING)
    setattr(mod, name, value)


_MISSING = object()

STUBS = [
    "resolution.np -> vlib.npshim.NpShim(zeros -> object zeros, isscalar true for proxies, "
    "sqrt/log/log10 -> UFs, ceil -> deferred to int(), logspace -> pow10(linspace))",
    "resolution.sqrt/log/log10/exp/erf (name imports) -> uninterpreted functions; domain side "
    "conditions (log x: x>0, sqrt x: x>=0) recorded as obligations",
    "resolution.int -> bounded concretisation of int(np.ceil(y)) over -1..%d (beyond: path cut)" % MAXEXT,
    "axioms instantiated on occurring arguments: log, log10, pow10, sqrt strictly increasing; "
    "pow10>0; pow10(log10 x)=x; sqrt>=0, sqrt(x)^2=x; erf strictly increasing for arguments over the same "
    "denominator (cross-multiplied), |erf|<1; at solving time every remaining application is replaced by a "
    "real constant (same term, same constant), so that the query is polynomial arithmetic (nlsat)",
]


class ResShim(npshim.NpShim):
    """np stand-in for sasmodels.resolution (class attributes win over the
    NpShim extras, so the overrides are spelled out here)."""
    zeros = staticmethod(sym_zeros)
    isscalar = staticmethod(sym_isscalar)
    sqrt = staticmethod(sym_sqrt)
    log = staticmethod(sym_log)
    log10 = staticmethod(sym_log10)
    ceil = staticmethod(sym_ceil)
    logspace = staticmethod(sym_logspace)


def install():
    shim = ResShim()
    _set(R, "np", shim)
    _set(R, "sqrt", sym_sqrt)
    _set(R, "log", sym_log)
    _set(R, "log10", sym_log10)
    _set(R, "exp", sym_exp)
    _set(R, "erf", sym_erf)
    _set(R, "int", bounded_int)
    return shim


@contextlib.contextmanager
def real_code():
    """Temporarily put every stubbed attribute back (float replays)."""
    saved = {}
    for (mod, name), orig in list(_ORIG.items()):
        saved[(mod, name)] = getattr(mod, name, _MISSING)
        if orig is _MISSING:
            if hasattr(mod, name):
                delattr(mod, name)
        else:
            setattr(mod, name, orig)
    try:
        with np.errstate(all="ignore"):
            yield
    finally:
        for (mod, name), val in saved.items():
            if val is _MISSING:
                if hasattr(mod, name):
                    delattr(mod, name)
            else:
                setattr(mod, name, val)


# --------------------------------------------------------------------------
# generic arithmetic: the same reference formula on proxies and on floats

def issym(*xs):
    return any(isinstance(x, (Sym, SymBool)) for x in xs)


def g_sqrt(x):
    if isinstance(x, Sym):
        return symx.uf("sqrt", x)
    return math.sqrt(x) if x >= 0 else float("nan")


def g_erf(x):
    if isinstance(x, Sym):
        return symx.uf("erf", x)
    return math.erf(x)


def g_abs(x):
    return abs(x)


def g_and(*cs):
    if issym(*cs):
        return SymBool(z3.And(*[symx._lb(c) for c in cs]))
    return all(bool(c) for c in cs)


def g_or(*cs):
    if issym(*cs):
        return SymBool(z3.Or(*[symx._lb(c) for c in cs]))
    return any(bool(c) for c in cs)


def g_not(c):
    if isinstance(c, SymBool):
        return SymBool(z3.Not(c.t))
    return not bool(c)


def g_ite(c, a, b):
    if isinstance(c, SymBool):
        return symx.ite(c, a, b)
    if bool(c):
        return a
    return b


def g_max(a, b):
    return g_ite(a >= b, a, b)


def g_min(a, b):
    return g_ite(a <= b, a, b)


def g_sum(xs):
    tot = 0.0
    for x in xs:
        tot = tot + x
    return tot


class Rel:
    """a <kind> b, kind in eq ge gt le lt, or a boolean 'true' (a is a condition);
    ``when`` is an optional guard (the relation is only required when it holds)."""

    def __init__(self, kind, a, b=None, label="", when=None, scale=1.0):
        if kind == "true" and isinstance(b, str) and not label:
            b, label = None, b          # Rel("true", condition, "label")
        self.kind, self.a, self.b, self.label, self.when = kind, a, b, label, when
        self.scale = scale      # numerical reading: tolerance is relative to max(scale,|a|,|b|)

    def z3(self):
        if self.kind == "true":
            core = symx._lb(self.a)
        else:
            a, b = term(self.a), term(self.b)
            core = {"eq": a == b, "ge": a >= b, "gt": a > b,
                    "le": a <= b, "lt": a < b}[self.kind]
        if self.when is not None:
            return z3.Implies(symx._lb(self.when), core)
        return core

    def z3_robust_violation(self, delta):
        """The relation fails by a margin *delta* (z3 real term > 0); None when
        the relation is not an arithmetic comparison."""
        if self.kind == "true":
            return None
        a, b = term(self.a), term(self.b)
        core = {"eq": z3.Or(a - b >= delta, b - a >= delta), "ge": b - a >= delta,
                "gt": b - a >= delta, "le": a - b >= delta, "lt": a - b >= delta}[self.kind]
        if self.when is not None:
            return z3.And(symx._lb(self.when), core)
        return core

    def violated(self, tol=1e-9):
        """Numerical reading (floats): True when clearly violated."""
        if self.when is not None and not bool(self.when):
            return False
        if self.kind == "true":
            return not bool(self.a)
        a, b = float(self.a), float(self.b)
        if not (math.isfinite(a) and math.isfinite(b)):
            return True
        m = tol * max(self.scale, abs(a), abs(b))
        return {"eq": abs(a - b) > m, "ge": a < b - m, "gt": a <= b - m,
                "le": a > b + m, "lt": a >= b + m}[self.kind]


def conj(rels):
    return z3.And(*[r.z3() for r in rels]) if rels else z3.BoolVal(True)


def any_violated(rels, tol=1e-9):
    return [r.label for r in rels if r.violated(tol)]


# --------------------------------------------------------------------------
# solving support: abstraction of erf, axioms for sqrt

def _provably_equal(a, b):
    if a.eq(b):
        return True
    s = z3.Solver()
    s.set("timeout", 500)
    s.add(a != b)
    return str(s.check()) == "unsat"


def _erf_axioms(new, old):
    """Axioms for the erf representatives *new* among themselves and against
    *old*.  Only arguments over the same denominator are related (that is all
    the weight-matrix code ever compares: one data point, one sigma)."""
    ax = []
    for i, (x, ea) in enumerate(new):
        ax.append(z3.And(ea > -1, ea < 1))
        fx = _fraction(x)
        if fx[1] is None:
            ax.append(z3.Implies(x == 0, ea == 0))
        for y, eb in list(old) + new[i + 1:]:
            fy = _fraction(y)
            if fx[1] is not None and fy[1] is not None and fx[1].eq(fy[1]):
                d, n1, n2 = fx[1], fx[0], fy[0]
                ax.append(z3.Implies(d > 0, z3.And(
                    z3.Implies(n1 < n2, ea < eb), z3.Implies(n1 == n2, ea == eb),
                    z3.Implies(n1 > n2, ea > eb))))
            elif fx[1] is None and fy[1] is None:
                ax.append(z3.And(z3.Implies(x < y, ea < eb), z3.Implies(x == y, ea == eb),
                                 z3.Implies(x > y, ea > eb)))
    return ax


def _sqrt_axioms(new, old, max_pairs=10):
    ax = []
    pairwise = len(new) + len(old) <= max_pairs    # order lemmas grow quadratically
    syms = {}

    def sy(t):
        if t.get_id() not in syms:
            syms[t.get_id()] = frozenset(symx.consts_of([t]))
        return syms[t.get_id()]

    for i, (x, sa) in enumerate(new):
        ax.append(z3.Implies(x >= 0, z3.And(sa >= 0, sa * sa == x)))
        for y, sb in (list(old) + new[i + 1:]) if pairwise else ():
            if not (sy(x) & sy(y)):
                continue        # unrelated quantities (different data points) are never compared
            ax.append(z3.And(z3.Implies(x < y, sa < sb), z3.Implies(y < x, sb < sa),
                             z3.Implies(x == y, sa == sb)))
    return ax


class Abstraction:
    """Incremental replacement of erf / sqrt applications by real constants
    plus their instantiated axioms (see module doc).  erf: |erf|<1, odd,
    strictly increasing -- for two arguments n1/d and n2/d over the same
    denominator the order lemma is stated on the numerators (d>0), which keeps
    the query free of division.  sqrt: s>=0, s^2=x (x>=0), strictly increasing.
    Once no uninterpreted function is left the query is pure polynomial
    arithmetic and goes to nlsat."""

    def __init__(self):
        self.erf = []       # (argument, constant) representatives
        self.sqrt = []
        self.subs = []      # (application, constant)
        self.seen = set()
        self.other_uf = False
        self.heavy_ids = set()

    def extend(self, ts):
        """Register the applications occurring in *ts*; returns new axioms."""
        apps = [a for a in symx.apps_of(ts) if a.get_id() not in self.seen]
        apps.sort(key=lambda a: a.get_id())
        new_erf, new_sqrt = [], []
        pending = []
        for a in apps:
            self.seen.add(a.get_id())
            name = a.decl().name()
            if name == "erf":
                x = a.arg(0)
                for y, c in self.erf + new_erf:
                    if _provably_equal(x, y):
                        self.subs.append((a, c))
                        break
                else:
                    c = z3.Real("erf!%d" % (len(self.erf) + len(new_erf)))
                    new_erf.append((x, c))
                    self.subs.append((a, c))
            elif name == "sqrt":
                c = z3.Real("sqrt!%d" % (len(self.sqrt) + len(new_sqrt) + len(pending)))
                pending.append((a, c))
                self.subs.append((a, c))
            else:
                # log / log10 / pow10 / stub kernels: every fact used about them
                # is an instantiated lemma already present in the hypotheses, so
                # the application itself can become a constant (same term ->
                # same constant keeps functional consistency)
                c = z3.Real("%s!%d" % (name, len(self.subs)))
                self.subs.append((a, c))
        # sqrt arguments may contain sqrt applications themselves
        for a, c in pending:
            new_sqrt.append((self.apply(a.arg(0)), c))
        new_erf = [(self.apply(x), c) for x, c in new_erf]
        sq = _sqrt_axioms(new_sqrt, self.sqrt)
        self.heavy_ids.update(a.get_id() for a in sq)
        ax = _erf_axioms(new_erf, self.erf) + sq
        self.erf += new_erf
        self.sqrt += new_sqrt
        return ax

    def apply(self, t):
        if not self.subs:
            return t
        for _ in range(3):
            t2 = z3.substitute(t, *self.subs)
            if t2.eq(t):
                break
            t = t2
        return t


def has_uf(ts):
    return bool(symx.apps_of(ts))


from .harness import Unit as _Unit      # noqa: E402
import time as _time                    # noqa: E402


class RUnit(_Unit):
    """Unit whose queries go to nlsat (QF_NRA) when they are free of
    uninterpreted functions (flag set by PathProver); anything else, or an
    nlsat 'unknown', goes to the default solver."""
    pure = False          # no uninterpreted function left in the query
    prefer_nlsat = False  # polynomial (sqrt) content: nlsat first

    def _nlsat(self, constraints, timeout_ms):
        s = z3.SolverFor("QF_NRA")
        s.set("timeout", int(timeout_ms))
        s.add(*constraints)
        t = _time.time()
        r = str(s.check())
        self.r["solver_s"] += _time.time() - t
        self.r["solver_checks"] += 1
        return r, (s.model() if r == "sat" else None), s

    heavy = frozenset()   # ids of the polynomial (sqrt) axioms of the current obligation

    def solve(self, constraints, timeout_ms=None):
        constraints = list(constraints)
        total = timeout_ms or self.timeout_ms
        if self.heavy:
            # most obligations follow from the (linear) path facts alone: try without the
            # polynomial axioms first -- fewer hypotheses, so 'unsat' stays sound
            light = [c for c in constraints if c.get_id() not in self.heavy]
            if len(light) < len(constraints):
                res = _Unit.solve(self, light, 2000)
                if res[0] == "unsat":
                    return res
                self.r["solver_checks"] -= 1
        if not self.pure:
            return _Unit.solve(self, constraints, total)
        # portfolio: the default solver is quick on the mostly-linear queries,
        # nlsat decides the polynomial ones the default solver gives up on
        first = 3000 if self.prefer_nlsat else int(total / 4)
        res = _Unit.solve(self, constraints, first)
        if res[0] != "unknown":
            return res
        self.r["solver_checks"] -= 1
        res = self._nlsat(constraints, total / 2)
        if res[0] != "unknown" or not self.prefer_nlsat:
            return res
        self.r["solver_checks"] -= 1
        return _Unit.solve(self, constraints, int(total / 2))


def ties_free(pc, delta):
    """No comparison on the path is decided by less than *delta*: witnesses
    taken under this constraint do not sit on a boundary where exact real
    arithmetic and double rounding could disagree."""
    out = []
    for c in pc:
        while z3.is_not(c):
            c = c.arg(0)
        if z3.is_app(c) and c.num_args() == 2 and c.decl().kind() in (
                z3.Z3_OP_LE, z3.Z3_OP_LT, z3.Z3_OP_GE, z3.Z3_OP_GT):
            a, b = c.arg(0), c.arg(1)
            if z3.is_int(a):
                continue
            out.append(z3.Or(a - b >= delta, b - a >= delta))
    return out


class PathProver:
    """All obligations of one path: the hypotheses are abstracted once."""

    def __init__(self, u, hyps, always=0, pc=(), delta=None):
        self.u = u
        self.pc = list(pc)          # path condition, for robust witnesses
        self.delta = delta          # margin (z3 term) for robust witnesses
        self.ab = Abstraction()
        self.hyps = []
        self.axioms = []
        self.always = always      # the first *always* hypotheses (input assumptions) are never sliced away
        self.add_hyps(hyps)

    def add_hyps(self, hyps):
        hyps = [h if z3.is_expr(h) else z3.BoolVal(bool(h)) for h in hyps]
        self.axioms += self.ab.extend(hyps)
        self._raw = getattr(self, "_raw", []) + hyps
        self.hyps = [self.ab.apply(h) for h in self._raw]

    def _syms(self, t):
        k = t.get_id()
        if k not in self._symcache:
            self._symcache[k] = (t, frozenset(symx.consts_of([t])))
        return self._symcache[k][1]

    def relevant(self, phi, pool):
        """Cone of influence: the members of *pool* that share symbols
        (transitively) with *phi*.  Dropping hypotheses is sound; it keeps
        nlsat away from the variables of unrelated data points."""
        want = set(self._syms(phi))
        rest = [(h, self._syms(h)) for h in pool]
        keep = []
        changed = True
        while changed:
            changed = False
            nxt = []
            for h, sy in rest:
                if not sy or (sy & want):
                    keep.append(h)
                    if not sy <= want:
                        want |= sy
                        changed = True
                else:
                    nxt.append((h, sy))
            rest = nxt
        return keep

    def prove(self, name, rels, on_cex, mandatory=True, sample=False, blockers=None, slice=False):
        """*slice*: keep only the hypotheses in the cone of influence of the
        obligation (only for obligations whose known-finding blocks live in
        that cone too: a block on a dropped component would go unnoticed)."""
        phi = rels if z3.is_expr(rels) else conj(rels)
        ax_new = self.ab.extend([phi])
        if ax_new:
            self.axioms += ax_new
        phi2 = self.ab.apply(phi)
        if not hasattr(self, "_symcache"):
            self._symcache = {}
        if slice:
            pool = self.relevant(phi2, list(self.hyps[self.always:]) + list(self.axioms))
            hset = {h.get_id() for h in self.hyps}
            hyps = list(self.hyps[:self.always]) + [h for h in pool if h.get_id() in hset]
            axioms = [h for h in pool if h.get_id() not in hset]
        else:
            hyps, axioms = list(self.hyps), list(self.axioms)
        self.u.pure = not self.ab.other_uf
        self.u.prefer_nlsat = bool(self.ab.sqrt)
        self.u.heavy = frozenset(self.ab.heavy_ids)
        handler = on_cex
        if on_cex is not None:
            if self.delta is not None:
                handler = self._robust(on_cex, rels, phi2, hyps, axioms)
            handler = self._abstract_block(handler)
        try:
            return self.u.prove(name, phi2, hyps, handler, axioms=axioms,
                                mandatory=mandatory, sample=sample, blockers=blockers)
        finally:
            self.u.pure = False
            self.u.heavy = frozenset()

    def _abstract_block(self, on_cex):
        """The characterising constraint of a finding is stated on the code's
        terms; the query is solved on their abstraction."""
        def wrapped(m):
            info = dict(on_cex(m))
            if info.get("block") is not None:
                ax = self.ab.extend([info["block"]])
                blk = self.ab.apply(info["block"])
                # the harness asserts Not(block): keep the axioms of terms that only the block mentions
                info["block"] = z3.Or(blk, z3.Not(z3.And(*ax))) if ax else blk
            return info
        return wrapped

    def _robust(self, on_cex, rels, phi2, hyps, axioms):
        """Counterexample handler that, when the solver's witness does not
        reproduce on the real code (a tie that exact reals and doubles decide
        differently), asks once more for a witness that violates the relation
        by a margin and decides every comparison of the path by a margin."""
        seen_blocks = []

        def wrapped(m):
            info = on_cex(m)
            if info.get("reproduced"):
                if info.get("block") is not None:
                    seen_blocks.append(info["block"])
                return info
            extra = []
            for c in ties_free(self.pc, self.delta):
                c = self.ab.apply(c)
                # comparisons that are ties on the whole path (0.02*q against the 0.02*q cutoff)
                # cannot be given a margin: leave them out
                if self.u.solve(list(hyps) + list(axioms) + [c], 2000)[0] == "sat":
                    extra.append(c)
                self.u.r["solver_checks"] -= 1
            if not z3.is_expr(rels):
                viol = [r.z3_robust_violation(self.delta) for r in rels]
                viol = [self.ab.apply(x) for x in viol if x is not None]
                if viol:
                    extra.append(z3.Or(*viol))
            cons = list(hyps) + list(axioms) + [z3.Not(phi2)] + extra + \
                [z3.Not(self.ab.apply(b)) for b in seen_blocks]
            r, m2, _s = self.u.solve(cons, 20000)
            self.u.r["solver_checks"] -= 1
            import os
            if os.environ.get("RS_DEBUG"):
                print("robust retry:", r, len(extra), file=__import__("sys").stderr)
            if r != "sat":
                return info
            info2 = on_cex(m2)
            if info2.get("reproduced"):
                if info2.get("block") is not None:
                    seen_blocks.append(info2["block"])
                return info2
            return info
        return wrapped


# --------------------------------------------------------------------------
# float evaluation of symbolic results (translator validation)

EVAL_FUNCS = {"pow10": lambda y: 10.0 ** y, "erf": math.erf}


def evalf(t, env):
    return symx.evalf(term(t), env, EVAL_FUNCS)


def path_of(paths, env):
    """The completed paths whose path condition holds at the concrete point
    *env* (evaluated with the real libm functions)."""
    hit = []
    for p in paths:
        try:
            if all(symx.evalf(c, env, EVAL_FUNCS) for c in p.pc):
                hit.append(p)
        except (ZeroDivisionError, ValueError, OverflowError):
            continue
    return hit


def env_of(m, syms):
    """name -> float for the proxies in *syms* (Sym or arrays of Sym)."""
    env = {}
    for s in syms:
        for v in np.asarray(s, dtype=object).ravel():
            if isinstance(v, Sym):
                env[str(v.t)] = symx.model_float(m, v.t)
    return env


def floats(a, env):
    """Concrete float array for a proxy array / scalar under *env*."""
    if isinstance(a, Sym):
        return float(env[str(a.t)])
    if a is None or isinstance(a, (int, float)):
        return a
    arr = np.asarray(a, dtype=object)
    out = np.empty(arr.shape, dtype=float)
    for idx in np.ndindex(arr.shape):
        v = arr[idx]
        out[idx] = env[str(v.t)] if isinstance(v, Sym) else float(v)
    return out


# --------------------------------------------------------------------------
# scenarios: one symbolic input space + one call of the real code each.
# ``call(vals, sym)`` is used twice: with proxies under the explorer (stubs
# installed, sym=True) and with floats on the real code (sym=False, replay and
# translator validation).

# documented constants (written here from the comments/docstrings of
# resolution.py, NOT read from the module: a changed constant must show up)
CUT = 0.02              # "Limit the smallest q value evaluated (in absolute) to 0.02*min"
MINRES = 1e-8           # minimum resolution substituted for a zero pinhole width
NLOW, NHIGH = 2.5, 3.0  # "Limit q range to (-2.5,+3) sigma"


def _arr(prefix, n):
    return symx.oarray(symx.reals(prefix, n))


def _incr(a, strict=True):
    return [(a[i].t < a[i + 1].t) if strict else (a[i].t <= a[i + 1].t)
            for i in range(len(a) - 1)]


def _fresh_matrix(prefix, nr, nc):
    W = np.empty((nr, nc), dtype=object)
    for j in range(nr):
        for i in range(nc):
            W[j, i] = symx.real("%s_%d_%d" % (prefix, j, i))
    return W


class Scenario:
    kind = "?"
    functions = ()

    def __init__(self, **cfg):
        self.cfg = cfg
        self.syms = {}
        self.assume = []
        self.build(**cfg)

    @property
    def name(self):
        return self.kind + "/" + "/".join("%s=%s" % kv for kv in self.cfg.items())

    def symlist(self):
        return list(self.syms.values())

    def concrete(self, env):
        return {k: floats(v, env) for k, v in self.syms.items()}

    def run_real(self, vals):
        """Real code on floats; exceptions and non-finite results are outputs."""
        with real_code():
            try:
                o = self.call(vals, False)
            except Exception as e:        # the real code raised
                return {"exc": repr(e)[:200]}
        for k, v in list(o.items()):
            if isinstance(v, np.ndarray) and v.dtype.kind == "f" and not np.all(np.isfinite(v)):
                o["exc"] = "non-finite values in %s" % k
        return o


def apply_probe(obj, m, sym):
    """Run the real obj.apply on a f + b g, f, g and a flat theory of length m
    (symbolic f, g, a, b under the explorer; fixed pseudo-random floats on replay)."""
    import random
    if sym:
        f, g = symx.oarray(symx.reals("f", m)), symx.oarray(symx.reals("g", m))
        a, b = symx.real("a"), symx.real("b")
        ones = symx.oarray([Sym(symx.rat(1))] * m)
    else:
        rnd = random.Random(7)
        f = np.array([rnd.uniform(0.5, 2) for _ in range(m)])
        g = np.array([rnd.uniform(0.5, 2) for _ in range(m)])
        a, b, ones = 1.75, -0.375, np.ones(m)
    return {"f": f, "g": g, "a": a, "b": b, "lhs": obj.apply(a * f + b * g),
            "rf": obj.apply(f), "rg": obj.apply(g), "flat": obj.apply(ones)}


class PinholeMatrix(Scenario):
    """pinhole_resolution(q_calc, q, q_width) on fully symbolic grids."""
    kind = "pinhole-matrix"
    functions = ("sasmodels.resolution.pinhole_resolution", "sasmodels.resolution.bin_edges")

    def build(self, nc, nq):
        qc, q, s = _arr("c", nc), _arr("q", nq), _arr("s", nq)
        self.syms = {"qc": qc, "q": q, "s": s}
        self.assume = _incr(qc) + _incr(q) + [q[0].t > 0] + [x.t > 0 for x in s]

    def call(self, v, sym):
        return {"W": R.pinhole_resolution(v["qc"], v["q"], v["s"])}


class PinholeMatrixZero(Scenario):
    """pinhole_resolution(q, q, 1e-8): what Pinhole1D builds for zero width."""
    kind = "pinhole-matrix-zero-width"
    functions = PinholeMatrix.functions

    def build(self, n):
        q = _arr("q", n)
        self.syms = {"q": q}
        gap = symx.rat(NHIGH * MINRES)
        self.assume = [q[0].t > 0] + [q[i + 1].t - q[i].t > gap for i in range(n - 1)]

    def call(self, v, sym):
        q = v["q"]
        return {"W": R.pinhole_resolution(q, q, np.full(len(q), MINRES))}


class QPerp(Scenario):
    """_q_perp_weights(q_edges, qi, w): the slit-length kernel on given bin edges."""
    kind = "qperp"
    functions = ("sasmodels.resolution._q_perp_weights",)

    def build(self, ne):
        e, qi, w = _arr("e", ne), symx.real("qi"), symx.real("w")
        self.syms = {"e": e, "qi": qi, "w": w}
        self.assume = _incr(e) + [w.t > 0]

    def call(self, v, sym):
        return {"P": R._q_perp_weights(v["e"], v["qi"], v["w"])}


def _qperp_uf(q_edges, qi, w):
    """Stand-in for _q_perp_weights inside slit_resolution (mode LW): one
    uninterpreted function per bin; its properties are the QPerp results."""
    apps = [symx.uf("qperp%d" % j, qi, w) for j in range(len(q_edges) - 1)]
    _notes().setdefault("qperp", []).append((qi, w, apps))
    _notes().setdefault("qperp_edges", []).append(list(q_edges))
    return symx.oarray(apps)


class SlitMatrix(Scenario):
    """slit_resolution(q_calc, q, width, length) on fully symbolic grids.
    mode 00 / L / W / LW tells which of the two slit dimensions are non-zero
    (L = the value passed as *width*: sqrt kernel; W = passed as *length*)."""
    kind = "slit-matrix"
    functions = ("sasmodels.resolution.slit_resolution", "sasmodels.resolution.bin_edges",
                 "sasmodels.resolution._q_perp_weights")

    def build(self, mode, nc, nq, n_length=30):
        qc, q = _arr("c", nc), _arr("q", nq)
        L = _arr("L", nq) if "L" in mode else np.zeros(nq)
        W = _arr("W", nq) if "W" in mode else np.zeros(nq)
        self.syms = {"qc": qc, "q": q, "L": L, "W": W}
        self.assume = _incr(qc) + [qc[0].t > 0] + _incr(q) + [q[0].t > 0]
        self.assume += [x.t > 0 for x in list(L) + list(W) if isinstance(x, Sym)]
        self.stub_qperp = (mode == "LW" and n_length == 30)

    def call(self, v, sym):
        if sym and self.stub_qperp:
            saved = R._q_perp_weights
            R._q_perp_weights = _qperp_uf
            try:
                Wm = R.slit_resolution(v["qc"], v["q"], v["L"], v["W"])
            finally:
                R._q_perp_weights = saved
        else:
            Wm = R.slit_resolution(v["qc"], v["q"], v["L"], v["W"],
                                   n_length=self.cfg.get("n_length", 30))
        return {"W": Wm}


class _Recorder:
    """Wraps a weight-matrix builder: records the arguments; under the explorer
    it returns a fresh symbolic matrix instead of running the builder (whose
    properties are established by the *-matrix scenarios)."""

    def __init__(self, real, sym):
        self.real, self.sym, self.args = real, sym, None

    def __call__(self, q_calc, q, a, b=None, **kw):
        self.args = (q_calc, q, a, b)
        if self.sym:
            self.ret = _fresh_matrix("w", len(q_calc), len(q))
            return self.ret
        self.ret = self.real(q_calc, q, a, b, **kw) if b is not None else self.real(q_calc, q, a, **kw)
        return self.ret


class Pinhole1D(Scenario):
    """Pinhole1D(q, q_width[, q_calc]) with the matrix builder recorded."""
    kind = "pinhole1d"
    functions = ("sasmodels.resolution.Pinhole1D.__init__", "sasmodels.resolution.Pinhole1D.apply",
                 "sasmodels.resolution.pinhole_extend_q", "sasmodels.resolution.linear_extrapolation",
                 "sasmodels.resolution.apply_resolution_matrix")

    def build(self, n, grid="default", nc=0, width="sym"):
        q = _arr("q", n)
        self.syms = {"q": q}
        self.assume = _incr(q) + [q[0].t > 0]
        if width == "sym":
            s = _arr("s", n)
            self.syms["s"] = s
            self.assume += [x.t >= 0 for x in s]
        if grid == "user":
            qc = _arr("c", nc)
            self.syms["qc"] = qc
            self.assume += _incr(qc) + [qc[0].t > 0]

    def call(self, v, sym):
        q = v["q"]
        s = v["s"] if "s" in v else 0.0 * q
        rec = _Recorder(R.pinhole_resolution, sym)
        saved = R.pinhole_resolution
        R.pinhole_resolution = rec
        try:
            obj = R.Pinhole1D(q, s, q_calc=v.get("qc"))
        finally:
            R.pinhole_resolution = saved
        G, q2, sig, _ = rec.args
        return {"obj": obj, "qcalc": obj.q_calc, "W": obj.weight_matrix, "Wret": rec.ret,
                "G": G, "q_arg": q2, "sig": sig, "s": s,
                "apply": apply_probe(obj, obj.weight_matrix.shape[0], sym)}


class Slit1D(Scenario):
    """Slit1D(q, q_length, q_width[, q_calc]) with the matrix builder recorded.
    mode: 00 (both None), zz (both 0.), L, Lz (width 0.), W, zW (length 0.), LW;
    shape: scalar | vector."""
    kind = "slit1d"
    functions = ("sasmodels.resolution.Slit1D.__init__", "sasmodels.resolution.Slit1D.apply",
                 "sasmodels.resolution.slit_extend_q", "sasmodels.resolution.geometric_extrapolation",
                 "sasmodels.resolution.apply_resolution_matrix")

    def build(self, mode, shape, n, grid="default", nc=0):
        q = _arr("q", n)
        self.syms = {"q": q}
        self.assume = _incr(q) + [q[0].t > 0]
        for key in ("L", "W"):
            if key in mode:
                x = symx.real(key) if shape == "scalar" else _arr(key, n)
                self.syms[key] = x
                self.assume += [y.t > 0 for y in np.atleast_1d(np.asarray(x, dtype=object))]
        if grid == "user":
            qc = _arr("c", nc)
            self.syms["qc"] = qc
            self.assume += _incr(qc) + [qc[0].t > 0]

    def widths(self, v):
        """(q_length, q_width) constructor arguments for this mode."""
        mode = self.cfg["mode"]
        zero = 0.0 if self.cfg["shape"] == "scalar" else np.zeros(len(v["q"]))
        ql, qw = {"00": (None, None), "zz": (zero, zero), "L": (v.get("L"), None),
                  "Lz": (v.get("L"), zero), "W": (None, v.get("W")), "zW": (zero, v.get("W")),
                  "LW": (v.get("L"), v.get("W"))}[mode]
        return ql, qw

    def per_point(self, v):
        """(L_i, W_i) per data point as plain lists (0.0 where absent)."""
        n = len(v["q"])
        out = []
        for key in ("L", "W"):
            x = v.get(key)
            if x is None:
                out.append([0.0] * n)
            elif isinstance(x, np.ndarray):
                out.append(list(x))
            else:
                out.append([x] * n)
        return out

    def call(self, v, sym):
        ql, qw = self.widths(v)
        rec = _Recorder(R.slit_resolution, sym)
        saved = R.slit_resolution
        R.slit_resolution = rec
        try:
            obj = R.Slit1D(v["q"], q_length=ql, q_width=qw, q_calc=v.get("qc"))
        finally:
            R.slit_resolution = saved
        G, q2, a_width, a_length = rec.args
        return {"obj": obj, "qcalc": obj.q_calc, "W": obj.weight_matrix, "Wret": rec.ret,
                "G": G, "q_arg": q2, "a_width": a_width, "a_length": a_length,
                "apply": apply_probe(obj, obj.weight_matrix.shape[0], sym)}


def bin_edges_ref(x):
    """Bin edges as documented: mid-points between neighbouring centres, the
    two outer edges half an interval beyond the first / last centre."""
    x = list(x)
    return ([x[0] - (x[1] - x[0]) / 2.0]
            + [(x[j] + x[j + 1]) / 2.0 for j in range(len(x) - 1)]
            + [x[-1] + (x[-1] - x[-2]) / 2.0])


# --------------------------------------------------------------------------
# 2-D resolution, Perfect1D, DataMixin

from sasmodels import direct_model as DM     # noqa: E402


class _NS:
    """Minimal data object (attribute bag)."""

    def __init__(self, **kw):
        self.__dict__.update(kw)


def _cp(a):
    return None if a is None else np.array(a, dtype=(object if getattr(a, "dtype", None) == object else float))


def lift_exact(a):
    """float array -> object array of exact rationals (so that sums of the
    concrete Gaussian ring weights are not rounded when they meet proxies)."""
    out = np.empty(np.shape(a), dtype=object)
    for idx in np.ndindex(out.shape):
        out[idx] = Sym(symx.rat(a[idx]))
    return out


class Pinhole2D(Scenario):
    """resolution2d.Pinhole2D(data, accuracy=...) and its apply."""
    kind = "pinhole2d"
    functions = ("sasmodels.resolution2d.Pinhole2D.__init__", "sasmodels.resolution2d.Pinhole2D._init_data",
                 "sasmodels.resolution2d.Pinhole2D._calc_res", "sasmodels.resolution2d.Pinhole2D.apply")

    def build(self, n, accuracy="low", dq="sym"):
        qx, qy = _arr("qx", n), _arr("qy", n)
        self.syms = {"qx": qx, "qy": qy}
        self.assume = [x.t != 0 for x in qx]
        if dq == "sym":
            dx, dy = _arr("dpar", n), _arr("dperp", n)
            self.syms.update({"dpar": dx, "dperp": dy})
            self.assume += [x.t >= 0 for x in list(dx) + list(dy)]

    def data(self, v, sym):
        qx, qy = _cp(v["qx"]), _cp(v["qy"])
        q = (qx * qx + qy * qy)
        q = sym_sqrt(q) if sym else np.sqrt(q)
        d = _NS(qx_data=qx, qy_data=qy, q_data=q)
        if "dpar" in v:
            d.dqx_data, d.dqy_data = _cp(v["dpar"]), _cp(v["dperp"])
        return d

    def call(self, v, sym):
        obj = R2.Pinhole2D(data=self.data(v, sym), accuracy=self.cfg.get("accuracy", "low"))
        w = obj.q_calc_weights
        if sym and w is not None:
            obj.q_calc_weights = lift_exact(w)
        return {"obj": obj, "qx_calc": obj.q_calc[0], "qy_calc": obj.q_calc[1],
                "weights": w, "nbins": obj.nr * obj.nphi,
                "apply": apply_probe(obj, len(obj.q_calc[0]), sym)}


class Slit2D(Scenario):
    kind = "slit2d"
    functions = ("sasmodels.resolution2d.Slit2D.__init__", "sasmodels.resolution2d.Slit2D.apply")

    def build(self, n):
        q, L = _arr("q", n), _arr("L", n)
        W = symx.real("W")
        self.syms = {"q": q, "L": L, "W": W}
        self.assume = _incr(q) + [q[0].t > 0, W.t > 0] + [x.t > 0 for x in L]

    def call(self, v, sym):
        obj = R2.Slit2D(_cp(v["q"]), _cp(v["L"]), v["W"], q_calc=_cp(v["q"]))
        n = obj.nx * obj.ny
        theory = symx.oarray([Sym(symx.rat(1))] * n) if sym else np.ones(n)
        return {"obj": obj, "flat": obj.apply(theory)}


class Perfect(Scenario):
    kind = "perfect1d"
    functions = ("sasmodels.resolution.Perfect1D.__init__", "sasmodels.resolution.Perfect1D.apply")

    def build(self, n):
        q = _arr("q", n)
        self.syms = {"q": q}
        self.assume = _incr(q) + [q[0].t > 0]

    def call(self, v, sym):
        obj = R.Perfect1D(v["q"])
        return {"obj": obj, "qcalc": obj.q_calc, "apply": apply_probe(obj, len(obj.q_calc), sym)}


class _FakePar:
    def __init__(self, default):
        self.default = default


class _FakeModel:
    """Stands for a KernelModel: records the q vectors it is asked for."""

    def __init__(self, bg_default):
        self.info = _NS(parameters=_NS(common_parameters=[_FakePar(1.0), _FakePar(bg_default)]))
        self.q_vectors = None

    def make_kernel(self, q_vectors):
        self.q_vectors = q_vectors
        return _NS(q_vectors=q_vectors, results=None)


def theory_P(qv):
    """Uninterpreted unsmeared theory P(q) (P(qx,qy) in 2-D), floats: a smooth
    stand-in evaluated numerically."""
    if len(qv) == 1:
        return [symx.uf("P", x) if isinstance(x, Sym) else 1.0 / (1.0 + 50.0 * x * x) for x in qv[0]]
    return [symx.uf("P2", x, y) if issym(x, y) else 1.0 / (1.0 + 50.0 * (x * x + 2 * y * y))
            for x, y in zip(qv[0], qv[1])]


def _call_kernel_stub(calculator, pars, cutoff=0., mono=False):
    """kernel.Kernel.Iq as documented: I(q) = scale * P(q) + background."""
    P = theory_P(calculator.q_vectors)
    scale, bg = pars.get("scale", 1.0), pars.get("background", 0.0)
    return symx.oarray([scale * p + bg for p in P]) if issym(scale, bg, *P) \
        else np.array([scale * p + bg for p in P], dtype=float)


class Direct(Scenario):
    """DataMixin._interpret_data + _calc_theory with an uninterpreted kernel."""
    kind = "direct-model"
    functions = ("sasmodels.direct_model.DataMixin._interpret_data", "sasmodels.direct_model.DataMixin._calc_theory")

    def build(self, dtype, n):
        self.syms = {"scale": symx.real("scale"), "bg": symx.real("bg")}
        self.assume = []
        if dtype == "Iqxy":
            qx, qy, dx, dy = _arr("qx", n), _arr("qy", n), _arr("dpar", n), _arr("dperp", n)
            self.syms.update({"qx": qx, "qy": qy, "dpar": dx, "dperp": dy})
            self.assume += [x.t != 0 for x in qx] + [x.t >= 0 for x in list(dx) + list(dy)]
            return
        q = _arr("q", n)
        self.syms["q"] = q
        self.assume += _incr(q) + [q[0].t > 0]
        if dtype == "pinhole":
            s = _arr("s", n)
            self.syms["s"] = s
            self.assume += [x.t >= 0 for x in s]     # zero and positive widths may be mixed
        if dtype in ("slit", "oriented"):
            L, W = _arr("L", n), _arr("W", n)
            self.syms.update({"L": L, "W": W})
            self.assume += [x.t > 0 for x in list(L) + list(W)]

    def data(self, v, sym):
        dtype = self.cfg["dtype"]
        if dtype == "Iqxy":
            qx, qy = _cp(v["qx"]), _cp(v["qy"])
            return _NS(qx_data=qx, qy_data=qy, q_data=None, dqx_data=_cp(v["dpar"]), dqy_data=_cp(v["dperp"]),
                       mask=np.zeros(len(qx)), data=None, err_data=None, qmin=0.0)
        q = _cp(v["q"])
        d = _NS(x=q, y=None, dy=None, dx=None, dxl=None, dxw=None, qmin=0.0, qmax=np.inf, mask=None)
        if dtype == "pinhole":
            d.dx = _cp(v["s"])
        elif dtype in ("slit", "oriented"):
            d.dxl, d.dxw = _cp(v["L"]), _cp(v["W"])
            d.oriented = (dtype == "oriented")
        return d

    def call(self, v, sym):
        rp = _Recorder(R.pinhole_resolution, sym)
        rs = _Recorder(R.slit_resolution, sym)
        saved = (R.pinhole_resolution, R.slit_resolution, DM.call_kernel, DM.np)
        R.pinhole_resolution, R.slit_resolution, DM.call_kernel = rp, rs, _call_kernel_stub
        if sym:
            DM.np = ResShim()
        try:
            mix = DM.DataMixin()
            model = _FakeModel(bg_default=0.001)
            data = self.data(v, sym)
            if self.cfg["dtype"] == "Iqxy":
                # _interpret_data needs q for its own index; Pinhole2D reads data.q_data[index]
                qq = data.qx_data * data.qx_data + data.qy_data * data.qy_data
                data.q_data = sym_sqrt(qq) if sym else np.sqrt(qq)
            mix._interpret_data(data, model)
            res = mix.resolution
            if sym and getattr(res, "q_calc_weights", None) is not None:
                res.q_calc_weights = lift_exact(res.q_calc_weights)
            out = {"res": res, "mix": mix}
            out["full"] = mix._calc_theory({"scale": v["scale"], "background": v["bg"]})
            out["unit"] = mix._calc_theory({"scale": 1.0, "background": 0.0})
            out["default_bg"] = mix._calc_theory({"scale": v["scale"]})
            Wr = rp.ret if rp.args is not None else (rs.ret if rs.args is not None else None)
            if Wr is not None:
                out["Wret"] = Wr
        finally:
            R.pinhole_resolution, R.slit_resolution, DM.call_kernel, DM.np = saved
        return out
