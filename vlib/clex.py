"""Reference C99 lexer for C15 (written from C99 6.4, independent of the code
under test): token classes as regex ASTs (vlib.rx2smt AST, usable by z3 and by
the derivative matcher) and a plain Python preprocessing tokenizer used for
replay and for the concrete token-stream comparison.
"""
from __future__ import annotations

from .rx2smt import cset, cat, alt, both, star, plus, opt, neg, lit, EPS, ALL, accepts

# --------------------------------------------------------------------------
# alphabet of the symbolic sources: printable ASCII, tab, newline

PRINTABLE = frozenset(range(0x20, 0x7f)) | {9, 10}
QUOTES = frozenset(map(ord, "\"'\\"))
SIGMA = ('set', PRINTABLE)                       # any source character
SIGMA_NQ = ('set', PRINTABLE - QUOTES)           # ... outside string/char literals

DIGIT = cset("0123456789")
NONZERO = cset("123456789")
OCT = cset("01234567")
HEX = cset("0123456789abcdefABCDEF")
ALPHA_ = cset("abcdefghijklmnopqrstuvwxyzABCDEFGHIJKLMNOPQRSTUVWXYZ_")
WORDCH = cset("abcdefghijklmnopqrstuvwxyzABCDEFGHIJKLMNOPQRSTUVWXYZ_0123456789")
SIGN = cset("+-")
DOT = cset(".")
# gap characters: everything that is neither a word character nor a quote
_GAPSET = PRINTABLE - QUOTES - WORDCH[1]
GAPCH = ('set', frozenset(_GAPSET))
G = ('set', frozenset(_GAPSET - set(map(ord, ".+-"))))   # gap, not dot, not sign

# 6.4.2 identifiers
IDENT = cat(ALPHA_, star(WORDCH))

# 6.4.4.1 integer constants
_U, _L = cset("uU"), alt(cset("lL"), lit("ll"), lit("LL"))
ISUF = opt(alt(cat(_U, opt(_L)), cat(_L, opt(_U))))
HEXINT = cat(cset("0"), cset("xX"), plus(HEX))
INT_NOSUF = alt(cat(NONZERO, star(DIGIT)), cat(cset("0"), star(OCT)), HEXINT)
INTCONST = cat(INT_NOSUF, ISUF)
DECINT = alt(cset("0"), cat(NONZERO, star(DIGIT)))       # what "an integer literal" means for tgmath

# 6.4.4.2 floating constants
EXP = cat(cset("eE"), opt(SIGN), plus(DIGIT))
FRAC = alt(cat(star(DIGIT), DOT, plus(DIGIT)), cat(plus(DIGIT), DOT))
DECFLOAT = alt(cat(FRAC, opt(EXP)), cat(plus(DIGIT), EXP))          # no suffix
BEXP = cat(cset("pP"), opt(SIGN), plus(DIGIT))
HEXFRAC = alt(cat(star(HEX), DOT, plus(HEX)), cat(plus(HEX), DOT))
HEXFLOAT = cat(cset("0"), cset("xX"), alt(HEXFRAC, plus(HEX)), BEXP)  # no suffix
FSUF = cset("flFL")
FLOATCONST = cat(alt(DECFLOAT, HEXFLOAT), opt(FSUF))
CONST = alt(INTCONST, FLOATCONST)
# a constant after which a sign would be lexed as part of the pp-number
CONST_E = both(HEXINT, cat(ALL, cset("eE")))
CONST_N = both(CONST, neg(CONST_E))

# --------------------------------------------------------------------------
# well-formed token sequences without string/char literals and comments.
# Grammar (unambiguous, equals maximal-munch lexing on its language):
#   block  := g | sign | CHAIN (g|sign) | CONST_N (g|sign) | CONST_E g
#   CHAIN  := '.'* (IDENT '.'+)* IDENT?          identifiers and member dots
#   WF     := block* (CHAIN | CONST)?
# i.e. identifiers/constants are separated by at least one gap character, a
# constant is not adjacent to '.', and a hex integer ending in 'e' is not
# followed by a sign (which C would lex as one invalid pp-number).
GS = alt(G, SIGN)
CHAIN = cat(star(DOT), star(cat(IDENT, plus(DOT))), opt(IDENT))
BLOCK = alt(GS, cat(CHAIN, GS), cat(CONST_N, GS), cat(CONST_E, G))
PRE_CONST = star(BLOCK)                           # text after which a constant token may start
PRE_IDENT = cat(star(BLOCK), star(DOT), star(cat(IDENT, plus(DOT))))
WF = cat(star(BLOCK), opt(alt(CHAIN, CONST)))
POST_IDENT = alt(EPS, cat(GAPCH, ALL))            # first char after an identifier token
POST_CONST = alt(EPS, cat(GS, ALL))
NO_COMMENT = neg(cat(ALL, alt(lit("/*"), lit("//")), ALL))

# string literal body characters (no quote, backslash, newline); escapes are
# not needed to exhibit the findings and are left out of the symbolic alphabet
STRCH = ('set', PRINTABLE - QUOTES - {10})

MATH_FUNCS = sorted(
    [a + f + h for a in ("", "a") for f in ("sin", "cos", "tan") for h in ("", "h")]
    + ["atan2", "exp", "exp2", "exp10", "expm1", "log", "log2", "log10", "log1p",
       "pow", "pown", "powr", "sqrt", "rsqrt", "rootn", "erf", "erfc", "tgamma",
       "fabs", "fmin", "fmax"])
MATHFN = alt(*[lit(f) for f in MATH_FUNCS])
# floating type keywords rewritten by the conversion: double, the OpenCL vector
# forms doubleN, and the complex convention cdouble (cdoubleN accepted likewise)
KEYWORDS = [c + "double" + n for c in ("", "c") for n in ("", "2", "4", "8", "16")]
KW = alt(*[lit(k) for k in KEYWORDS])
SPACE = cset(" \t\n\r\x0b\x0c")


# --------------------------------------------------------------------------
# plain Python preprocessing tokenizer (C99 6.4, translation phases 2-3)

_PUNCT = sorted(["...", "<<=", ">>=", "->", "++", "--", "<<", ">>", "<=", ">=", "==",
                 "!=", "&&", "||", "*=", "/=", "%=", "+=", "-=", "&=", "^=", "|=",
                 "##", "<:", ":>", "<%", "%>", "%:"], key=len, reverse=True)
_IDSTART = set("abcdefghijklmnopqrstuvwxyzABCDEFGHIJKLMNOPQRSTUVWXYZ_")
_IDCH = _IDSTART | set("0123456789")
_DIG = set("0123456789")


def classify_number(text):
    """Kind of a pp-number: int / float / hexfloat (+ 's' if suffixed) / badnum."""
    for kind, lang in (("int", INTCONST), ("float", DECFLOAT), ("hexfloat", HEXFLOAT),
                       ("float+s", cat(DECFLOAT, FSUF)), ("hexfloat+s", cat(HEXFLOAT, FSUF))):
        if accepts(lang, text):
            return kind
    return "badnum"


def tokenize(src):
    """List of (kind, text, start) ; whitespace and comments dropped.
    kinds: id int float hexfloat float+s hexfloat+s badnum str chr punct other"""
    out, i, n = [], 0, len(src)
    while i < n:
        c = src[i]
        if c in " \t\n\r\x0b\x0c":
            i += 1
        elif c == "\\" and i + 1 < n and src[i + 1] == "\n":
            i += 2
        elif src.startswith("/*", i):
            j = src.find("*/", i + 2)
            i = n if j < 0 else j + 2
        elif src.startswith("//", i):
            j = src.find("\n", i)
            i = n if j < 0 else j
        elif c in _IDSTART:
            j = i + 1
            while j < n and src[j] in _IDCH:
                j += 1
            if j < n and src[j] in "\"'" and src[i:j] == "L":
                j = _quoted(src, j)
                out.append(("str" if src[j - 1] == '"' else "chr", src[i:j], i))
            else:
                out.append(("id", src[i:j], i))
            i = j
        elif c in _DIG or (c == "." and i + 1 < n and src[i + 1] in _DIG):
            j = i + 1
            while j < n:
                if src[j] in "+-" and src[j - 1] in "eEpP":
                    j += 1
                elif src[j] in _IDCH or src[j] == ".":
                    j += 1
                else:
                    break
            out.append((classify_number(src[i:j]), src[i:j], i))
            i = j
        elif c in "\"'":
            j = _quoted(src, i)
            out.append(("str" if c == '"' else "chr", src[i:j], i))
            i = j
        else:
            for p in _PUNCT:
                if src.startswith(p, i):
                    out.append(("punct", p, i))
                    i += len(p)
                    break
            else:
                out.append(("punct" if c in "[](){}.&*+-~!/%<>^|?:;=,#" else "other", c, i))
                i += 1
    return out


def _quoted(src, i):
    q, j, n = src[i], i + 1, len(src)
    while j < n and src[j] != q and src[j] != "\n":
        j += 2 if src[j] == "\\" else 1
    return min(j + 1, n)


# --------------------------------------------------------------------------
# the documented effect of the precision conversion on a token stream

TYPE_NAME = {2: ("half", "f"), 4: ("float", "f"), 8: ("double", ""), 16: ("long double", "L")}


def expected_tokens(src, fbytes):
    """Token texts the converted source must have, computed from the tokens of
    the double-precision source (the reference semantics of C15)."""
    type_name, flag = TYPE_NAME[fbytes]
    toks = tokenize(src)
    out = [("punct", "#"), ("id", "define"), ("id", "FLOAT_SIZE"), ("int", str(fbytes))]
    promote = set()
    for k, (kind, text, _pos) in enumerate(toks):
        # integer literal that is the first argument of a listed math function
        if kind == "int" and accepts(DECINT, text):
            j = k - 1
            if j >= 0 and toks[j][1] in "+-" and toks[j][0] == "punct":
                j -= 1
            if j >= 1 and toks[j][1] == "(" and toks[j - 1][0] == "id" \
                    and toks[j - 1][1] in MATH_FUNCS and k + 1 < len(toks) \
                    and toks[k + 1][1] in (",", ")"):
                promote.add(k)
    for k, (kind, text, _pos) in enumerate(toks):
        if k in promote:
            out.append(("float" + ("+s" if flag else ""), text + "." + flag))
        elif kind == "id" and text in KEYWORDS and fbytes != 8:
            c = "c" if text.startswith("c") else ""
            n = text[len(c) + 6:]
            out.extend((kd, tx) for kd, tx, _ in tokenize(c + type_name + n))
        elif kind in ("float", "hexfloat") and flag:
            out.append((kind + "+s", text + flag))
        else:
            out.append((kind, text))
    return out


def diff_tokens(src, converted, fbytes):
    """Discrepancies between the real conversion result and the reference:
    list of (class, expected_text, got_text, source_token_kind)."""
    want = expected_tokens(src, fbytes)
    got = [(k, t) for k, t, _ in tokenize(converted)]
    if want == got:
        return []
    # align greedily: both streams have the same length unless a token was split/merged
    out, i, j = [], 0, 0
    while i < len(want) and j < len(got):
        if want[i] == got[j]:
            i += 1
            j += 1
            continue
        out.append((want[i][0], want[i][1], got[j][1]))
        # resynchronise on the next common token text
        nxt = [(a, b) for a in range(i, min(i + 4, len(want)))
               for b in range(j, min(j + 4, len(got)))
               if (a, b) != (i, j) and want[a] == got[b]]
        if not nxt:
            i += 1
            j += 1
        else:
            i, j = min(nxt, key=lambda ab: ab[0] + ab[1])
    if not out:
        out.append(("length", str(len(want)), str(len(got))))
    return out
