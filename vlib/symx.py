"""symx -- symbolic execution of the real Python by proxy values (DESIGN 2.1).

``Sym`` wraps a z3 arithmetic term (Int or Real sort), ``SymBool`` a z3 Bool.
numpy ``dtype=object`` arrays carry them through the real numpy code: the
object ufunc loops dispatch to the operators / same-named methods below.
``SymBool.__bool__`` is the fork point, served by :class:`Explorer`, which
re-executes the harness under a decision schedule (DFS) and asks z3 at each
fork which sides are feasible.
"""
from __future__ import annotations

import fractions
import math
import time

import numpy as np
import z3

INF = float("inf")


def guarded_check(solver, timeout_ms, *assumptions):
    """solver.check() with a watchdog: z3's own timeout is occasionally not
    honoured inside nlsat; a timer thread then interrupts the context (the
    answer is 'unknown', i.e. inconclusive, never a verdict)."""
    import threading
    t = threading.Timer(timeout_ms / 1000.0 * 1.5 + 5.0, z3.main_ctx().interrupt)
    t.daemon = True
    t.start()
    try:
        return str(solver.check(*assumptions))
    except z3.Z3Exception:
        return "unknown"
    finally:
        t.cancel()


class CutPath(BaseException):
    """Abandon the current path (infeasible assumption / bound reached)."""

    def __init__(self, reason="cut"):
        BaseException.__init__(self, reason)
        self.reason = reason


# --------------------------------------------------------------------------
# uninterpreted functions

_UF = {}


_EXACT = {("sin", 0): 0, ("cos", 0): 1, ("tan", 0): 0, ("exp", 0): 1, ("sqrt", 0): 0,
          ("sqrt", 1): 1, ("log", 1): 0, ("atan", 0): 0, ("asin", 0): 0, ("expm1", 0): 0,
          ("cbrt", 0): 0, ("cbrt", 1): 1, ("sinh", 0): 0, ("cosh", 0): 1, ("tanh", 0): 0,
          ("erf", 0): 0, ("log1p", 0): 0}


def uf_decl(name, arity):
    key = (name, arity)
    if key not in _UF:
        _UF[key] = z3.Function(name, *([z3.RealSort()] * (arity + 1)))
    return _UF[key]


def uf(name, *args):
    """Apply the real-valued uninterpreted function *name* to proxies/numbers."""
    f = uf_decl(name, len(args))
    ts = [_simp(to_real(lift(a))) for a in args]
    if len(ts) == 1 and z3.is_rational_value(ts[0]):
        v = ts[0].as_fraction()
        if (name, v) in _EXACT:
            return Sym(z3.RealVal(_EXACT[(name, v)]))
    return Sym(f(*ts))


# --------------------------------------------------------------------------
# lifting

def rat(x):
    """Exact z3 rational of a Python/numpy float or int."""
    if isinstance(x, (bool, np.bool_)):
        return z3.RealVal(int(x))
    if isinstance(x, (int, np.integer)):
        return z3.RealVal(int(x))
    if isinstance(x, fractions.Fraction):
        return z3.RealVal(str(x))
    f = float(x)
    if math.isinf(f) or math.isnan(f):
        raise OverflowError("non-finite constant %r has no real-arithmetic value" % f)
    return z3.RealVal(str(fractions.Fraction(f)))


def lift(o):
    """z3 term of a proxy or Python/numpy number."""
    if isinstance(o, Sym):
        return o.t
    if isinstance(o, SymBool):
        return z3.If(o.t, z3.IntVal(1), z3.IntVal(0))
    if isinstance(o, (bool, np.bool_)):
        return z3.IntVal(int(o))
    if isinstance(o, (int, np.integer)):
        return z3.IntVal(int(o))
    if isinstance(o, (float, np.floating, fractions.Fraction)):
        return rat(o)
    if z3.is_expr(o):
        return o
    if isinstance(o, np.ndarray) and o.ndim == 0:
        return lift(o.item())
    raise TypeError("cannot lift %r" % type(o))


def to_real(t):
    return z3.ToReal(t) if z3.is_int(t) else t


def is_sym(o):
    return isinstance(o, (Sym, SymBool))


def _is_inf(o):
    return isinstance(o, (float, np.floating)) and math.isinf(float(o))


def _arrlike(o):
    return isinstance(o, (np.ndarray, list, tuple))


def _simp(t):
    return z3.simplify(t)


class Sym:
    """Proxy for a real or integer number."""
    __slots__ = ("t",)
    __hash__ = None

    def __init__(self, t):
        self.t = t

    # -- arithmetic ------------------------------------------------------
    def _bin(self, o, f, swap=False, real=False):
        if _arrlike(o):
            return NotImplemented
        if _is_inf(o):
            raise OverflowError("arithmetic with infinity in symbolic mode")
        a, b = self.t, lift(o)
        if real or z3.is_real(a) or z3.is_real(b):
            a, b = to_real(a), to_real(b)
        if swap:
            a, b = b, a
        return Sym(_simp(f(a, b)))

    def __add__(self, o): return self._bin(o, lambda a, b: a + b)
    def __radd__(self, o): return self._bin(o, lambda a, b: a + b, True)
    def __sub__(self, o): return self._bin(o, lambda a, b: a - b)
    def __rsub__(self, o): return self._bin(o, lambda a, b: a - b, True)
    def __mul__(self, o): return self._bin(o, lambda a, b: a * b)
    def __rmul__(self, o): return self._bin(o, lambda a, b: a * b, True)
    def __truediv__(self, o): return self._bin(o, lambda a, b: a / b, False, True)
    def __rtruediv__(self, o): return self._bin(o, lambda a, b: a / b, True, True)

    def __floordiv__(self, o):
        if _arrlike(o):
            return NotImplemented
        a, b = self.t, lift(o)
        if z3.is_int(a) and z3.is_int(b):
            return Sym(_simp(a / b))      # z3 Int division = floor for positive divisor
        return Sym(z3.ToReal(z3.ToInt(to_real(a) / to_real(b))))

    def __mod__(self, o):
        if _arrlike(o):
            return NotImplemented
        a, b = self.t, lift(o)
        if z3.is_int(a) and z3.is_int(b):
            return Sym(_simp(a % b))
        raise TypeError("real modulo in symbolic mode")

    def __neg__(self): return Sym(_simp(-self.t))
    def __pos__(self): return self

    def __abs__(self):
        return Sym(_simp(z3.If(self.t >= 0, self.t, -self.t)))

    def __pow__(self, k):
        if _arrlike(k):
            return NotImplemented
        if isinstance(k, Sym):
            return uf("pow", self, k)
        if float(k) == int(k) and abs(int(k)) <= 6:
            n = int(k)
            if n == 0:
                return Sym(z3.RealVal(1))
            r = self.t
            for _ in range(abs(n) - 1):
                r = r * self.t
            if n < 0:
                r = 1 / to_real(r)
            return Sym(_simp(r))
        if float(k) == 0.5:
            return self.sqrt()
        return uf("pow", self, k)

    def __rpow__(self, base):
        return uf("pow", base, self)

    # -- numpy object-ufunc dispatch (np.exp(obj_array) calls .exp()) -------
    def exp(self): return uf("exp", self)
    def log(self): return uf("log", self)
    def log10(self): return uf("log10", self)
    def sqrt(self): return uf("sqrt", self)
    def cbrt(self): return uf("cbrt", self)
    def sin(self): return uf("sin", self)
    def cos(self): return uf("cos", self)
    def tan(self): return uf("tan", self)
    def arctan(self): return uf("atan", self)
    def arcsin(self): return uf("asin", self)
    def arccos(self): return uf("acos", self)
    def tanh(self): return uf("tanh", self)
    def cosh(self): return uf("cosh", self)
    def sinh(self): return uf("sinh", self)
    def expm1(self): return uf("expm1", self)
    def log1p(self): return uf("log1p", self)
    def fabs(self): return abs(self)
    def conjugate(self): return self
    def radians(self): return self * (math.pi / 180.0)
    def deg2rad(self): return self * (math.pi / 180.0)
    def degrees(self): return self * (180.0 / math.pi)
    def arctan2(self, o): return uf("atan2", self, o)
    def square(self): return self * self

    def ceil(self):
        if z3.is_int(self.t):
            return self
        n = z3.ToInt(self.t)
        return Sym(_simp(z3.If(z3.ToReal(n) == self.t, n, n + 1)))

    def floor(self):
        if z3.is_int(self.t):
            return self
        return Sym(z3.ToInt(self.t))

    # -- comparisons -------------------------------------------------------
    def _cmp(self, o, op):
        if _arrlike(o):
            return NotImplemented
        if o is None:
            return op in ("ne",)
        if _is_inf(o):
            pos = float(o) > 0
            return {"lt": pos, "le": pos, "gt": not pos, "ge": not pos,
                    "eq": False, "ne": True}[op]
        if isinstance(o, (float, np.floating)) and math.isnan(float(o)):
            return op == "ne"
        try:
            b = lift(o)
        except TypeError:
            return NotImplemented
        a = self.t
        if z3.is_real(a) or z3.is_real(b):
            a, b = to_real(a), to_real(b)
        t = {"lt": a < b, "le": a <= b, "gt": a > b, "ge": a >= b,
             "eq": a == b, "ne": a != b}[op]
        return SymBool(t)

    def __lt__(self, o): return self._cmp(o, "lt")
    def __le__(self, o): return self._cmp(o, "le")
    def __gt__(self, o): return self._cmp(o, "gt")
    def __ge__(self, o): return self._cmp(o, "ge")
    def __eq__(self, o): return self._cmp(o, "eq")
    def __ne__(self, o): return self._cmp(o, "ne")

    def __bool__(self):
        return bool(SymBool(self.t != 0))

    # -- concretisation ------------------------------------------------------
    def __float__(self):
        v = _simp(self.t)
        if z3.is_rational_value(v) or z3.is_int_value(v):
            return float(v.as_fraction()) if z3.is_rational_value(v) else float(v.as_long())
        raise TypeError("float() of a symbolic value: the harness must shadow "
                        "float in the module under execution")

    def __index__(self):
        return current().concretize_int(self.t)

    def __int__(self):
        v = _simp(self.t)
        if z3.is_int_value(v):
            return v.as_long()
        if z3.is_rational_value(v):
            return int(v.as_fraction())
        return current().concretize_int(z3.ToInt(self.t) if z3.is_real(self.t) else self.t)

    def __repr__(self):
        s = str(self.t)
        return "Sym(%s)" % (s if len(s) < 60 else s[:57] + "...")


class SymBool:
    __slots__ = ("t",)
    __hash__ = None

    def __init__(self, t):
        self.t = t

    def __bool__(self):
        return current().decide(self.t)

    def __and__(self, o):
        if _arrlike(o):
            return NotImplemented
        return SymBool(z3.And(self.t, _lb(o)))
    __rand__ = __and__

    def __or__(self, o):
        if _arrlike(o):
            return NotImplemented
        return SymBool(z3.Or(self.t, _lb(o)))
    __ror__ = __or__

    def __invert__(self):
        return SymBool(z3.Not(self.t))

    def __eq__(self, o):
        return SymBool(self.t == _lb(o))

    def __ne__(self, o):
        return SymBool(self.t != _lb(o))

    def logical_not(self):
        return SymBool(z3.Not(self.t))

    def __repr__(self):
        return "SymBool(%s)" % self.t


def _lb(o):
    if isinstance(o, SymBool):
        return o.t
    if isinstance(o, (bool, np.bool_)):
        return z3.BoolVal(bool(o))
    if z3.is_expr(o):
        return o
    raise TypeError("cannot lift %r to Bool" % (o,))


# --------------------------------------------------------------------------
# constructors / array helpers

def real(name):
    return Sym(z3.Real(name))


def integer(name):
    return Sym(z3.Int(name))


def reals(prefix, n):
    return [Sym(z3.Real("%s%d" % (prefix, i))) for i in range(n)]


def oarray(items):
    """1-D numpy object array holding *items* (proxies are not unpacked)."""
    a = np.empty(len(items), dtype=object)
    for i, v in enumerate(items):
        a[i] = v
    return a


def term(o):
    """Real-sorted z3 term for a proxy or number."""
    return to_real(lift(o))


def terms(seq):
    return [term(v) for v in np.asarray(seq, dtype=object).ravel()]


def symmax(a, b):
    a, b = term(a), term(b)
    return Sym(z3.If(a >= b, a, b))


def symmin(a, b):
    a, b = term(a), term(b)
    return Sym(z3.If(a <= b, a, b))


def ite(c, a, b):
    return Sym(z3.If(_lb(c), term(a), term(b)))


# --------------------------------------------------------------------------
# explorer

_CURRENT = []


def current():
    if not _CURRENT:
        raise RuntimeError("symbolic fork outside Explorer.explore()")
    return _CURRENT[-1]


class Path:
    __slots__ = ("assume", "pc", "result", "exc", "forks", "cut", "notes")

    def __init__(self):
        self.assume = []
        self.pc = []
        self.result = None
        self.exc = None
        self.forks = 0
        self.cut = None
        self.notes = {}

    def constraints(self):
        return list(self.assume) + list(self.pc)


class Explorer:
    """DFS over branch decisions by re-execution, feasibility decided by z3."""

    def __init__(self, timeout_ms=20000, max_paths=20000, max_forks=400,
                 int_range=64, abstract=False):
        # abstract=True: the feasibility solver sees UF applications as opaque
        # constants (over-approximation: possibly more paths, never fewer)
        self._ab = Abstractor() if abstract else (lambda e: e)
        self.timeout_ms = timeout_ms
        self.max_paths = max_paths
        self.max_forks = max_forks
        self.int_range = int_range
        self.sol = z3.Solver()
        self.sol.set("timeout", timeout_ms)
        self.checks = 0
        self.unknown_forks = 0
        self.solver_s = 0.0
        self.paths_cut = 0
        self.truncated = False
        self.deadline = None        # wall-clock limit for starting new paths (set by the harness)
        self._fresh = 0

    # -- called from proxies ---------------------------------------------
    def _check(self, *extra):
        t = time.time()
        self.sol.push()
        self.sol.add(*[self._ab(e) for e in extra])
        r = guarded_check(self.sol, self.timeout_ms)
        self.sol.pop()
        self.checks += 1
        self.solver_s += time.time() - t
        return r

    def decide(self, cond):
        cond = z3.simplify(cond)
        if z3.is_true(cond):
            return True
        if z3.is_false(cond):
            return False
        cid = cond.get_id()
        if cid in self._decided:
            return self._decided[cid]
        if z3.is_not(cond) and cond.arg(0).get_id() in self._decided:
            return not self._decided[cond.arg(0).get_id()]
        r = self._decide(cond)
        self._decided[cid] = r
        self._keep.append(cond)
        return r

    def _decide(self, cond):
        i = self._pos
        self._pos += 1
        if i < len(self._sched):
            b = self._sched[i]
        else:
            if i >= self.max_forks:
                raise CutPath("fork bound %d" % self.max_forks)
            rt = self._check(cond)
            rf = self._check(z3.Not(cond))
            if rt == "unknown" or rf == "unknown":
                self.unknown_forks += 1
            t_ok, f_ok = rt != "unsat", rf != "unsat"
            if t_ok and f_ok:
                self._work.append(self._sched[:i] + [False])
                b = True
            elif t_ok:
                b = True
            elif f_ok:
                b = False
            else:
                raise CutPath("infeasible")
            self._sched.append(b)
        c = cond if b else z3.Not(cond)
        self.sol.add(self._ab(c))
        self._path.pc.append(c)
        self._path.forks += 1
        return b

    def assume(self, cond, check=True):
        """Add an assumption mid-path; the path is dropped if it is infeasible.
        ``check=False`` skips the feasibility query (for constraints on fresh
        symbols that are satisfiable by construction)."""
        c = _lb(cond)
        self.sol.add(self._ab(c))
        self._path.pc.append(c)
        if check and self._check() == "unsat":
            raise CutPath("infeasible")

    def concretize_int(self, t):
        """Fork over the feasible values of an integer term (bounded)."""
        v = z3.simplify(t)
        if z3.is_int_value(v):
            return v.as_long()
        for _ in range(self.int_range):
            tt = time.time()
            r = guarded_check(self.sol, self.timeout_ms)
            self.solver_s += time.time() - tt
            if r != "sat":
                raise CutPath("infeasible" if r == "unsat" else "unknown")
            val = self.sol.model().eval(t, model_completion=True).as_long()
            if self.decide(t == val):
                return val
        raise CutPath("integer range bound %d" % self.int_range)

    def fresh(self, prefix="f"):
        self._fresh += 1
        return Sym(z3.Real("%s!%d" % (prefix, self._fresh)))

    def note(self, key, value):
        self._path.notes[key] = value

    # -- driver ---------------------------------------------------------------
    def explore(self, fn, assume=()):
        assume = [_lb(a) for a in assume]
        self._work = [[]]
        paths = []
        _CURRENT.append(self)
        try:
            while self._work:
                if len(paths) >= self.max_paths or (self.deadline and time.time() > self.deadline):
                    self.truncated = True
                    break
                self._sched = self._work.pop()
                self._pos = 0
                self._fresh = 0
                self._decided = {}
                self._keep = []
                self._path = p = Path()
                p.assume = list(assume)
                self.sol.push()
                self.sol.add(*[self._ab(a) for a in assume])
                try:
                    p.result = fn()
                except CutPath as e:
                    p.cut = e.reason
                except Exception as e:   # the code under test raised
                    p.exc = e
                finally:
                    self.sol.pop()
                if p.cut == "infeasible":
                    continue
                if p.cut:
                    self.paths_cut += 1
                paths.append(p)
        finally:
            _CURRENT.pop()
        return paths


# --------------------------------------------------------------------------
# evaluation of terms with plain floats (translator validation and replay)

_PYF = {
    "exp": math.exp, "log": math.log, "log10": math.log10, "sqrt": math.sqrt,
    "cbrt": lambda x: math.copysign(abs(x) ** (1.0 / 3), x),
    "sin": math.sin, "cos": math.cos, "tan": math.tan, "atan": math.atan,
    "asin": math.asin, "acos": math.acos, "tanh": math.tanh, "cosh": math.cosh,
    "sinh": math.sinh, "expm1": math.expm1, "log1p": math.log1p,
    "pow": math.pow, "atan2": math.atan2, "erf": math.erf, "fabs": abs,
}


def evalf(t, env, funcs=None, cache=None):
    """Evaluate z3 term *t* in float arithmetic.  *env*: symbol name -> float;
    *funcs*: UF name -> python callable (defaults: libm)."""
    user = funcs

    class _F:
        def __getitem__(self, name):
            if user is not None:
                try:
                    return user[name]
                except KeyError:
                    pass
            return _PYF[name]
    funcs = _F()
    if cache is None:
        cache = {}

    def ev(e):
        k = e.get_id()
        if k in cache:
            return cache[k]
        r = _ev(e)
        cache[k] = r
        return r

    def _ev(e):
        if z3.is_int_value(e):
            return e.as_long()
        if z3.is_rational_value(e):
            return float(e.as_fraction())
        if z3.is_true(e):
            return True
        if z3.is_false(e):
            return False
        d = e.decl()
        kind = d.kind()
        ch = e.children()
        if kind == z3.Z3_OP_UNINTERPRETED:
            name = d.name()
            if not ch:
                return env[name]
            return funcs[name](*[ev(c) for c in ch])
        if kind == z3.Z3_OP_ADD:
            return sum(ev(c) for c in ch)
        if kind == z3.Z3_OP_MUL:
            r = 1
            for c in ch:
                r = r * ev(c)
            return r
        if kind == z3.Z3_OP_SUB:
            r = ev(ch[0])
            for c in ch[1:]:
                r = r - ev(c)
            return r
        if kind == z3.Z3_OP_UMINUS:
            return -ev(ch[0])
        if kind == z3.Z3_OP_DIV:
            return ev(ch[0]) / ev(ch[1])
        if kind == z3.Z3_OP_IDIV:
            return ev(ch[0]) // ev(ch[1])
        if kind == z3.Z3_OP_MOD:
            return ev(ch[0]) % ev(ch[1])
        if kind == z3.Z3_OP_POWER:
            return ev(ch[0]) ** ev(ch[1])
        if kind == z3.Z3_OP_TO_REAL:
            return float(ev(ch[0]))
        if kind == z3.Z3_OP_TO_INT:
            return math.floor(ev(ch[0]))
        if kind == z3.Z3_OP_ITE:
            return ev(ch[1]) if ev(ch[0]) else ev(ch[2])
        if kind == z3.Z3_OP_AND:
            return all(ev(c) for c in ch)
        if kind == z3.Z3_OP_OR:
            return any(ev(c) for c in ch)
        if kind == z3.Z3_OP_NOT:
            return not ev(ch[0])
        if kind == z3.Z3_OP_EQ:
            return ev(ch[0]) == ev(ch[1])
        if kind == z3.Z3_OP_DISTINCT:
            return ev(ch[0]) != ev(ch[1])
        if kind == z3.Z3_OP_LE:
            return ev(ch[0]) <= ev(ch[1])
        if kind == z3.Z3_OP_LT:
            return ev(ch[0]) < ev(ch[1])
        if kind == z3.Z3_OP_GE:
            return ev(ch[0]) >= ev(ch[1])
        if kind == z3.Z3_OP_GT:
            return ev(ch[0]) > ev(ch[1])
        if kind == z3.Z3_OP_IMPLIES:
            return (not ev(ch[0])) or ev(ch[1])
        raise NotImplementedError("evalf: %s" % d.name())

    return ev(t)


def model_float(m, t):
    """Float value of term *t* in model *m* (algebraic numbers approximated)."""
    v = m.eval(t, model_completion=True)
    if z3.is_int_value(v):
        return v.as_long()
    if z3.is_rational_value(v):
        return float(v.as_fraction())
    if z3.is_algebraic_value(v):
        return float(v.approx(20).as_fraction())
    if z3.is_true(v):
        return True
    if z3.is_false(v):
        return False
    raise ValueError("no numeric value for %s" % v)


def consts_of(ts):
    """Names -> z3 consts of the free (arity-0 uninterpreted) symbols in terms."""
    seen, out = set(), {}
    stack = list(ts)
    while stack:
        e = stack.pop()
        k = e.get_id()
        if k in seen:
            continue
        seen.add(k)
        if z3.is_app(e):
            if e.num_args() == 0 and e.decl().kind() == z3.Z3_OP_UNINTERPRETED:
                out[e.decl().name()] = e
            stack.extend(e.children())
    return out


def apps_of(ts, names=None):
    """All UF applications (arity > 0) in terms, optionally restricted by name."""
    seen, out = set(), []
    stack = list(ts)
    while stack:
        e = stack.pop()
        k = e.get_id()
        if k in seen:
            continue
        seen.add(k)
        if z3.is_app(e):
            if (e.num_args() > 0 and e.decl().kind() == z3.Z3_OP_UNINTERPRETED
                    and (names is None or e.decl().name() in names)):
                out.append(e)
            stack.extend(e.children())
    return out


def axioms_for(ts):
    """Instantiated (never quantified) UF axioms of DESIGN 2.4 for the
    applications occurring in *ts*."""
    return axioms_from_apps(apps_of(ts))


def axioms_from_apps(apps):
    ax = []
    by = {}
    seen = set()
    for a in apps:
        if a.get_id() in seen:
            continue
        seen.add(a.get_id())
        by.setdefault(a.decl().name(), []).append(a)
    for a in by.get("exp", []):
        ax.append(a > 0)
    for a in by.get("sqrt", []):
        x = a.arg(0)
        ax.append(z3.Implies(x >= 0, z3.And(a >= 0, a * a == x)))
    for a in by.get("cbrt", []):
        ax.append(a * a * a == a.arg(0))
    for a in by.get("cosh", []):
        ax.append(a >= 1)
    sins = {str(a.arg(0)): a for a in by.get("sin", [])}
    for a in by.get("cos", []):
        s = sins.get(str(a.arg(0)))
        if s is not None:
            ax.append(s * s + a * a == 1)
    for name in ("sin", "cos"):
        for a in by.get(name, []):
            ax.append(z3.And(a >= -1, a <= 1))
    return ax


class Abstractor:
    """Replace every uninterpreted-function application (arity > 0) by a fresh
    real constant, bottom-up, syntactically equal applications (after the
    replacement of their arguments) sharing one constant.  Validity of the
    abstracted formula implies validity of the original (the constants are a
    generalisation of the applications); the converse needs congruence, so a
    ``sat`` answer on the abstraction must be re-checked on the original."""

    def __init__(self):
        self.memo = {}
        self.table = {}
        self.keep = []

    def __call__(self, e):
        k = e.get_id()
        memo = self.memo
        if k in memo:
            return memo[k]
        if not z3.is_app(e) or e.num_args() == 0:
            r = e
        else:
            ch = [self(c) for c in e.children()]
            d = e.decl()
            if d.kind() == z3.Z3_OP_UNINTERPRETED:
                key = (d.name(), tuple(c.get_id() for c in ch))
                if key not in self.table:
                    self.table[key] = z3.Real("uf!%s!%d" % (d.name(), len(self.table)))
                    self.keep.extend(ch)
                r = self.table[key]
            else:
                kind = d.kind()
                if kind == z3.Z3_OP_AND:
                    r = z3.And(*ch)
                elif kind == z3.Z3_OP_OR:
                    r = z3.Or(*ch)
                elif kind == z3.Z3_OP_ADD:
                    r = z3.Sum(ch) if len(ch) != 2 else ch[0] + ch[1]
                elif kind == z3.Z3_OP_MUL:
                    r = z3.Product(ch) if len(ch) != 2 else ch[0] * ch[1]
                elif kind == z3.Z3_OP_DISTINCT:
                    r = z3.Distinct(*ch)
                else:
                    r = d(*ch)
        memo[k] = r
        self.keep.append(e)
        return r


def abstract_ufs(constraints):
    ab = Abstractor()
    return [ab(c) for c in constraints]


def generalize_shared(a, b, min_args=1):
    """Replace every maximal compound subterm that occurs (hash-consed: same id)
    in both *a* and *b* by one fresh real constant.  The result is a
    generalisation: validity of a statement about the rewritten terms implies
    validity about the originals."""
    ids_a = set()
    stack = [a]
    while stack:
        e = stack.pop()
        if e.get_id() in ids_a:
            continue
        ids_a.add(e.get_id())
        stack.extend(e.children())
    table = {}

    def walk(e):
        k = e.get_id()
        if k in table:
            return
        if z3.is_app(e) and e.num_args() >= min_args and k in ids_a and z3.is_real(e) \
                and not z3.is_rational_value(e):
            table[k] = (e, z3.Real("shared!%d" % len(table)))
            return
        for c in e.children():
            walk(c)
    if b.get_id() in ids_a:
        return a, b
    for c in b.children():
        walk(c)
    subs = list(table.values())
    if not subs:
        return a, b
    return z3.substitute(a, *subs), z3.substitute(b, *subs)
