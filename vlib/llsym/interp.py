"""Interpreter for the IR read by irparse, over two value domains:

* ``mode="sym"``: ints are Python ints or z3 Int terms, doubles are exact
  ``Fraction`` constants or z3 Real terms, i1 is 0/1 or a z3 Bool; branches on
  symbolic conditions go through ``decide`` (the symx explorer); external
  functions and the functions named in ``stubs`` become uninterpreted
  function applications;
* ``mode="float"``: everything concrete, doubles are Python floats, libm is
  ``math`` -- used to validate the translation against the real compiled DLL.
"""
import math
from fractions import Fraction

import z3

from . import irparse
from .irparse import size_align, field_offset, Unsupported


class StepCap(Exception):
    pass


class MemoryError_(Exception):
    pass


class Ptr:
    __slots__ = ("reg", "off")

    def __init__(self, reg, off):
        self.reg = reg
        self.off = off

    def __repr__(self):
        return "Ptr(%s+%s)" % (self.reg, self.off)


def is_sym(v):
    return isinstance(v, z3.ExprRef)


def rat(v):
    if isinstance(v, Fraction):
        return z3.RealVal(str(v))
    if isinstance(v, int):
        return z3.RealVal(v)
    if isinstance(v, float):
        return z3.RealVal(str(Fraction(v)))
    return v


def ival(v):
    return z3.IntVal(v) if isinstance(v, int) else v


def bval(v):
    if isinstance(v, int):
        return z3.BoolVal(bool(v))
    return v


_UF = {}


_EXACT = {("sin", 0): 0, ("cos", 0): 1, ("tan", 0): 0, ("exp", 0): 1, ("sqrt", 0): 0,
          ("sqrt", 1): 1, ("log", 1): 0, ("atan", 0): 0, ("asin", 0): 0, ("expm1", 0): 0,
          ("cbrt", 0): 0, ("cbrt", 1): 1, ("sinh", 0): 0, ("cosh", 0): 1, ("tanh", 0): 0,
          ("erf", 0): 0, ("log1p", 0): 0}


def uf(name, *args):
    if len(args) == 1 and not isinstance(args[0], z3.ExprRef) and (name, args[0]) in _EXACT:
        return Fraction(_EXACT[(name, args[0])])
    key = (name, len(args))
    if key not in _UF:
        _UF[key] = z3.Function(name, *([z3.RealSort()] * (len(args) + 1)))
    ts = [rat(a) for a in args]
    if len(ts) == 1:
        v = z3.simplify(ts[0])
        if z3.is_rational_value(v) and (name, v.as_fraction()) in _EXACT:
            return Fraction(_EXACT[(name, v.as_fraction())])
    return _UF[key](*ts)


LIBM_FLOAT = {
    "sin": math.sin, "cos": math.cos, "tan": math.tan, "asin": math.asin,
    "acos": math.acos, "atan": math.atan, "atan2": math.atan2, "sinh": math.sinh,
    "cosh": math.cosh, "tanh": math.tanh, "exp": math.exp, "expm1": math.expm1,
    "log": math.log, "log10": math.log10, "log1p": math.log1p, "pow": math.pow,
    "sqrt": math.sqrt, "cbrt": lambda x: math.copysign(abs(x) ** (1.0 / 3.0), x),
    "erf": math.erf, "erfc": math.erfc, "tgamma": math.gamma, "lgamma": math.lgamma,
    "floor": math.floor, "ceil": math.ceil, "trunc": math.trunc, "fabs": abs,
    "fmin": min, "fmax": max, "fmod": math.fmod, "hypot": math.hypot,
    "round": round, "rint": round, "exp2": lambda x: 2.0 ** x, "log2": math.log2,
    "copysign": math.copysign,
}


class Interp:
    def __init__(self, mod, mode="sym", decide=None, stubs=None, max_steps=3000000,
                 concretize=None):
        # concretize(int term) -> int: fork over the feasible values of a symbolic
        # memory offset instead of building ite-chains over the region
        self.concretize = concretize
        self.merge = True       # if-convert small pure diamonds instead of forking
        self.fold_libm = True   # evaluate libm calls whose arguments are all concrete
        self.merged = 0
        self._spec = False
        self.mod = mod
        self.mode = mode
        self.decide = decide
        self.stubs = stubs or {}
        self.max_steps = max_steps
        self.steps = 0
        self.mem = {}
        self.nalloca = 0
        self.side = []          # (description, z3 constraint) obligations: in-bounds, int32 range
        self.calls = []         # log of stubbed/external calls: (name, args)
        self.called = set()     # names of interpreted functions
        self._ginit = set()

    # -- memory ------------------------------------------------------------
    def region(self, name, cells=None):
        self.mem[name] = dict(cells or {})
        return Ptr(name, 0)

    def _global(self, name):
        reg = "@" + name
        if reg not in self._ginit:
            self._ginit.add(reg)
            if name not in self.mod.globals:
                raise Unsupported("unknown global @" + name)
            t, init = self.mod.globals[name]
            cells = {}
            for off, ct, v in irparse.parse_initializer(self.mod, t, init):
                if ct[0] in ("f64", "f32") and self.mode == "sym":
                    v = Fraction(v)
                cells[off] = v
            self.mem[reg] = cells
        return Ptr(reg, 0)

    def load(self, p, typ=None):
        cells = self.mem[p.reg]
        off = p.off
        if not is_sym(off):
            if off not in cells:
                raise MemoryError_("read of uninitialised/out-of-range cell %s+%s" % (p.reg, off))
            return cells[off]
        off = z3.simplify(off)
        if z3.is_int_value(off):
            return self.load(Ptr(p.reg, off.as_long()), typ)
        if self.concretize is not None:
            return self.load(Ptr(p.reg, self.concretize(off)), typ)
        size = size_align(typ)[0] if typ else 8
        cand = sorted(k for k in cells if k % size == 0)
        if not cand:
            raise MemoryError_("symbolic read from empty region " + p.reg)
        self.side.append(("load in bounds %s" % p.reg, z3.Or(*[off == k for k in cand])))
        r = self._lift(cells[cand[-1]], typ)
        for k in reversed(cand[:-1]):
            r = z3.If(off == k, self._lift(cells[k], typ), r)
        return r

    def _lift(self, v, typ):
        if is_sym(v) or isinstance(v, Ptr):
            return v
        if typ and typ[0] in ("f64", "f32"):
            return rat(v)
        if isinstance(v, Fraction):
            return rat(v)
        return ival(v)

    def store(self, p, v, typ=None):
        cells = self.mem[p.reg]
        off = p.off
        if is_sym(off):
            off = z3.simplify(off)
            if z3.is_int_value(off):
                off = off.as_long()
        if is_sym(off) and self.concretize is not None:
            off = self.concretize(off)
        if not is_sym(off):
            cells[off] = v
            return
        size = size_align(typ)[0] if typ else 8
        cand = sorted(k for k in cells if k % size == 0)
        self.side.append(("store in bounds %s" % p.reg, z3.Or(*[off == k for k in cand])))
        for k in cand:
            cells[k] = z3.If(off == k, self._lift(v, typ), self._lift(cells[k], typ))

    # -- arithmetic -----------------------------------------------------------
    def fop(self, op, a, b):
        if self.mode == "float":
            if op == "fadd":
                return a + b
            if op == "fsub":
                return a - b
            if op == "fmul":
                return a * b
            if op == "fdiv":
                try:
                    return a / b
                except ZeroDivisionError:
                    if a == 0 or a != a:
                        return float("nan")
                    return math.copysign(float("inf"), a) * math.copysign(1.0, b)
            if op == "frem":
                return math.fmod(a, b)
        if not is_sym(a) and not is_sym(b):
            if op == "fadd":
                return a + b
            if op == "fsub":
                return a - b
            if op == "fmul":
                return a * b
            if op == "fdiv":
                if b == 0:
                    return rat(a) / rat(b)
                return a / b
            raise Unsupported(op)
        # cheap algebraic identities with exact constants keep terms small
        if not is_sym(a):
            if a == 0 and op in ("fadd",):
                return b
            if a == 0 and op in ("fmul", "fdiv"):
                return Fraction(0)
            if a == 1 and op == "fmul":
                return b
        if not is_sym(b):
            if b == 0 and op in ("fadd", "fsub"):
                return a
            if b == 0 and op == "fmul":
                return Fraction(0)
            if b == 1 and op in ("fmul", "fdiv"):
                return a
        a, b = rat(a), rat(b)
        if op == "fadd":
            return a + b
        if op == "fsub":
            return a - b
        if op == "fmul":
            return a * b
        if op == "fdiv":
            return a / b
        raise Unsupported(op)

    def iop(self, op, typ, a, b):
        bits = typ[1]
        if bits == 1 and op in ("and", "or", "xor"):
            if not is_sym(a) and not is_sym(b):
                return {"and": a & b, "or": a | b, "xor": a ^ b}[op]
            a, b = bval(a), bval(b)
            return {"and": z3.And(a, b), "or": z3.Or(a, b), "xor": z3.Xor(a, b)}[op]
        if not is_sym(a) and not is_sym(b):
            if op == "add":
                r = a + b
            elif op == "sub":
                r = a - b
            elif op == "mul":
                r = a * b
            elif op == "sdiv":
                if b == 0:
                    raise MemoryError_("integer division by zero")
                r = abs(a) // abs(b) * (1 if (a >= 0) == (b >= 0) else -1)
            elif op == "srem":
                if b == 0:
                    raise MemoryError_("integer remainder by zero")
                r = abs(a) % abs(b) * (1 if a >= 0 else -1)
            elif op in ("udiv", "urem"):
                ua, ub = a % (1 << bits), b % (1 << bits)
                r = ua // ub if op == "udiv" else ua % ub
            elif op == "and":
                r = a & b
            elif op == "or":
                r = a | b
            elif op == "xor":
                r = a ^ b
            elif op == "shl":
                r = a << b
            elif op == "ashr":
                r = a >> b
            elif op == "lshr":
                r = (a % (1 << bits)) >> b
            else:
                raise Unsupported(op)
            # wrap to signed width
            m = 1 << bits
            r = (r + (m >> 1)) % m - (m >> 1)
            return r
        a, b = ival(a), ival(b)
        if op == "add":
            r = a + b
        elif op == "sub":
            r = a - b
        elif op == "mul":
            r = a * b
        elif op == "sdiv":
            # C truncating division from z3's Euclidean one
            aa = z3.If(a >= 0, a, -a)
            bb = z3.If(b >= 0, b, -b)
            q = aa / bb
            r = z3.If((a >= 0) == (b >= 0), q, -q)
            self.side.append(("sdiv divisor non-zero", b != 0))
        elif op == "srem":
            aa = z3.If(a >= 0, a, -a)
            bb = z3.If(b >= 0, b, -b)
            m = aa % bb
            r = z3.If(a >= 0, m, -m)
            self.side.append(("srem divisor non-zero", b != 0))
        else:
            raise Unsupported("symbolic integer op " + op)
        r = z3.simplify(r)
        if op in ("add", "sub", "mul"):
            lim = 1 << (bits - 1)
            self.side.append(("int%d %s no overflow" % (bits, op), z3.And(r >= -lim, r < lim)))
        return r

    def icmp(self, pred, a, b):
        if isinstance(a, Ptr) or isinstance(b, Ptr):
            raise Unsupported("pointer comparison")
        if not is_sym(a) and not is_sym(b):
            if pred in ("ult", "ule", "ugt", "uge"):
                a, b = a % (1 << 64), b % (1 << 64)
            return int({"eq": a == b, "ne": a != b, "slt": a < b, "sle": a <= b,
                        "sgt": a > b, "sge": a >= b, "ult": a < b, "ule": a <= b,
                        "ugt": a > b, "uge": a >= b}[pred])
        if z3.is_bool(a) or z3.is_bool(b):
            a, b = bval(a), bval(b)
            return {"eq": a == b, "ne": a != b}[pred]
        a, b = ival(a), ival(b)
        if pred[0] == "u":
            # unsigned compare of values the harness keeps non-negative
            self.side.append(("unsigned compare operands non-negative", z3.And(a >= 0, b >= 0)))
            pred = "s" + pred[1:]
        return {"eq": a == b, "ne": a != b, "slt": a < b, "sle": a <= b,
                "sgt": a > b, "sge": a >= b}[pred]

    def fcmp(self, pred, a, b):
        if pred in ("true",):
            return 1
        if pred in ("false",):
            return 0
        if self.mode == "float":
            nan = (a != a) or (b != b)
            if pred == "ord":
                return int(not nan)
            if pred == "uno":
                return int(nan)
            base = pred[1:]
            r = {"eq": a == b, "ne": a != b, "lt": a < b, "le": a <= b,
                 "gt": a > b, "ge": a >= b}[base]
            if nan:
                return int(pred[0] == "u")
            return int(r)
        if pred == "ord":
            return 1
        if pred == "uno":
            return 0
        base = pred[1:]
        if not is_sym(a) and not is_sym(b):
            return int({"eq": a == b, "ne": a != b, "lt": a < b, "le": a <= b,
                        "gt": a > b, "ge": a >= b}[base])
        a, b = rat(a), rat(b)
        return {"eq": a == b, "ne": a != b, "lt": a < b, "le": a <= b,
                "gt": a > b, "ge": a >= b}[base]

    def truth(self, c):
        """Resolve an i1 to a Python bool, forking if symbolic."""
        if not is_sym(c):
            return bool(c)
        c = z3.simplify(c)
        if z3.is_true(c):
            return True
        if z3.is_false(c):
            return False
        if not z3.is_bool(c):
            # an i1 carried as an integer 0/1 (if-converted phi of comparisons)
            c = z3.simplify(c != 0)
            if z3.is_true(c):
                return True
            if z3.is_false(c):
                return False
        if self._spec:
            raise Interp._Abort()
        return self.decide(c)

    # -- external / stub calls ---------------------------------------------------
    def external(self, name, args):
        base = name
        if name.startswith("llvm."):
            parts = name.split(".")
            base = parts[1]
            if base == "memcpy":
                return self._memcpy(*args[:3])
            if base == "memset":
                return self._memset(*args[:3])
            if base in ("lifetime", "dbg", "assume", "experimental"):
                return None
            if base == "minnum":
                base = "fmin"
            if base == "maxnum":
                base = "fmax"
        if self.mode == "float":
            if base not in LIBM_FLOAT:
                raise Unsupported("external function " + name)
            try:
                return float(LIBM_FLOAT[base](*args))
            except (ValueError, OverflowError):
                return float("nan")
        if base == "fabs":
            (x,) = args
            if not is_sym(x):
                return abs(x)
            return z3.If(x >= 0, x, -x)
        if base in ("fmin", "fmax"):
            a, b = args
            if not is_sym(a) and not is_sym(b):
                return min(a, b) if base == "fmin" else max(a, b)
            a, b = rat(a), rat(b)
            return z3.If(a <= b, a, b) if base == "fmin" else z3.If(a >= b, a, b)
        if args and all(not is_sym(a) for a in args) and base in LIBM_FLOAT and self.fold_libm:
            # libm at concrete arguments (quadrature nodes): evaluated in double precision,
            # as the compiled code does
            try:
                v = float(LIBM_FLOAT[base](*[float(a) for a in args]))
                if v == v and abs(v) != float("inf"):
                    return Fraction(v)
            except (ValueError, OverflowError):
                pass
        self.calls.append((base, tuple(args)))
        return uf(base, *args)

    def _memcpy(self, dst, src, n):
        if is_sym(n) or is_sym(dst.off) or is_sym(src.off):
            raise Unsupported("symbolic memcpy")
        if src.reg.startswith("@") and src.reg not in self.mem:
            self._global(src.reg[1:])
        s = self.mem[src.reg]
        d = self.mem[dst.reg]
        for k in [k for k in d if dst.off <= k < dst.off + n]:
            del d[k]
        for k, v in s.items():
            if src.off <= k < src.off + n:
                d[dst.off + (k - src.off)] = v
        return None

    def _memset(self, dst, val, n):
        raise Unsupported("memset")

    # -- operand evaluation ---------------------------------------------------------
    def val(self, env, o):
        k = o[0]
        if k == "reg":
            return env[o[1]]
        if k == "int":
            return o[1]
        if k == "fp":
            return o[1] if self.mode == "float" else Fraction(o[1])
        if k == "global":
            return self._global(o[1])
        if k == "null":
            return 0
        if k == "undef":
            return 0
        if k == "gep":
            return self.gep(env, o[1], self.val(env, o[2]), [self.val(env, i) for i in o[3]])
        raise Unsupported("operand %r" % (o,))

    def gep(self, env, base, p, idx):
        off = p.off
        t = base
        sz = size_align(t)[0]
        off = off + idx[0] * sz
        for i in idx[1:]:
            if t[0] == "arr":
                t = t[2]
                off = off + i * size_align(t)[0]
            elif t[0] == "struct":
                if is_sym(i):
                    raise Unsupported("symbolic struct index")
                o, t = field_offset(t, i)
                off = off + o
            else:
                raise Unsupported("gep into %r" % (t,))
        if is_sym(off):
            off = z3.simplify(off)
            if z3.is_int_value(off):
                off = off.as_long()
        return Ptr(p.reg, off)

    # -- function execution ------------------------------------------------------------
    PURE_OPS = frozenset(("fadd", "fsub", "fmul", "fdiv", "frem", "fneg", "add", "sub", "mul", "sdiv",
                          "srem", "udiv", "urem", "and", "or", "xor", "shl", "ashr", "lshr", "icmp",
                          "fcmp", "sext", "zext", "trunc", "sitofp", "uitofp", "fptosi", "fptoui",
                          "bitcast", "fpext", "fptrunc", "getelementptr", "select", "load", "phi"))

    def _pure_block(self, block):
        for ins in block[:-1]:
            op = ins[0]
            if op in self.PURE_OPS:
                continue
            if op == "call":
                name = ins[2]
                if name in self.stubs or name in self.mod.functions:
                    return False
                if name.startswith("llvm.mem"):
                    return False
                continue
            return False
        return block[-1][0] in ("jmp", "br")

    def _exec(self, env, ins):
        """Execute one non-terminator instruction."""
        val = self.val
        op = ins[0]
        if op in ("fadd", "fsub", "fmul", "fdiv", "frem"):
            env[ins[1]] = self.fop(op, val(env, ins[2]), val(env, ins[3]))
        elif op == "load":
            env[ins[1]] = self.load(val(env, ins[3]), ins[2])
        elif op == "store":
            self.store(val(env, ins[4]), val(env, ins[3]), ins[2])
        elif op == "getelementptr":
            env[ins[1]] = self.gep(env, ins[2], val(env, ins[3]), [val(env, x) for x in ins[4]])
        elif op in ("add", "sub", "mul", "sdiv", "srem", "udiv", "urem", "and", "or",
                    "xor", "shl", "ashr", "lshr"):
            env[ins[1]] = self.iop(op, ins[2], val(env, ins[3]), val(env, ins[4]))
        elif op == "icmp":
            env[ins[1]] = self.icmp(ins[2], val(env, ins[3]), val(env, ins[4]))
        elif op == "fcmp":
            env[ins[1]] = self.fcmp(ins[2], val(env, ins[3]), val(env, ins[4]))
        elif op in ("sext", "bitcast", "fpext", "fptrunc", "ptrtoint", "inttoptr"):
            env[ins[1]] = val(env, ins[2])
        elif op == "zext":
            v = val(env, ins[2])
            if is_sym(v) and z3.is_bool(v):
                v = z3.If(v, z3.IntVal(1), z3.IntVal(0))
            elif not is_sym(v) and v < 0:
                v = v % (1 << ins[3][1])
            env[ins[1]] = v
        elif op == "trunc":
            v = val(env, ins[2])
            bits = ins[4][1]
            if is_sym(v):
                if bits == 1:
                    v = (v % 2) == 1
                else:
                    lim = 1 << (bits - 1)
                    self.side.append(("trunc in range", z3.And(v >= -lim, v < lim)))
            else:
                m = 1 << bits
                v = (v + (m >> 1)) % m - (m >> 1) if bits > 1 else v & 1
            env[ins[1]] = v
        elif op in ("sitofp", "uitofp"):
            v = val(env, ins[2])
            if is_sym(v):
                if z3.is_bool(v):
                    v = z3.If(v, z3.IntVal(1), z3.IntVal(0))
                env[ins[1]] = z3.ToReal(v)
            else:
                env[ins[1]] = float(v) if self.mode == "float" else Fraction(v)
        elif op in ("fptosi", "fptoui"):
            v = val(env, ins[2])
            if is_sym(v):
                env[ins[1]] = z3.If(v >= 0, z3.ToInt(v), -z3.ToInt(-v))
            else:
                env[ins[1]] = int(v)
        elif op == "fneg":
            env[ins[1]] = -val(env, ins[2])
        elif op == "alloca":
            self.nalloca += 1
            name = "alloca%d" % self.nalloca
            self.mem[name] = {}
            env[ins[1]] = Ptr(name, 0)
        elif op == "call":
            r = self.call(ins[2], [val(env, o) for _t, o in ins[3]])
            if ins[1] is not None:
                env[ins[1]] = r
        elif op == "select":
            c = val(env, ins[2])
            a, b = val(env, ins[3]), val(env, ins[4])
            if not is_sym(c):
                env[ins[1]] = a if c else b
            elif isinstance(a, Ptr) or isinstance(b, Ptr):
                env[ins[1]] = a if self.truth(c) else b
            else:
                env[ins[1]] = self._ite(c, a, b)
        else:
            raise Unsupported("opcode " + op)

    @staticmethod
    def _ite(c, a, b):
        isreal = any(isinstance(x, Fraction) or (is_sym(x) and z3.is_real(x)) for x in (a, b))
        if isreal:
            return z3.If(c, rat(a), rat(b))
        if any(is_sym(x) and z3.is_bool(x) for x in (a, b)):
            return z3.If(c, bval(a), bval(b))
        return z3.If(c, ival(a), ival(b))

    def _phis(self, env, block, prev, fname):
        i, n = 0, len(block)
        if n and block[0][0] == "phi":
            pend = []
            while i < n and block[i][0] == "phi":
                ins = block[i]
                for lab, o in ins[2]:
                    if lab == prev:
                        pend.append((ins[1], self.val(env, o)))
                        break
                else:
                    raise Unsupported("phi without incoming %s in %s" % (prev, fname))
                i += 1
            for d, v in pend:
                env[d] = v
        return i

    # -- if-conversion of small pure diamonds (x<lo?lo:x, d>0?sqrt(d):0, ...) -------------
    class _Abort(Exception):
        pass

    def _chain(self, f, env0, label, prev, depth):
        """Speculatively run pure blocks starting at *label*; returns the list of
        (label, prev, env-before-block) visited, in order."""
        visits = []
        env = dict(env0)
        for _ in range(5):
            visits.append((label, prev, dict(env)))
            block = f.blocks[label]
            if not self._pure_block(block):
                break
            i = self._phis(env, block, prev, f.name)
            for ins in block[i:-1]:
                self._exec(env, ins)
            term = block[-1]
            if term[0] == "jmp":
                prev, label = label, term[2]
                continue
            c = self.val(env, term[2])
            if is_sym(c):
                c = z3.simplify(c)
                if z3.is_true(c):
                    c = 1
                elif z3.is_false(c):
                    c = 0
            if not is_sym(c):
                prev, label = label, (term[3] if c else term[4])
                continue
            break       # nested symbolic branch: leave it to the caller (no nested merge)
        return visits

    def _merge_branch(self, f, env, label, c, tl, fl):
        """Try to turn  br c, T, F  into phi-merging selects at the join block.
        Returns the join label (env updated with the merged phi values) or None."""
        if self.mode != "sym" or self._spec:
            return None
        self._spec = True
        nside = len(self.side)
        saved_mem = None
        try:
            try:
                ct = self._chain(f, env, tl, label, 0)
                nt = len(self.side)
                cf = self._chain(f, env, fl, label, 0)
            except (Interp._Abort, MemoryError_, Unsupported):
                del self.side[nside:]
                return None
        finally:
            self._spec = False
        flabels = {lab: k for k, (lab, _p, _e) in enumerate(cf)}
        join = None
        for kt, (lab, _p, _e) in enumerate(ct):
            if lab in flabels:
                join = (kt, flabels[lab])
                break
        if join is None:
            del self.side[nside:]
            return None
        kt, kf = join
        jl, pt, et = ct[kt]
        _jl, pf, ef = cf[kf]
        block = f.blocks[jl]
        merged = []
        for ins in block:
            if ins[0] != "phi":
                break
            vt = vf = None
            for lab, o in ins[2]:
                if lab == pt:
                    vt = self.val(et, o)
                if lab == pf:
                    vf = self.val(ef, o)
            if vt is None or vf is None:
                del self.side[nside:]
                return None
            if isinstance(vt, Ptr) or isinstance(vf, Ptr):
                del self.side[nside:]
                return None
            same = (not is_sym(vt) and not is_sym(vf) and vt == vf) or \
                   (is_sym(vt) and is_sym(vf) and vt.get_id() == vf.get_id())
            merged.append((ins[1], vt if same else self._ite(c, vt, vf)))
        # side conditions raised while speculating hold under their branch condition only
        for k in range(nside, len(self.side)):
            d, cond = self.side[k]
            guard = c if k < nt else z3.Not(c)
            self.side[k] = (d, z3.Implies(guard, cond))
        for d, v in merged:
            env[d] = v
        self.merged += 1
        return jl

    def call(self, fname, args):
        if fname in self.stubs:
            return self.stubs[fname](self, *args)
        f = self.mod.functions.get(fname)
        if f is None:
            return self.external(fname, args)
        self.called.add(fname)
        env = {}
        for (t, nm), a in zip(f.args, args):
            env[nm] = a
        label, prev = f.entry, None
        blocks = f.blocks
        val = self.val
        skip_phis = False
        while True:
            block = blocks[label]
            n = len(block)
            if skip_phis:
                i = 0
                while i < n and block[i][0] == "phi":
                    i += 1
                skip_phis = False
            else:
                i = self._phis(env, block, prev, fname)
            self.steps += n
            if self.steps > self.max_steps:
                raise StepCap("step cap %d reached in %s" % (self.max_steps, fname))
            while i < n:
                ins = block[i]
                i += 1
                op = ins[0]
                if op == "jmp":
                    prev, label = label, ins[2]
                    break
                elif op == "br":
                    c = val(env, ins[2])
                    if is_sym(c):
                        c = z3.simplify(c)
                        if z3.is_true(c):
                            c = 1
                        elif z3.is_false(c):
                            c = 0
                    if is_sym(c) and self.merge:
                        jl = self._merge_branch(f, env, label, c, ins[3], ins[4])
                        if jl is not None:
                            prev, label, skip_phis = None, jl, True
                            break
                    c = self.truth(c)
                    prev, label = label, (ins[3] if c else ins[4])
                    break
                elif op == "switch":
                    v = val(env, ins[2])
                    target = None
                    if is_sym(v):
                        for cv, lab in ins[4]:
                            if self.truth(v == cv):
                                target = lab
                                break
                    else:
                        for cv, lab in ins[4]:
                            if v == cv:
                                target = lab
                                break
                    prev, label = label, (target or ins[3])
                    break
                elif op == "ret":
                    return None if ins[2] is None else val(env, ins[2])
                elif op == "unreachable":
                    raise MemoryError_("unreachable executed in " + fname)
                else:
                    self._exec(env, ins)
            else:
                raise Unsupported("block %s of %s falls through" % (label, fname))
