"""llsym -- symbolic execution of the real generated C kernels from LLVM IR
(DESIGN 2.2).  build.py regenerates the IR from /repo's working tree on every
run; irparse.py reads the textual IR; interp.py executes it on z3 terms or on
plain floats (translator validation)."""
