"""Calling the exported kernels <model>_Iq/_Iqxy/_Imagnetic through the
interpreter with the argument buffers the real Python driver builds."""
from fractions import Fraction

import numpy as np
import z3

from .interp import Interp, Ptr
from ..symx import Sym


def _cell(v, mode, kind):
    if isinstance(v, Sym):
        return v.t
    if z3.is_expr(v):
        return v
    if kind == "i":
        return int(v)
    return float(v) if mode == "float" else Fraction(float(v))


def load_args(it, details_buffer, values, q, result):
    """Create the four argument regions.  *details_buffer*: int32 array (the
    real CallDetails.buffer); values/q/result: sequences of floats or proxies."""
    mode = it.mode
    det = it.region("details", {4 * i: int(v) for i, v in enumerate(details_buffer)})
    val = it.region("values", {8 * i: _cell(v, mode, "f") for i, v in enumerate(values)})
    qq = it.region("q", {8 * i: _cell(v, mode, "f") for i, v in enumerate(q)})
    res = it.region("result", {8 * i: _cell(v, mode, "f") for i, v in enumerate(result)
                               if v is not None})
    return det, val, qq, res


def call_kernel(it, fname, nq, pd_start, pd_stop, regions, cutoff, mode):
    det, val, qq, res = regions
    cut = _cell(cutoff, it.mode, "f")
    conv = lambda v: v.t if isinstance(v, Sym) else v
    it.call(fname, [nq, conv(pd_start), conv(pd_stop), det, val, qq, res, cut, conv(mode)])
    return it.mem["result"]
