"""Reader for the textual LLVM-14 IR produced by build.c_to_ir (typed pointers).

Only what clang -O0 + mem2reg emits for the sasmodels kernels is supported;
anything else raises ``Unsupported`` (the model is then listed as *not
encoded* by the harness, never silently skipped inside a claim).
"""
import re
import struct


class Unsupported(Exception):
    pass


# ---------------------------------------------------------------------------
# types: ('f64',) ('f32',) ('i',bits) ('ptr',T) ('arr',n,T) ('struct',[T]) ('void',) ('fn',)

def split_top(s, sep=","):
    out, depth, cur = [], 0, []
    for ch in s:
        if ch in "([{<":
            depth += 1
        elif ch in ")]}>":
            depth -= 1
        if ch == sep and depth == 0:
            out.append("".join(cur).strip())
            cur = []
        else:
            cur.append(ch)
    tail = "".join(cur).strip()
    if tail:
        out.append(tail)
    return out


class Module:
    def __init__(self):
        self.rawtypes = {}
        self.types = {}
        self.globals = {}      # name -> (type, init_text or None)
        self.functions = {}    # name -> Function
        self.declared = set()

    def type(self, t):
        t = t.strip()
        if t in self.types:
            return self.types[t]
        r = self._type(t)
        self.types[t] = r
        return r

    def _type(self, t):
        if t.endswith("*"):
            return ("ptr", self.type(t[:-1]))
        if t == "double":
            return ("f64",)
        if t == "float":
            return ("f32",)
        if t == "void":
            return ("void",)
        m = re.match(r"i(\d+)$", t)
        if m:
            return ("i", int(m.group(1)))
        m = re.match(r"\[(\d+) x (.+)\]$", t)
        if m:
            return ("arr", int(m.group(1)), self.type(m.group(2)))
        if t.startswith("%"):
            if t not in self.rawtypes:
                raise Unsupported("unknown type " + t)
            return self.type(self.rawtypes[t])
        if t.startswith("{") or t.startswith("<{"):
            inner = t[t.index("{") + 1:t.rindex("}")].strip()
            return ("struct", [self.type(x) for x in split_top(inner)])
        if "(" in t:
            return ("fn",)
        raise Unsupported("type " + t)


def size_align(t):
    k = t[0]
    if k in ("f64", "ptr", "fn"):
        return 8, 8
    if k == "f32":
        return 4, 4
    if k == "i":
        n = max(1, (t[1] + 7) // 8)
        return n, n
    if k == "arr":
        s, a = size_align(t[2])
        return s * t[1], a
    if k == "struct":
        off, al = 0, 1
        for f in t[1]:
            s, a = size_align(f)
            off = (off + a - 1) // a * a + s
            al = max(al, a)
        return (off + al - 1) // al * al, al
    raise Unsupported("sizeof %r" % (t,))


def field_offset(t, i):
    off = 0
    for j, f in enumerate(t[1]):
        s, a = size_align(f)
        off = (off + a - 1) // a * a
        if j == i:
            return off, f
        off += s
    raise IndexError(i)


def fp_const(tok):
    if tok.startswith("0x"):
        return struct.unpack(">d", bytes.fromhex(tok[2:].rjust(16, "0")))[0]
    return float(tok)


# ---------------------------------------------------------------------------
# operands
# ('reg',name) ('int',v) ('fp',float) ('global',name) ('null',) ('undef',)
# ('gep', basetype, ptr_operand, [index operands])  ('cast', operand)

_TYPE_RE = re.compile(
    r"\s*((?:%[\w.]+|double|float|void|i\d+|\[[^\]]*(?:\[[^\]]*\][^\]]*)*\]|\{[^}]*\})"
    r"(?:\s*\([^)]*\))?\**)")


def take_type(s):
    """Split leading type text off *s*; returns (type_text, rest)."""
    s = s.lstrip()
    # bracket-aware scan for array/struct types
    if s[0] in "[{":
        depth = 0
        for i, ch in enumerate(s):
            if ch in "[{":
                depth += 1
            elif ch in "]}":
                depth -= 1
                if depth == 0:
                    j = i + 1
                    break
        else:
            raise Unsupported("type in " + s)
    else:
        m = re.match(r"(%[\w.]+|double|float|void|i\d+)", s)
        if not m:
            raise Unsupported("type in " + s)
        j = m.end()
    # function type suffix and pointer stars
    while True:
        k = j
        while k < len(s) and s[k] == " ":
            k += 1
        if k < len(s) and s[k] == "(":
            depth = 0
            for i in range(k, len(s)):
                if s[i] == "(":
                    depth += 1
                elif s[i] == ")":
                    depth -= 1
                    if depth == 0:
                        j = i + 1
                        break
            continue
        if j < len(s) and s[j] == "*":
            j += 1
            continue
        break
    return s[:j].strip(), s[j:].lstrip()


_ATTRS = ("noundef", "nonnull", "signext", "zeroext", "inbounds", "nocapture",
          "readonly", "writeonly", "noalias", "immarg", "returned")


def strip_attrs(s):
    changed = True
    while changed:
        changed = False
        s = s.lstrip()
        for a in _ATTRS:
            if s.startswith(a + " "):
                s = s[len(a) + 1:]
                changed = True
        m = re.match(r"(align|dereferenceable|dereferenceable_or_null)\(?\s*\d+\)?\s+", s)
        if m:
            s = s[m.end():]
            changed = True
    return s


def parse_value(mod, typ_text, tok):
    """Operand given its type text and value text."""
    tok = tok.strip()
    if tok.startswith("%"):
        return ("reg", tok)
    if tok.startswith("@"):
        return ("global", tok[1:])
    if tok in ("null", "zeroinitializer"):
        return ("null",)
    if tok in ("undef", "poison"):
        return ("undef",)
    if tok == "true":
        return ("int", 1)
    if tok == "false":
        return ("int", 0)
    if tok.startswith("getelementptr"):
        m = re.match(r"getelementptr (?:inbounds )?\((.*)\)$", tok)
        parts = split_top(m.group(1))
        base = mod.type(parts[0])
        pt, pv = take_type(parts[1])
        ptr = parse_value(mod, pt, pv)
        idx = []
        for p in parts[2:]:
            it, iv = take_type(p)
            idx.append(parse_value(mod, it, iv))
        return ("gep", base, ptr, idx)
    if tok.startswith("bitcast"):
        m = re.match(r"bitcast \((.*) to (.*)\)$", tok)
        it, iv = take_type(m.group(1))
        return parse_value(mod, it, iv)
    t = typ_text.strip()
    if t in ("double", "float"):
        return ("fp", fp_const(tok))
    if re.match(r"i\d+$", t):
        return ("int", int(tok))
    raise Unsupported("operand %s %s" % (typ_text, tok))


def parse_typed(mod, s):
    """'double noundef %x' -> (type_text, operand)."""
    t, rest = take_type(strip_attrs(s))
    rest = strip_attrs(rest)
    return t, parse_value(mod, t, rest)


class Function:
    def __init__(self, name, ret, args):
        self.name = name
        self.ret = ret
        self.args = args        # list of (type_text, regname)
        self.blocks = {}        # label -> list of instructions
        self.entry = None


# instructions are tuples (op, dest, ...)

def parse_instr(mod, ln):
    dest = None
    m = re.match(r"(%[\w.]+) = (.*)$", ln)
    if m:
        dest, ln = m.group(1), m.group(2)
    op, _, rest = ln.partition(" ")
    if op in ("fadd", "fsub", "fmul", "fdiv", "frem"):
        rest = re.sub(r"^(?:(?:fast|nnan|ninf|nsz|arcp|contract|afn|reassoc) )+", "", rest)
        t, rest = take_type(rest)
        a, b = split_top(rest)
        return (op, dest, parse_value(mod, t, a), parse_value(mod, t, b))
    if op == "fneg":
        t, rest = take_type(rest)
        return (op, dest, parse_value(mod, t, rest))
    if op in ("add", "sub", "mul", "sdiv", "srem", "udiv", "urem", "and", "or", "xor",
              "shl", "ashr", "lshr"):
        rest = re.sub(r"^(?:(?:nsw|nuw|exact) )+", "", rest)
        t, rest = take_type(rest)
        a, b = split_top(rest)
        return (op, dest, mod.type(t), parse_value(mod, t, a), parse_value(mod, t, b))
    if op in ("icmp", "fcmp"):
        rest = re.sub(r"^(?:(?:fast|nnan|ninf|nsz|arcp|contract|afn|reassoc) )+", "", rest)
        pred, _, rest = rest.partition(" ")
        t, rest = take_type(rest)
        a, b = split_top(rest)
        return (op, dest, pred, parse_value(mod, t, a), parse_value(mod, t, b))
    if op in ("sext", "zext", "trunc", "sitofp", "uitofp", "fptosi", "fptoui", "bitcast",
              "fpext", "fptrunc", "ptrtoint", "inttoptr"):
        src, _, to = rest.rpartition(" to ")
        t, v = take_type(src)
        return (op, dest, parse_value(mod, t, v), mod.type(t), mod.type(to))
    if op == "alloca":
        parts = split_top(rest)
        return (op, dest, mod.type(parts[0]))
    if op == "load":
        rest = re.sub(r"^volatile ", "", rest)
        parts = split_top(rest)
        pt, pv = take_type(parts[1])
        return (op, dest, mod.type(parts[0]), parse_value(mod, pt, pv))
    if op == "store":
        rest = re.sub(r"^volatile ", "", rest)
        parts = split_top(rest)
        vt, vv = take_type(parts[0])
        pt, pv = take_type(parts[1])
        return (op, None, mod.type(vt), parse_value(mod, vt, vv), parse_value(mod, pt, pv))
    if op == "getelementptr":
        rest = re.sub(r"^inbounds ", "", rest)
        parts = split_top(rest)
        base = mod.type(parts[0])
        pt, pv = take_type(parts[1])
        idx = []
        for p in parts[2:]:
            it, iv = take_type(p)
            idx.append(parse_value(mod, it, iv))
        return (op, dest, base, parse_value(mod, pt, pv), idx)
    if op == "phi":
        t, rest = take_type(rest)
        inc = []
        for v, lab in re.findall(r"\[\s*(.+?),\s*(%[\w.]+)\s*\]", rest):
            inc.append((lab, parse_value(mod, t, v)))
        return (op, dest, inc)
    if op == "select":
        parts = split_top(rest)
        ct, cv = take_type(parts[0])
        at, av = take_type(parts[1])
        bt, bv = take_type(parts[2])
        return (op, dest, parse_value(mod, ct, cv), parse_value(mod, at, av),
                parse_value(mod, bt, bv))
    if op == "br":
        m = re.match(r"label (%[\w.]+)$", rest)
        if m:
            return ("jmp", None, m.group(1))
        m = re.match(r"i1 (\S+), label (%[\w.]+), label (%[\w.]+)$", rest)
        return ("br", None, parse_value(mod, "i1", m.group(1)), m.group(2), m.group(3))
    if op == "switch":
        m = re.match(r"(i\d+) (\S+), label (%[\w.]+) \[(.*)\]$", rest)
        cases = [(int(c), lab) for c, lab in
                 re.findall(r"i\d+ (-?\d+), label (%[\w.]+)", m.group(4))]
        return ("switch", None, parse_value(mod, m.group(1), m.group(2)), m.group(3), cases)
    if op == "ret":
        if rest.strip() == "void":
            return ("ret", None, None)
        t, v = take_type(rest)
        return ("ret", None, parse_value(mod, t, v))
    if op in ("call", "tail", "musttail", "notail"):
        if op != "call":
            rest = rest.partition("call ")[2]
        rest = re.sub(r"^(?:(?:fast|nnan|ninf|nsz|arcp|contract|afn|reassoc) )+", "", rest)
        rest = strip_attrs(rest)
        rt, rest = take_type(rest)
        # optional function type '(double, ...)' already consumed by take_type when present
        m = re.match(r"@([\w.$]+)\((.*)\)", rest)
        if not m:
            raise Unsupported("indirect call: " + ln)
        args = []
        for a in split_top(m.group(2)):
            if a.startswith("metadata"):
                continue
            t, v = parse_typed(mod, a)
            args.append((mod.type(t), v))
        return ("call", dest, m.group(1), args)
    if op == "unreachable":
        return ("unreachable", None)
    raise Unsupported("instruction: " + ln)


def parse(path):
    mod = Module()
    with open(path) as f:
        lines = f.read().split("\n")
    for ln in lines:
        m = re.match(r"(%[\w.]+) = type (.+)$", ln)
        if m:
            mod.rawtypes[m.group(1)] = m.group(2)
    cur = None
    label = None
    joined, acc = [], None
    for ln in lines:
        if acc is not None:
            acc += " " + ln.strip()
            if ln.strip() == "]":
                joined.append(acc)
                acc = None
            continue
        if ln.startswith("  switch ") and not ln.rstrip().endswith("]"):
            acc = ln.rstrip()
            continue
        joined.append(ln)
    lines = joined
    for ln in lines:
        if cur is None:
            if ln.startswith("@"):
                m = re.match(r"@([\w.$]+) = (?:[\w_]+ )*?(?:global|constant) (.*?)(?:, align \d+)?$", ln)
                if m:
                    t, init = take_type(m.group(2))
                    mod.globals[m.group(1)] = (mod.type(t), init)
                continue
            if ln.startswith("declare"):
                m = re.search(r"@([\w.$]+)\(", ln)
                if m:
                    mod.declared.add(m.group(1))
                continue
            if ln.startswith("define"):
                m = re.match(r"define (.*?)@([\w.$]+)\((.*)\)[^)]*\{\s*$", ln)
                head = m.group(1).split()
                ret = head[-1] if head else "void"
                args = []
                for a in split_top(m.group(3)):
                    t, rest = take_type(strip_attrs(a))
                    rest = strip_attrs(rest)
                    args.append((t, rest.strip()))
                cur = Function(m.group(2), ret, args)
                mod.functions[cur.name] = cur
                label = "%" + str(len(args))     # implicit entry label
                cur.entry = label
                cur.blocks[label] = []
            continue
        if ln.startswith("}"):
            cur = None
            continue
        m = re.match(r"([\w.$]+):", ln)
        if m and not ln.startswith(" "):
            label = "%" + m.group(1)
            cur.blocks[label] = []
            continue
        s = ln.strip()
        if not s or s.startswith(";"):
            continue
        s = re.sub(r",? ![\w.]+ ![\w.]+", "", s)       # metadata attachments
        s = re.sub(r"\s+#\d+$", "", s)                   # attribute group refs
        s = re.sub(r", align \d+$", "", s)
        cur.blocks[label].append(parse_instr(mod, s))
    return mod


def parse_initializer(mod, typ, text):
    """Constant initializer -> list of (byte offset, scalar type, value)."""
    text = text.strip()
    cells = []

    def walk(t, txt, base):
        txt = txt.strip()
        k = t[0]
        if txt in ("zeroinitializer", "undef"):
            if k in ("f64", "f32"):
                cells.append((base, t, 0.0))
            elif k in ("i", "ptr"):
                cells.append((base, t, 0))
            elif k == "arr":
                s, _ = size_align(t[2])
                for i in range(t[1]):
                    walk(t[2], "zeroinitializer", base + i * s)
            elif k == "struct":
                for i, f in enumerate(t[1]):
                    o, _ = field_offset(t, i)
                    walk(f, "zeroinitializer", base + o)
            return
        if k in ("f64", "f32"):
            cells.append((base, t, fp_const(txt)))
        elif k == "i":
            cells.append((base, t, int(txt)))
        elif k == "arr":
            if txt.startswith("c\""):
                raise Unsupported("string initializer")
            inner = txt[1:-1]
            s, _ = size_align(t[2])
            for i, item in enumerate(split_top(inner)):
                it, iv = take_type(item)
                walk(t[2], iv, base + i * s)
        elif k == "struct":
            inner = txt[txt.index("{") + 1:txt.rindex("}")]
            for i, item in enumerate(split_top(inner)):
                it, iv = take_type(item)
                o, f = field_offset(t, i)
                walk(f, iv, base + o)
        else:
            raise Unsupported("initializer for %r" % (t,))

    walk(typ, text, 0)
    return cells
