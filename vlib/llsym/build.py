"""model_info -> real generated C source -> clang -O0 IR -> opt -mem2reg."""
import hashlib
import os
import subprocess

from .. import scratch

CLANG = "clang-14" if os.path.exists("/usr/bin/clang-14") else "clang"
OPT = "/usr/lib/llvm-14/bin/opt"
CFLAGS = ["-std=c99", "-fgnu89-inline", "-O0", "-Xclang", "-disable-O0-optnone",
          "-ffp-contract=off", "-fno-math-errno", "-w", "-S", "-emit-llvm"]
OPT_PASSES = ["-mem2reg", "-simplifycfg", "-instsimplify"]


def c_to_ir(source, tag, extra_flags=()):
    """Compile C text to mem2reg'd textual IR; returns the path of the .ll file."""
    d = os.path.join(scratch(), "ir")
    os.makedirs(d, exist_ok=True)
    h = hashlib.sha1(source.encode()).hexdigest()[:12]
    base = os.path.join(d, "%s_%s" % (tag, h))
    if os.path.exists(base + ".ll"):
        return base + ".ll"
    tmp = "%s.%d" % (base, os.getpid())
    with open(tmp + ".c", "w") as f:
        f.write(source)
    try:
        subprocess.check_output([CLANG] + CFLAGS + list(extra_flags) + [tmp + ".c", "-o", tmp + ".raw.ll"],
                                stderr=subprocess.STDOUT)
        subprocess.check_output([OPT, "-S"] + OPT_PASSES + [tmp + ".raw.ll", "-o", tmp + ".ll"],
                                stderr=subprocess.STDOUT)
        os.replace(tmp + ".ll", base + ".ll")
    finally:
        for ext in (".c", ".raw.ll", ".ll"):
            if os.path.exists(tmp + ext):
                os.unlink(tmp + ext)
    return base + ".ll"


def model_source(model_info):
    """The exact text the DLL is compiled from: make_source()['dll'] through
    the real convert_type at double precision."""
    from sasmodels import generate
    from sasmodels.kerneldll import F64
    src = generate.make_source(model_info)["dll"]
    return generate.convert_type(src, F64)


def model_ir(model_info):
    src = model_source(model_info)
    return c_to_ir(src, model_info.id), src
