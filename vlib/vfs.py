"""vfs -- virtual filesystem, clock, scripted compiler and dlopen (DESIGN 3/C17, 3/C18).

The real ``sasmodels.custom``, ``generate`` and ``kerneldll`` code is run
unmodified; what it sees of the operating system is replaced *from the
harness* by module attributes built here:

    kerneldll.os         -> OsShim(vfs)        (path.exists, makedirs, fdopen, unlink, replace ...)
    kerneldll.tempfile   -> TempfileShim(vfs)  (mkstemp with unique names)
    kerneldll.subprocess -> SubprocessShim(vfs, ScriptedCompiler(vfs))
    kerneldll.ct         -> CtShim(vfs)        (CDLL works only on a complete library)
    kerneldll.open / generate.open -> vfs.open
    generate.getmtime / generate.exists, custom.os, custom.exists -> vfs
    custom.load_module_from_path -> vfs.load_module   (executes the virtual text)

Files are *inodes* (so that ``rename``/``replace`` is atomic and a loaded
library keeps the content it was opened with).  A modification time may be a
``symx.Sym`` (symbolic real): the comparisons the real code makes on it
(``cache_time < mtime``, ``max(...)``, ``mtime > cached``) then fork in the
explorer.  Paths that are not under virtual control fall through, read-only,
to the real filesystem (templates, library C files of the installed package).

Every operation first calls ``vfs.hook(label, path, kind)`` (when set):
``kind`` is "shared" (visible to other processes), "private" (a file only the
calling process knows the name of) or "static" (read of something nobody
writes).  ``vlib.sched`` uses the hook as yield / crash point.

Anything the shims do not model raises :class:`VfsUnsupported`, which the
harnesses report as a harness error (exit 2), never as a verdict.
"""
from __future__ import annotations

import hashlib
import io
import linecache
import os as _os
import subprocess as _subprocess
import tempfile as _tempfile
import types
import ctypes as _ct


class VfsUnsupported(Exception):
    """The code under test used an OS facility the virtual filesystem does not model."""


class ChildKilled(BaseException):
    """Raised by the scheduler hook inside the scripted compiler: the compiler
    child process is killed by a signal, the calling process survives."""


def norm(path):
    return _os.path.normpath(_os.path.abspath(_os.path.expanduser(str(path))))


class Inode:
    __slots__ = ("data", "complete", "mtime", "ino", "maps", "kind")
    _count = [0]

    def __init__(self, data="", complete=True, mtime=0.0, kind="text"):
        Inode._count[0] += 1
        self.ino = Inode._count[0]
        self.data = data
        self.complete = complete
        self.mtime = mtime
        self.maps = 0
        self.kind = kind


class VFS:
    def __init__(self, volatile=(), passthrough=True):
        self.files = {}           # path -> Inode
        self.dirs = set()
        self.volatile = [norm(v) for v in volatile]   # directories other processes write to
        self.passthrough = passthrough
        self.hook = None          # callable(label, path, kind)
        self.clock = None         # callable() -> mtime for files written by the code under test
        self.owner = lambda: 0    # id of the calling process
        self.private = {}         # path -> owner id
        self.shared_names = None  # None: every name under a volatile directory is shared
        self.first_user = {}
        self.fds = {}
        self._serial = 0
        self.log = []             # (owner, label, path)
        self.compiles = 0
        self.dlopens = []         # (owner, path, ok, detail)
        self.listed = False       # the code under test enumerated a volatile directory

    # -- classification / hook ------------------------------------------------
    def kind(self, path):
        if path in self.private and self.private[path] == self.owner():
            return "private"
        if self._is_volatile(path):
            if self.shared_names is None or path in self.shared_names or path in self.volatile:
                return "shared"
            # A name that is not the same in two independent runs (random
            # temporary name): optimistically private to the first process that
            # uses it; the optimism is checked, never assumed.
            first = self.first_user.setdefault(path, self.owner())
            if first != self.owner():
                raise VfsUnsupported(
                    "partial-order reduction invalid: %s was treated as private to process %s "
                    "and is now used by process %s" % (path, first, self.owner()))
            return "private"
        if path in self.files:
            return "shared"
        return "static"

    def _pt(self, label, path, kind=None):
        if kind is None:
            kind = self.kind(path)
        if self.hook is not None:
            self.hook(label, path, kind)
        self.log.append((self.owner(), label, path))

    def _now(self):
        return self.clock() if self.clock is not None else 0.0

    # -- harness-side (no hook): set up and edit files --------------------------
    def put(self, path, text, mtime=0.0, kind="text"):
        path = norm(path)
        self.files[path] = Inode(text, True, mtime, kind)
        self.dirs.add(_os.path.dirname(path))
        return path

    def add_dir(self, path):
        self.dirs.add(norm(path))

    def peek(self, path):
        return self.files.get(norm(path))

    def listdir(self, path):
        path = norm(path)
        return sorted(p for p in self.files if _os.path.dirname(p) == path)

    def listing(self, path):
        """Directory enumeration by the code under test (os.listdir, glob): a
        yield point on the directory; enumerating a volatile directory makes
        every name in it known to the caller, so 'random temporary names are
        private to their creator' no longer holds (callers re-run with every
        name shared when ``listed`` is set)."""
        path = norm(path)
        if self._is_volatile(path):
            self.listed = True
        self._pt("listdir", path, "shared" if self._is_volatile(path) else None)
        return self.listdir(path)

    # -- queries --------------------------------------------------------------
    def exists(self, path):
        path = norm(path)
        self._pt("exists", path)
        if path in self.files or path in self.dirs:
            return True
        if self._is_volatile(path):
            return False
        return self.passthrough and _os.path.exists(path)

    def isfile(self, path):
        path = norm(path)
        self._pt("exists", path)
        if path in self.files:
            return True
        if path in self.dirs or self._is_volatile(path):
            return False
        return self.passthrough and _os.path.isfile(path)

    def isdir(self, path):
        path = norm(path)
        self._pt("exists", path)
        if path in self.dirs:
            return True
        if path in self.files or self._is_volatile(path):
            return False
        return self.passthrough and _os.path.isdir(path)

    def _is_volatile(self, path):
        return any(path == v or path.startswith(v + _os.sep) for v in self.volatile)

    def getmtime(self, path):
        path = norm(path)
        self._pt("getmtime", path)
        if path in self.files:
            return self.files[path].mtime
        if self.passthrough and not self._is_volatile(path):
            return _os.path.getmtime(path)
        raise FileNotFoundError(2, "No such file or directory (vfs)", path)

    def getsize(self, path):
        path = norm(path)
        self._pt("exists", path)
        if path in self.files:
            return len(self.files[path].data)
        if self.passthrough and not self._is_volatile(path):
            return _os.path.getsize(path)
        raise FileNotFoundError(2, "No such file or directory (vfs)", path)

    def read(self, path, label="read"):
        path = norm(path)
        if label is not None:
            self._pt(label, path)
        if path in self.files:
            return self.files[path].data
        if self.passthrough and not self._is_volatile(path):
            with io.open(path) as f:
                return f.read()
        raise FileNotFoundError(2, "No such file or directory (vfs)", path)

    # -- modification ---------------------------------------------------------
    def makedirs(self, path, mode=0o777, exist_ok=False):
        path = norm(path)
        have = path in self.dirs or (self.passthrough and not self._is_volatile(path)
                                     and _os.path.isdir(path))
        self._pt("makedirs", path, "static" if have else "shared")
        have = path in self.dirs or (self.passthrough and not self._is_volatile(path)
                                     and _os.path.isdir(path))
        if have:
            if not exist_ok:
                raise FileExistsError(17, "File exists (vfs)", path)
            return
        p = path
        while p and p not in self.dirs and p != _os.path.dirname(p):
            self.dirs.add(p)
            p = _os.path.dirname(p)

    def mkdir(self, path, mode=0o777):
        path = norm(path)
        self._pt("makedirs", path, "shared")
        if path in self.dirs:
            raise FileExistsError(17, "File exists (vfs)", path)
        self.dirs.add(path)

    def unique_name(self, dir, prefix, suffix):
        self._serial += 1
        return _os.path.join(norm(dir), "%s%06dp%s%s" % (prefix, self._serial, self.owner(), suffix))

    def mkstemp(self, suffix=None, prefix=None, dir=None, text=False):
        if dir is None:
            dir = _tempfile.gettempdir()
        path = self.unique_name(dir, prefix if prefix is not None else "tmp",
                                suffix if suffix is not None else "")
        self.private[path] = self.owner()
        self._pt("mkstemp", path)
        self.files[path] = Inode("", True, self._now())
        self._serial += 1
        fd = 1000 + self._serial
        self.fds[fd] = path
        return fd, path

    def mktemp(self, suffix="", prefix="tmp", dir=None):
        if dir is None:
            dir = _tempfile.gettempdir()
        path = self.unique_name(dir, prefix, suffix)
        self.private[path] = self.owner()
        return path

    def open(self, path, mode="r", *args, **kw):
        if isinstance(path, int):
            return self.fdopen(path, mode)
        path = norm(path)
        binary = "b" in mode
        mode = mode.replace("b", "").replace("t", "") or "r"
        if mode in ("r", "U"):
            self._pt("open", path)
            data = self.read(path, None)
            return _VFileR(self, path, data, binary)
        if mode[0] in "wx":
            if mode[0] == "x" and path in self.files:
                raise FileExistsError(17, "File exists (vfs)", path)
            # non-atomic write: the file is created/truncated at open and
            # grows with every write
            self._pt("open", path)
            ino = self.files.get(path)
            if ino is None or ino.maps:
                ino = self.files[path] = Inode("", True, self._now())
            else:
                ino.data, ino.complete, ino.mtime = "", True, self._now()
            return _VFileW(self, path, ino, binary)
        raise VfsUnsupported("open(%r, %r) is not modelled by vlib.vfs" % (path, mode))

    def fdopen(self, fd, mode="r", *args, **kw):
        if fd not in self.fds:
            raise OSError(9, "Bad file descriptor (vfs)")
        path = self.fds.pop(fd)
        self._pt("fdopen", path)
        if mode[0] in "wa":
            ino = self.files[path]
            if mode[0] == "w":
                ino.data = ""
            return _VFileW(self, path, ino, "b" in mode)
        return _VFileR(self, path, self.read(path, None), "b" in mode)

    def close_fd(self, fd):
        self._pt("close-fd", self.fds.get(fd, "<fd>"), "private")
        self.fds.pop(fd, None)

    def unlink(self, path):
        path = norm(path)
        self._pt("unlink", path)
        if path not in self.files:
            raise FileNotFoundError(2, "No such file or directory (vfs)", path)
        del self.files[path]
        self.private.pop(path, None)

    def replace(self, src, dst):
        """Atomic rename: the destination name switches inode in one step."""
        src, dst = norm(src), norm(dst)
        kind = "shared" if (self.kind(dst) == "shared" or self.kind(src) == "shared") else None
        self._pt("replace", dst, kind)
        if src not in self.files:
            raise FileNotFoundError(2, "No such file or directory (vfs)", src)
        self.files[dst] = self.files.pop(src)
        self.private.pop(src, None)
        self.private.pop(dst, None)

    # -- module loading (custom.load_module_from_path) ------------------------------
    def load_module(self, fullname, path):
        path = norm(path)
        text = self.read(path, None)
        module = types.ModuleType(fullname)
        module.__file__ = path
        # inspect.getsource(module) (modelinfo._find_source_lines) reads linecache
        lines = text.splitlines(True)
        linecache.cache[path] = (len(text), None, lines, path)
        exec(compile(text, path, "exec"), module.__dict__)
        return module


class _VFileW:
    """Write handle: what is written is visible at once (no buffering is
    modelled); the file is simply as long as what has been written so far."""

    def __init__(self, vfs, path, ino, binary=False):
        self.vfs, self.path, self.ino, self.binary = vfs, path, ino, binary
        self.closed = False
        self.pos = 0

    def write(self, s):
        if isinstance(s, bytes):
            s = s.decode("latin1")
        self.vfs._pt("write", self.path)
        d, pos = self.ino.data, self.pos       # every handle has its own offset
        if len(d) < pos:
            d = d + "\0" * (pos - len(d))
        self.ino.data = d[:pos] + s + d[pos + len(s):]
        self.pos = pos + len(s)
        self.ino.mtime = self.vfs._now()
        return len(s)

    def flush(self):
        pass

    def close(self):
        if self.closed:
            return
        self.closed = True
        self.vfs._pt("close", self.path)

    def __enter__(self):
        return self

    def __exit__(self, *a):
        self.close()
        return False


class _VFileR:
    def __init__(self, vfs, path, data, binary=False):
        self.vfs, self.path = vfs, path
        if binary and isinstance(data, str):
            data = data.encode("latin1")
        self._io = io.BytesIO(data) if binary else io.StringIO(data)
        self.closed = False

    def read(self, *a):
        return self._io.read(*a)

    def readline(self, *a):
        return self._io.readline(*a)

    def readlines(self, *a):
        return self._io.readlines(*a)

    def __iter__(self):
        return iter(self._io)

    def close(self):
        if not self.closed:
            self.closed = True
            self.vfs._pt("close", self.path)

    def __enter__(self):
        return self

    def __exit__(self, *a):
        self.close()
        return False


# --------------------------------------------------------------------------
# scripted compiler and dlopen

def digest(text):
    return hashlib.sha1(text.encode("utf8")).hexdigest()


LIB_MAGIC = "VLIB1"


def library_image(source_text):
    """Content of the library the scripted compiler produces from *source_text*."""
    return "%s|%s|%s|END" % (LIB_MAGIC, digest(source_text), source_text)


class ScriptedCompiler:
    """`cc ... source.c -o output ...`: writes the output in two halves.

    Like GNU ld it removes an existing output file and creates a new one, so
    the partial content is visible under the output name between the halves;
    a library that some process has already mapped is not modified.
    """

    def __init__(self, vfs, source_ok=None):
        self.vfs = vfs
        # sasmodels' generated sources end with the last kernel's "#undef KERNEL_NAME"
        self.source_ok = source_ok or (lambda text: text.rstrip().endswith("#undef KERNEL_NAME"))

    def __call__(self, command):
        if isinstance(command, str):
            import shlex
            command = shlex.split(command)
        command = list(command)
        out = src = None
        for i, a in enumerate(command):
            if a == "-o" and i + 1 < len(command):
                out = command[i + 1]
            elif a.startswith("/OUT:"):
                out = a[5:]
            elif a.endswith(".c") and (i == 0 or command[i - 1] != "-o"):
                src = a[3:] if a.startswith("/Tp") else a
        if out is None or src is None:
            raise VfsUnsupported("scripted compiler cannot parse %r" % (command,))
        vfs = self.vfs
        out = norm(out)
        try:
            text = vfs.read(src, None)
        except FileNotFoundError:
            raise _subprocess.CalledProcessError(1, command, output=b"cc: no such file (vfs)")
        if not self.source_ok(text):
            # a truncated C file does not compile: cc fails before the linker
            # creates any output
            raise _subprocess.CalledProcessError(1, command, output=b"cc: syntax error (vfs: truncated source)")
        image = library_image(text)
        half = len(image) // 2
        try:
            vfs._pt("cc-half1", out)
            vfs.compiles += 1
            ino = vfs.files[out] = Inode(image[:half], False, vfs._now(), "lib")
            vfs._pt("cc-half2", out)
        except ChildKilled:
            # what subprocess reports for a child that died from SIGKILL; whatever
            # the compiler had written so far stays where it is
            raise _subprocess.CalledProcessError(-9, command, output=b"")
        ino.data = image
        ino.complete = True
        ino.mtime = vfs._now()
        return b""


class VFunc:
    def __init__(self, lib, name):
        self.lib, self.name = lib, name
        self.argtypes = None
        self.restype = None

    def __call__(self, *a):
        raise VfsUnsupported("virtual kernels are not callable; evaluate through VLib.text")


class VLib:
    """What ``ct.CDLL`` returns: bound to the inode it was opened on."""

    def __init__(self, path, ino):
        self._name = path
        self._handle = ino.ino
        self.inode = ino
        magic, dig, rest = ino.data.split("|", 2)
        self.digest = dig
        self.text = rest[:-4]

    def __getitem__(self, name):
        if ("KERNEL_NAME %s\n" % name) not in self.text:
            raise AttributeError("undefined symbol: %s (vfs)" % name)
        return VFunc(self, name)

    def __getattr__(self, name):
        if name.startswith("_"):
            raise AttributeError(name)
        return self[name]


def well_formed(ino):
    return bool(ino.complete and ino.data.startswith(LIB_MAGIC + "|") and ino.data.endswith("|END"))


def dlopen(vfs, path):
    path = norm(path)
    vfs._pt("dlopen", path)
    ino = vfs.files.get(path)
    if ino is None:
        vfs.dlopens.append((vfs.owner(), path, False, "missing"))
        raise OSError("%s: cannot open shared object file: No such file or directory (vfs)" % path)
    if not well_formed(ino):
        vfs.dlopens.append((vfs.owner(), path, False, "truncated"))
        raise OSError("%s: file too short (vfs: partially written library)" % path)
    ino.maps += 1
    vfs.dlopens.append((vfs.owner(), path, True, ""))
    return VLib(path, ino)


# --------------------------------------------------------------------------
# module shims

class PathShim:
    def __init__(self, vfs):
        self._vfs = vfs
        for n in ("join", "abspath", "basename", "dirname", "splitext", "expanduser",
                  "normpath", "sep", "split", "isabs", "relpath", "commonprefix",
                  "expandvars", "normcase", "splitdrive"):
            setattr(self, n, getattr(_os.path, n))
        self.exists = vfs.exists
        self.lexists = vfs.exists
        self.isfile = vfs.isfile
        self.isdir = vfs.isdir
        self.getmtime = vfs.getmtime
        self.getsize = vfs.getsize
        self.realpath = norm

    def __getattr__(self, name):
        raise VfsUnsupported("os.path.%s is not modelled by vlib.vfs" % name)


class OsShim:
    def __init__(self, vfs, pid=lambda: 4242):
        self._vfs = vfs
        self.path = PathShim(vfs)
        self.name = _os.name
        self.sep = _os.sep
        self.linesep = _os.linesep
        self.environ = _os.environ
        self.makedirs = vfs.makedirs
        self.mkdir = vfs.mkdir
        self.fdopen = vfs.fdopen
        self.close = vfs.close_fd
        self.unlink = vfs.unlink
        self.remove = vfs.unlink
        self.replace = vfs.replace
        self.rename = vfs.replace
        self.getpid = pid
        self.fspath = _os.fspath
        self.getcwd = _os.getcwd
        self.error = OSError
        self.O_RDONLY, self.O_WRONLY, self.O_CREAT, self.O_EXCL = (
            _os.O_RDONLY, _os.O_WRONLY, _os.O_CREAT, _os.O_EXCL)

    def listdir(self, path):
        return [_os.path.basename(p) for p in self._vfs.listing(path)]

    def chmod(self, path, mode):
        self._vfs._pt("chmod", norm(path))

    def __getattr__(self, name):
        raise VfsUnsupported("os.%s is not modelled by vlib.vfs" % name)


class _NamedTemp:
    def __init__(self, vfs, path, f):
        self.name = path
        self._f = f

    def write(self, s):
        return self._f.write(s)

    def flush(self):
        pass

    def close(self):
        self._f.close()

    def __enter__(self):
        return self

    def __exit__(self, *a):
        self.close()
        return False


class TempfileShim:
    def __init__(self, vfs):
        self._vfs = vfs
        self.mkstemp = vfs.mkstemp
        self.mktemp = vfs.mktemp
        self.gettempdir = _tempfile.gettempdir
        self.tempdir = None

    def NamedTemporaryFile(self, mode="w+b", suffix=None, prefix=None, dir=None,
                           delete=True, **kw):
        if delete:
            raise VfsUnsupported("NamedTemporaryFile(delete=True) is not modelled by vlib.vfs")
        fd, path = self._vfs.mkstemp(suffix, prefix, dir)
        return _NamedTemp(self._vfs, path, self._vfs.fdopen(fd, "w"))

    def __getattr__(self, name):
        raise VfsUnsupported("tempfile.%s is not modelled by vlib.vfs" % name)


class SubprocessShim:
    CalledProcessError = _subprocess.CalledProcessError
    SubprocessError = _subprocess.SubprocessError
    STDOUT = _subprocess.STDOUT
    PIPE = _subprocess.PIPE
    DEVNULL = _subprocess.DEVNULL

    def __init__(self, vfs, compiler):
        self._vfs = vfs
        self._compiler = compiler

    def check_output(self, command, **kw):
        self._vfs._pt("spawn-cc", "<compiler>", "private")
        return self._compiler(command)

    def check_call(self, command, **kw):
        self.check_output(command, **kw)
        return 0

    def call(self, command, **kw):
        try:
            self.check_output(command, **kw)
        except _subprocess.CalledProcessError as e:
            return e.returncode
        return 0

    def run(self, command, check=False, **kw):
        try:
            out = self.check_output(command)
            rc = 0
        except _subprocess.CalledProcessError as e:
            if check:
                raise
            out, rc = e.output, e.returncode
        return _subprocess.CompletedProcess(command, rc, out, b"")

    def __getattr__(self, name):
        raise VfsUnsupported("subprocess.%s is not modelled by vlib.vfs" % name)


class GlobShim:
    """``glob`` over the virtual filesystem (magic in the last component only)."""

    def __init__(self, vfs):
        import glob as _glob
        self._vfs = vfs
        self.escape = _glob.escape
        self.has_magic = _glob.has_magic

    def glob(self, pathname, **kw):
        import fnmatch
        import glob as _glob
        pathname = _os.fspath(pathname)
        d, base = _os.path.split(pathname)
        if (kw.get("recursive") or kw.get("root_dir") is not None or not d
                or _glob.has_magic(d.replace("[[]", "").replace("[?]", "").replace("[*]", ""))):
            raise VfsUnsupported("glob pattern %r is not modelled by vlib.vfs" % (pathname,))
        # undo glob.escape in the directory part
        d = d.replace("[[]", "[").replace("[?]", "?").replace("[*]", "*")
        if not _glob.has_magic(base):
            return [pathname] if self._vfs.exists(pathname) else []
        names = [_os.path.basename(p) for p in self._vfs.listing(d)]
        return [_os.path.join(d, n) for n in names
                if fnmatch.fnmatchcase(n, base) and (base.startswith(".") or not n.startswith("."))]

    def iglob(self, pathname, **kw):
        return iter(self.glob(pathname, **kw))

    def __getattr__(self, name):
        raise VfsUnsupported("glob.%s is not modelled by vlib.vfs" % name)


class UnmodelledModule:
    """A filesystem-capable module the code under test has started to use and
    vlib.vfs does not model: any use is 'no verdict', never a silent bypass of
    the virtual filesystem."""

    def __init__(self, name):
        self.__dict__["_name"] = name

    def __getattr__(self, attr):
        raise VfsUnsupported("%s.%s is not modelled by vlib.vfs" % (self.__dict__["_name"], attr))


class CtShim:
    """``ctypes`` with ``CDLL`` bound to the virtual filesystem."""

    def __init__(self, vfs):
        self._vfs = vfs

    def CDLL(self, name, *a, **kw):
        return dlopen(self._vfs, name)

    def __getattr__(self, name):
        if name in ("cdll", "PyDLL", "LibraryLoader", "windll"):
            raise VfsUnsupported("ctypes.%s is not modelled by vlib.vfs" % name)
        return getattr(_ct, name)


# --------------------------------------------------------------------------
# attaching / detaching the shims

class Patch:
    """Replace module attributes, remember the originals, restore on exit."""
    _MISSING = object()

    def __init__(self):
        self.saved = []
        self.listed = []

    def set(self, module, name, value, what=None):
        old = module.__dict__.get(name, Patch._MISSING)
        self.saved.append((module, name, old))
        setattr(module, name, value)
        self.listed.append("%s.%s -> %s" % (module.__name__.replace("sasmodels.", ""), name,
                                            what or getattr(value, "__name__", type(value).__name__)))

    def restore(self):
        for module, name, old in reversed(self.saved):
            if old is Patch._MISSING:
                try:
                    delattr(module, name)
                except AttributeError:
                    pass
            else:
                setattr(module, name, old)
        self.saved = []


def attach_kerneldll(patch, vfs, kerneldll, pid=lambda: 4242):
    """Bind what ``kerneldll`` sees of the OS to *vfs*."""
    for need in ("os", "tempfile", "subprocess", "ct"):
        if need not in kerneldll.__dict__:
            raise VfsUnsupported("kerneldll.%s no longer exists: the stub cannot be attached" % need)
    patch.set(kerneldll, "os", OsShim(vfs, pid), "vfs.OsShim")
    patch.set(kerneldll, "tempfile", TempfileShim(vfs), "vfs.TempfileShim")
    patch.set(kerneldll, "subprocess", SubprocessShim(vfs, ScriptedCompiler(vfs)),
              "vfs.SubprocessShim(scripted two-half compiler)")
    patch.set(kerneldll, "ct", CtShim(vfs), "vfs.CtShim(CDLL on complete virtual libraries only)")
    patch.set(kerneldll, "open", vfs.open, "vfs.open")
    # modules the current kerneldll does not import but a change may: they must
    # not reach the real filesystem behind the virtual one
    import types as _types
    for name, value in list(kerneldll.__dict__.items()):
        if not isinstance(value, _types.ModuleType):
            continue
        if value.__name__ == "glob":
            patch.set(kerneldll, name, GlobShim(vfs), "vfs.GlobShim")
        elif value.__name__ in ("shutil", "pathlib", "io", "fnmatch_fs", "posix", "posixpath", "genericpath"):
            patch.set(kerneldll, name, UnmodelledModule(value.__name__), "vfs.UnmodelledModule")


def attach_generate(patch, vfs, generate):
    for need in ("getmtime", "exists"):
        if need not in generate.__dict__:
            raise VfsUnsupported("generate.%s no longer exists: the stub cannot be attached" % need)
    patch.set(generate, "getmtime", vfs.getmtime, "vfs.getmtime (symbolic mtimes)")
    patch.set(generate, "exists", vfs.exists, "vfs.exists")
    patch.set(generate, "open", vfs.open, "vfs.open")
    # os.path functions a change may newly import into generate
    for name, fn in (("getsize", vfs.getsize), ("isfile", vfs.isfile), ("isdir", vfs.isdir)):
        if name in generate.__dict__:
            patch.set(generate, name, fn, "vfs.%s" % name)


def attach_custom(patch, vfs, custom):
    for need in ("os", "exists", "load_module_from_path"):
        if need not in custom.__dict__:
            raise VfsUnsupported("custom.%s no longer exists: the stub cannot be attached" % need)
    patch.set(custom, "os", OsShim(vfs), "vfs.OsShim (getmtime symbolic)")
    patch.set(custom, "exists", vfs.exists, "vfs.exists")
    patch.set(custom, "load_module_from_path", vfs.load_module,
              "vfs.load_module (executes the virtual file text)")
