"""Homogeneity-degree typing of LLVM IR (C13).

Every SSA value v of a function gets two rational unknowns (l(v), m(v)): the
claim encoded by a solution is  "if every input x is replaced by
lambda^l(x) * mu^m(x) * x (lambda, mu > 0) then every value v computed along
the same path becomes lambda^l(v) * mu^m(v) * v".

Soundness (induction over executed instructions, doubles read as reals):
  fadd/fsub/phi/select/fmin/fmax/fmod/hypot  operands and result share one
      degree (a literal 0 / inf operand is exempt: 0 scales to 0);
  fmul  sum, fdiv  difference, fneg/fabs/copysign  same, sqrt  half, cbrt
      third, pow(x, c) with literal c:  c * d(x);
  non-zero literals, table constants and int->fp conversions: degree 0;
  fcmp a, b: equal degrees (so the outcome, hence the branch taken, is
      unchanged because lambda^d > 0); a literal 0 is exempt, a non-zero
      literal threshold therefore forces the other side to degree 0 --
      comparisons of a dimensionful quantity with a numeric threshold are NOT
      exempted: they make the model untypable and it is then decided by the
      numeric witness search or excluded from the claim by name;
  fptosi / floor / ceil / round and transcendental libm calls: argument
      degree 0, result degree 0;
  memory: one unknown per alloca / struct field / array (all elements of an
      array share one degree); a load or store equates value and cell;
  calls to functions defined in the module are inlined per call site with a
      fresh set of unknowns (helpers are degree-polymorphic); library helpers
      (sas_J1, sas_3j1x_x, polevl ...) are typed from their real bodies;
  integer values carry no degree (they may only come from fptosi of a
      degree-0 value or from counters), so integer-controlled branches are
      invariant as well.
The analysis is flow-insensitive (all instructions of a function contribute),
which only adds constraints.
"""
import fractions
import math

import z3

from .llsym.irparse import Unsupported

DIMLESS = {"sin", "cos", "tan", "asin", "acos", "atan", "sinh", "cosh", "tanh",
           "asinh", "acosh", "atanh", "exp", "exp2", "expm1", "log", "log10",
           "log2", "log1p", "erf", "erfc", "tgamma", "lgamma",
           "floor", "ceil", "trunc", "round", "rint", "nearbyint"}
SAME1 = {"fabs"}
ALLEQ = {"fmin", "fmax", "minnum", "maxnum", "fmod", "remainder", "hypot", "fdim"}
IGNORED = {"llvm.lifetime.start.p0i8", "llvm.lifetime.end.p0i8", "llvm.memset.p0i8.i64",
           "llvm.dbg.declare", "llvm.dbg.value", "printf", "abs"}


def libname(name):
    if name.startswith("llvm."):
        name = name[5:]
        if name.endswith(".f64"):
            name = name[:-4]
    return name


class Shape:
    __slots__ = ("parent", "fields")

    def __init__(self):
        self.parent = None
        self.fields = {}

    def find(self):
        s = self
        while s.parent is not None:
            s = s.parent
        return s


class Val:
    """Degree pair of a double, or of the scalar cell(s) a pointer points to."""
    __slots__ = ("l", "m", "shape", "tag")

    def __init__(self, l, m, tag):
        self.l, self.m, self.tag = l, m, tag
        self.shape = Shape()


def _exempt_fp(x):
    return x == 0.0 or math.isinf(x) or math.isnan(x)


def fmt_operand(o):
    if o is None:
        return "-"
    k = o[0]
    if k == "reg":
        return o[1]
    if k in ("fp", "int"):
        return repr(o[1])
    if k == "global":
        return "@" + o[1]
    if k == "gep":
        return "gep(%s)" % fmt_operand(o[2])
    return k


def fmt_instr(ins):
    op, dest = ins[0], ins[1]
    if op == "call":
        body = "call %s(%s)" % (ins[2], ", ".join(fmt_operand(a) for _t, a in ins[3]))
    elif op == "phi":
        body = "phi " + ", ".join(fmt_operand(a) for _l, a in ins[2])
    else:
        body = op + " " + ", ".join(fmt_operand(a) for a in ins[2:]
                                    if isinstance(a, tuple) and a and a[0] in
                                    ("reg", "fp", "int", "global", "gep", "null", "undef"))
    return ("%s = %s" % (dest, body)) if dest else body
