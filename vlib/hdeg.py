"""Homogeneity-degree typing of LLVM IR (C13).

Every SSA value v of a function gets two rational unknowns (l(v), m(v)): the
claim encoded by a solution is  "if every input x is replaced by
lambda^l(x) * mu^m(x) * x (lambda, mu > 0) then every value v computed along
the same path becomes lambda^l(v) * mu^m(v) * v".

Soundness (induction over executed instructions, doubles read as reals):
  fadd/fsub/phi/select/fmin/fmax/fmod/hypot  operands and result share one
      degree (a literal 0 / inf operand is exempt: 0 scales to 0);
  fmul  sum, fdiv  difference, fneg/fabs/copysign  same, sqrt  half, cbrt
      third, pow(x, c) with literal c:  c * d(x);
  non-zero literals, table constants and int->fp conversions: degree 0;
  fcmp a, b: equal degrees (so the outcome, hence the branch taken, is
      unchanged because lambda^d > 0); a literal 0 is exempt, a non-zero
      literal threshold therefore forces the other side to degree 0 --
      comparisons of a dimensionful quantity with a numeric threshold are NOT
      exempted: they make the model untypable and it is then decided by the
      numeric witness search or excluded from the claim by name;
  fptosi / floor / ceil / round and transcendental libm calls: argument
      degree 0, result degree 0;
  memory: one unknown per alloca / struct field / array (all elements of an
      array share one degree); a load or store equates value and cell;
  calls to functions defined in the module are inlined per call site with a
      fresh set of unknowns (helpers are degree-polymorphic); library helpers
      (sas_J1, sas_3j1x_x, polevl ...) are typed from their real bodies;
  a phi/select arm that is taken only when `fcmp x, 0.0` has established
      x == 0 and that carries x itself is exempt (the value is 0 there);
  integer values carry no degree (they may only come from fptosi of a
      degree-0 value or from counters), so integer-controlled branches are
      invariant as well.
The analysis is flow-insensitive (all instructions of a function contribute),
which only adds constraints.
"""
import fractions
import math

import z3

from .llsym.irparse import Unsupported

DIMLESS = {"sin", "cos", "tan", "asin", "acos", "atan", "sinh", "cosh", "tanh",
           "asinh", "acosh", "atanh", "exp", "exp2", "expm1", "log", "log10",
           "log2", "log1p", "erf", "erfc", "tgamma", "lgamma",
           "floor", "ceil", "trunc", "round", "rint", "nearbyint"}
SAME1 = {"fabs"}
ALLEQ = {"fmin", "fmax", "minnum", "maxnum", "fmod", "remainder", "hypot", "fdim"}
IGNORED = {"llvm.lifetime.start.p0i8", "llvm.lifetime.end.p0i8", "llvm.memset.p0i8.i64",
           "llvm.dbg.declare", "llvm.dbg.value", "printf", "abs"}


def libname(name):
    if name.startswith("llvm."):
        name = name[5:]
        if name.endswith(".f64"):
            name = name[:-4]
    return name


class Shape:
    __slots__ = ("parent", "fields")

    def __init__(self):
        self.parent = None
        self.fields = {}

    def find(self):
        s = self
        while s.parent is not None:
            s = s.parent
        return s


class Val:
    """Degree pair of a double, or of the scalar cell(s) a pointer points to."""
    __slots__ = ("l", "m", "shape", "tag")

    def __init__(self, l, m, tag):
        self.l, self.m, self.tag = l, m, tag
        self.shape = Shape()


def _exempt_fp(x):
    return x == 0.0 or math.isinf(x) or math.isnan(x)


def fmt_operand(o):
    if o is None:
        return "-"
    k = o[0]
    if k == "reg":
        return o[1]
    if k in ("fp", "int"):
        return repr(o[1])
    if k == "global":
        return "@" + o[1]
    if k == "gep":
        return "gep(%s)" % fmt_operand(o[2])
    return k


def fmt_instr(ins):
    op, dest = ins[0], ins[1]
    if op == "call":
        body = "call %s(%s)" % (ins[2], ", ".join(fmt_operand(a) for _t, a in ins[3]))
    elif op == "phi":
        body = "phi " + ", ".join(fmt_operand(a) for _l, a in ins[2])
    else:
        body = op + " " + ", ".join(fmt_operand(a) for a in ins[2:]
                                    if isinstance(a, tuple) and a and a[0] in
                                    ("reg", "fp", "int", "global", "gep", "null", "undef"))
    return ("%s = %s" % (dest, body)) if dest else body


class Typing:
    """Constraint system over one parsed module (one z3 solver, tracked)."""

    MAX_DEPTH = 14

    def __init__(self, mod, timeout_ms=60000):
        self.mod = mod
        self.sol = z3.Solver()
        self.sol.set("timeout", timeout_ms)
        self.nvals = 0
        self.track = {}          # tracker name -> reason text
        self.nconstr = 0
        self.inlined = 0
        self.instrs = 0
        self.exempted = 0
        self.callees = set()
        self.externals = set()
        self.zero = Val(z3.RealVal(0), z3.RealVal(0), "0")
        self.globals = {}

    # -- unknowns and constraints -------------------------------------------
    def fresh(self, tag="v"):
        self.nvals += 1
        return Val(z3.Real("l%d" % self.nvals), z3.Real("m%d" % self.nvals), tag)

    def const(self, l, m, tag="c"):
        f = lambda x: z3.RealVal(str(fractions.Fraction(x)))
        return Val(f(l), f(m), tag)

    def _assert(self, phi, why):
        name = "c%d" % self.nconstr
        self.nconstr += 1
        self.track[name] = why
        self.sol.assert_and_track(phi, z3.Bool(name))

    def eq(self, a, b, why):
        if a is None or b is None or a is b:
            return
        self._assert(z3.And(a.l == b.l, a.m == b.m), why)
        self._union(a, b, why)

    def lin(self, r, terms, why):
        """r = sum k_i * v_i"""
        if r is None or any(v is None for _k, v in terms):
            return
        q = lambda k: z3.RealVal(str(fractions.Fraction(k).limit_denominator(10000)))
        self._assert(z3.And(r.l == z3.Sum([q(k) * v.l for k, v in terms]),
                            r.m == z3.Sum([q(k) * v.m for k, v in terms])), why)

    def _union(self, a, b, why):
        ra, rb = a.shape.find(), b.shape.find()
        if ra is rb:
            return
        rb.parent = ra
        for k, fv in rb.fields.items():
            if k in ra.fields:
                self.eq(ra.fields[k], fv, why + " [field %s]" % (k,))
            else:
                ra.fields[k] = fv
        rb.fields = {}

    def field(self, v, k):
        r = v.shape.find()
        if k not in r.fields:
            r.fields[k] = self.fresh("%s.%s" % (v.tag, k))
        return r.fields[k]

    # -- operands -------------------------------------------------------------
    def operand(self, env, o, why):
        if o is None:
            return None
        k = o[0]
        if k == "reg":
            v = env.get(o[1])
            if v is None:
                v = env[o[1]] = self.fresh(o[1])
            return v
        if k == "fp":
            return None if _exempt_fp(o[1]) else self.zero
        if k == "global":
            g = self.globals.get(o[1])
            if g is None:
                g = self.globals[o[1]] = self.fresh("@" + o[1])
                typ = self.mod.globals.get(o[1], (None, None))[0]
                if typ is not None and _has_double(typ):
                    self._assert(z3.And(g.l == 0, g.m == 0), "table constant @%s has degree 0" % o[1])
            return g
        if k == "gep":
            return self.gep(env, o[1], self.operand(env, o[2], why), o[3], why)
        return None      # int, null, undef

    def gep(self, env, base, ptr, idx, why):
        if ptr is None:
            return None
        typ, cur = base, ptr
        for n, ix in enumerate(idx):
            if n == 0:
                continue                     # steps over the pointer: same cell class
            if typ[0] == "arr":
                typ = typ[2]
            elif typ[0] == "struct":
                if ix[0] != "int":
                    raise Unsupported("dynamic struct index")
                cur = self.field(cur, ix[1])
                typ = typ[1][ix[1]]
            else:
                raise Unsupported("gep into %r" % (typ,))
        return cur


def _has_double(typ):
    k = typ[0]
    if k in ("f64", "f32"):
        return True
    if k == "arr":
        return _has_double(typ[2])
    if k == "struct":
        return any(_has_double(t) for t in typ[1])
    return False


def _isfp(t):
    return t[0] in ("f64", "f32")


def _inst(self, fname, args, ctx="", depth=0):
    """Instantiate the body of *fname* with argument Vals (None = no degree);
    returns the Val of the returned double (or None)."""
    f = self.mod.functions[fname]
    if depth > self.MAX_DEPTH:
        raise Unsupported("call depth > %d at %s" % (self.MAX_DEPTH, ctx + fname))
    if len(args) != len(f.args):
        raise Unsupported("arity of %s" % fname)
    self.inlined += 1
    self.callees.add(fname)
    env = {}
    for (_t, reg), v in zip(f.args, args):
        if v is not None:
            env[reg] = v
    ret = self.fresh(fname + ".ret") if f.ret in ("double", "float") else None
    here = ctx + fname
    zero_edges, zero_sel = _zero_facts(f)
    for label, block in f.blocks.items():
        for ins in block:
            self.instrs += 1
            if ins[0] == "phi":
                # incoming value known to be exactly 0 on its edge: exempt
                kept = [(lab, o) for lab, o in ins[2]
                        if not (o[0] == "reg" and (lab, label, o[1]) in zero_edges)]
                self.exempted += len(ins[2]) - len(kept)
                ins = ("phi", ins[1], kept)
            elif ins[0] == "select" and ins[2][0] == "reg" and ins[2][1] in zero_sel:
                reg, arm = zero_sel[ins[2][1]]
                o = ins[3 + arm]
                if o == ("reg", reg):
                    self.exempted += 1
                    ins = ("fneg", ins[1], ins[4 - arm])      # result has the other arm's degree
            self._instr(env, ins, ret, here, depth)
    return ret


def _zero_facts(f):
    """Edges / select arms on which a register is known to be exactly zero:
    `c = fcmp une x, 0.0; br c, T, F`  => x == 0 on the edge to F (oeq: to T);
    `select c, a, b`                   => arm b is taken only when x == 0."""
    cmps = {}
    for block in f.blocks.values():
        for ins in block:
            if ins[0] == "fcmp" and ins[2] in ("une", "one", "oeq", "ueq"):
                a, b = ins[3], ins[4]
                if b[0] == "fp" and b[1] == 0.0 and a[0] == "reg":
                    cmps[ins[1]] = (a[1], 0 if ins[2] in ("oeq", "ueq") else 1)
                elif a[0] == "fp" and a[1] == 0.0 and b[0] == "reg":
                    cmps[ins[1]] = (b[1], 0 if ins[2] in ("oeq", "ueq") else 1)
    edges = set()
    for label, block in f.blocks.items():
        if block and block[-1][0] == "br" and block[-1][2][0] == "reg" and block[-1][2][1] in cmps:
            reg, arm = cmps[block[-1][2][1]]
            target = block[-1][3 + arm]
            if block[-1][3] != block[-1][4]:
                edges.add((label, target, reg))
    return edges, cmps


def _instr(self, env, ins, ret, here, depth):
    op, dest = ins[0], ins[1]
    why = "%s: %s" % (here, fmt_instr(ins))
    val = lambda o: self.operand(env, o, why)
    if op in ("fadd", "fsub", "frem"):
        r = val(("reg", dest))
        self.eq(r, val(ins[2]), why)
        self.eq(r, val(ins[3]), why)
    elif op == "fmul":
        a, b = val(ins[2]), val(ins[3])
        if a is not None and b is not None:      # a literal 0 factor: result 0, free
            self.lin(val(("reg", dest)), [(1, a), (1, b)], why)
    elif op == "fdiv":
        a, b = val(ins[2]), val(ins[3])
        if a is not None and b is not None:
            self.lin(val(("reg", dest)), [(1, a), (-1, b)], why)
    elif op == "fneg":
        self.eq(val(("reg", dest)), val(ins[2]), why)
    elif op == "fcmp":
        self.eq(val(ins[3]), val(ins[4]), why)
    elif op == "phi":
        r = val(("reg", dest))
        for _lab, o in ins[2]:
            self.eq(r, val(o), why)
    elif op == "select":
        r = val(("reg", dest))
        self.eq(r, val(ins[3]), why)
        self.eq(r, val(ins[4]), why)
    elif op == "alloca":
        val(("reg", dest))
    elif op == "load":
        typ, p = ins[2], val(ins[3])
        if p is None:
            return
        if _isfp(typ):
            self.eq(val(("reg", dest)), p, why)
        elif typ[0] == "ptr":
            env[dest] = self.field(p, "*")
    elif op == "store":
        typ, v, p = ins[2], val(ins[3]), val(ins[4])
        if p is None:
            return
        if _isfp(typ):
            self.eq(p, v, why)
        elif typ[0] == "ptr" and v is not None:
            self.eq(self.field(p, "*"), v, why)
    elif op == "getelementptr":
        env[dest] = self.gep(env, ins[2], val(ins[3]), ins[4], why)
    elif op == "bitcast":
        src, ft, tt = ins[2], ins[3], ins[4]
        v = val(src)
        if v is not None and ft[0] == "ptr":
            env[dest] = v          # same cells seen through another pointer type
        elif _isfp(ft) != _isfp(tt):
            raise Unsupported("bit reinterpretation of a double in %s" % here)
    elif op in ("sitofp", "uitofp"):
        self.eq(val(("reg", dest)), self.zero, why)
    elif op in ("fptosi", "fptoui"):
        self.eq(val(ins[2]), self.zero, why)
    elif op in ("fpext", "fptrunc"):
        self.eq(val(("reg", dest)), val(ins[2]), why)
    elif op == "ret":
        if ret is not None and ins[2] is not None:
            self.eq(ret, val(ins[2]), why)
    elif op == "call":
        self._call(env, ins, why, here, depth)
    elif op in ("br", "jmp", "switch", "unreachable", "icmp", "sext", "zext", "trunc",
                "add", "sub", "mul", "sdiv", "srem", "udiv", "urem", "and", "or", "xor",
                "shl", "ashr", "lshr"):
        pass                        # integers and control: no degree
    else:
        raise Unsupported("instruction %s in %s" % (op, here))


Typing.inst = _inst
Typing._instr = _instr


def _call(self, env, ins, why, here, depth):
    dest, callee, cargs = ins[1], ins[2], ins[3]
    if callee in IGNORED or callee.startswith("llvm.lifetime") or callee.startswith("llvm.dbg"):
        return
    if callee.startswith("llvm.memcpy") or callee.startswith("llvm.memmove"):
        self.eq(self.operand(env, cargs[0][1], why), self.operand(env, cargs[1][1], why), why)
        return
    if callee.startswith("llvm.memset"):
        return
    vals = []
    for t, o in cargs:
        if _isfp(t):
            v = self.operand(env, o, why)
            if v is None and o[0] == "fp":
                v = self.fresh("lit0")            # literal 0 argument: any degree
            vals.append(v)
        elif t[0] == "ptr":
            vals.append(self.operand(env, o, why))
        else:
            vals.append(None)
    r = self.operand(env, ("reg", dest), why) if dest is not None else None
    if callee in self.mod.functions:
        rr = self.inst(callee, vals, here + ">", depth + 1)
        if rr is not None and r is not None:
            self.eq(r, rr, why)
        return
    name = libname(callee)
    self.externals.add(name)
    fargs = [v for (t, _o), v in zip(cargs, vals) if _isfp(t)]
    if name in DIMLESS:
        for v in fargs:
            self.eq(v, self.zero, why)
        self.eq(r, self.zero, why)
    elif name in SAME1:
        self.eq(r, fargs[0], why)
    elif name == "copysign":
        self.eq(r, fargs[0], why)
    elif name in ALLEQ:
        for v in fargs:
            self.eq(r, v, why)
    elif name == "sqrt":
        self.lin(fargs[0], [(2, r)], why)
    elif name == "cbrt":
        self.lin(fargs[0], [(3, r)], why)
    elif name in ("pow", "powi"):
        e = cargs[1][1]
        if e[0] in ("fp", "int"):
            self.lin(r, [(e[1], fargs[0])], why)
        else:
            for v in fargs:
                self.eq(v, self.zero, why)
            self.eq(r, self.zero, why)
    elif name == "atan2":
        self.eq(fargs[0], fargs[1], why)
        self.eq(r, self.zero, why)
    elif name == "fma" or name == "fmuladd":
        self.lin(r, [(1, fargs[0]), (1, fargs[1])], why)
        self.eq(r, fargs[2], why)
    else:
        raise Unsupported("external function %s" % callee)


Typing._call = _call


def check(self, assumptions=()):
    r = str(self.sol.check(*assumptions))
    return r


def core_reasons(self):
    return [self.track.get(str(c), str(c)) for c in self.sol.unsat_core()]


Typing.check = check
Typing.core_reasons = core_reasons


# ---------------------------------------------------------------------------
# binding of table slots to kernel-function arguments, read from the real
# generated dispatch code (<id>_Iq / <id>_Iqxy call sites)

LEAF = ("form_volume", "shell_volume", "radius_effective", "Iq", "Fq", "Iqac", "Iqabc", "Iqxy")
NQ = {"Iq": 1, "Fq": 1, "Iqac": 2, "Iqabc": 3, "Iqxy": 2,
      "form_volume": 0, "shell_volume": 0, "radius_effective": 0}


def _defs(fn):
    d = {}
    for block in fn.blocks.values():
        for ins in block:
            if ins[1] is not None:
                d[ins[1]] = ins
    return d


def _table_slot(mod, defs, o, table_t):
    """Operand -> index of the ParameterTable field it addresses, or None."""
    seen = 0
    while o is not None and seen < 8:
        seen += 1
        if o[0] == "gep":
            base, ptr, idx = o[1], o[2], o[3]
        elif o[0] == "reg" and o[1] in defs:
            ins = defs[o[1]]
            if ins[0] == "bitcast":
                o = ins[2]
                continue
            if ins[0] != "getelementptr":
                return None
            base, ptr, idx = ins[2], ins[3], ins[4]
        else:
            return None
        if base == table_t and len(idx) >= 2 and idx[1][0] == "int":
            return idx[1][1]
        if base[0] == "arr":           # decay of an array field: look through
            o = ptr
            continue
        return None
    return None


def bindings(mod, kernel_name):
    """[(leaf, [arg kinds])] for every distinct leaf call in the dispatch
    function; kinds: ('slot', k) | ('q',) | ('out',) | ('int',)."""
    fn = mod.functions[kernel_name]
    defs = _defs(fn)
    table_t = mod.type("%struct.ParameterTable")
    out, seen = [], set()
    for block in fn.blocks.values():
        for ins in block:
            if ins[0] != "call" or ins[2] not in LEAF:
                continue
            kinds = []
            for pos, (t, o) in enumerate(ins[3]):
                if t[0] == "i":
                    kinds.append(("int",))
                elif t[0] == "ptr":
                    k = _table_slot(mod, defs, o, table_t)
                    if k is not None:
                        kinds.append(("slot", k))
                    elif o[0] == "reg" and defs.get(o[1], ("",))[0] == "alloca":
                        kinds.append(("out",))
                    else:
                        raise Unsupported("pointer argument %d of %s" % (pos, ins[2]))
                else:
                    k = None
                    if o[0] == "reg" and o[1] in defs and defs[o[1]][0] == "load":
                        k = _table_slot(mod, defs, defs[o[1]][3], table_t)
                    if k is not None:
                        kinds.append(("slot", k))
                    elif len([x for x in kinds if x == ("q",)]) < NQ[ins[2]] and \
                            all(x[0] in ("q", "out") for x in kinds):
                        kinds.append(("q",))
                    else:
                        raise Unsupported("argument %d of %s is neither q nor a table field"
                                          % (pos, ins[2]))
            key = (ins[2], tuple(kinds))
            if key not in seen:
                seen.add(key)
                out.append((ins[2], kinds))
    return out


def table_fields(source):
    """Field names of the generated ParameterTable, in order."""
    import re
    m = re.search(r"#define PARAMETER_TABLE\s*\\\n((?:.*\\\n)*.*)\n", source)
    if not m:
        raise Unsupported("PARAMETER_TABLE not found")
    names = re.findall(r"double\s+(\w+)\s*(?:\[\s*\d+\s*\])?\s*;", m.group(1))
    return names
