"""purity -- shared machinery of C11 (no dependence on call history; inputs
not modified).

* ``RecDict``: a caller-owned parameter dictionary that records every mutating
  operation applied to it (the real ``dict.copy`` of a subclass returns a
  plain ``dict``, so the library's own copies are not recorded).
* ``snapshot`` / ``same``: before/after comparison of caller-owned dicts,
  arrays, lists and CallDetails as ONE z3 formula over the entry terms (key
  presence and array shape are structure: a mismatch makes the formula false).
* ``independence``: the 2-safety obligation.  The request was executed once
  from an arbitrary pre-state; for every ordered pair of completed paths
  (p, p') the pre-state symbols of p' (every free symbol that is not a
  declared request input: stale buffer cells, named result cells, scratch
  vectors, the parameters of prefix operations) are renamed to fresh copies
  and z3 decides  H_p and H_p'[renamed]  =>  R_p == R_p'[renamed].
* ``PyNp``: the ``np`` stand-in for ``sasmodels.kernelpy`` -- ``np.empty`` of a
  float type yields an object array of fresh symbols (uninitialised memory =
  arbitrary previous contents), ``np.zeros`` exact zeros.
"""
import numpy as np
import z3

from . import symx, npshim
from .symx import Sym, SymBool, term


class RecDict(dict):
    """dict that logs mutating operations (caller-owned object)."""

    def __init__(self, *a, **kw):
        dict.__init__(self, *a, **kw)
        self.log = []

    def pop(self, key, *default):
        self.log.append(("pop", key))
        return dict.pop(self, key, *default)

    def popitem(self):
        self.log.append(("popitem", None))
        return dict.popitem(self)

    def __setitem__(self, key, value):
        self.log.append(("__setitem__", key))
        dict.__setitem__(self, key, value)

    def __delitem__(self, key):
        self.log.append(("__delitem__", key))
        dict.__delitem__(self, key)

    def update(self, *a, **kw):
        self.log.append(("update", None))
        dict.update(self, *a, **kw)

    def clear(self):
        self.log.append(("clear", None))
        dict.clear(self)

    def setdefault(self, key, default=None):
        if key not in self:
            self.log.append(("setdefault", key))
        return dict.setdefault(self, key, default)


# --------------------------------------------------------------------------
# before / after comparison

def snapshot(obj):
    """Immutable picture of a caller-owned object (element objects are kept,
    containers are copied)."""
    if isinstance(obj, dict):
        return ("dict", [(k, snapshot(v)) for k, v in obj.items()])
    if isinstance(obj, np.ndarray):
        return ("array", obj.shape, str(obj.dtype), [snapshot(v) for v in obj.ravel().tolist()]
                if obj.dtype != object else [snapshot(v) for v in obj.ravel()])
    if isinstance(obj, (list, tuple)):
        return ("seq", type(obj).__name__, [snapshot(v) for v in obj])
    if hasattr(obj, "buffer") and hasattr(obj, "pd_par"):        # details.CallDetails
        return ("details", snapshot(np.array(obj.buffer)),
                snapshot(None if obj.length is None else np.array(obj.length)),
                snapshot(None if obj.offset is None else np.array(obj.offset)))
    return ("leaf", obj)


def _leaf_eq(a, b, diffs, where):
    if symx.is_sym(a) or symx.is_sym(b):
        if isinstance(a, SymBool) or isinstance(b, SymBool):
            return symx._lb(a) == symx._lb(b)
        try:
            return term(a) == term(b)
        except TypeError:
            diffs.append("%s: %r -> %r" % (where, a, b))
            return z3.BoolVal(False)
    if isinstance(a, (float, int, np.floating, np.integer)) and \
            isinstance(b, (float, int, np.floating, np.integer)):
        ok = (a == b) or (a != a and b != b)
    else:
        ok = type(a) is type(b) and a == b
    if not ok:
        diffs.append("%s: %r -> %r" % (where, a, b))
    return z3.BoolVal(bool(ok))


def same(before, obj, where="", diffs=None):
    """(formula, diffs): *obj* now equals its earlier ``snapshot`` *before*."""
    diffs = [] if diffs is None else diffs
    now = snapshot(obj)
    conj = []

    def walk(a, b, w):
        if a[0] != b[0]:
            diffs.append("%s: %s became %s" % (w, a[0], b[0]))
            conj.append(z3.BoolVal(False))
            return
        kind = a[0]
        if kind == "leaf":
            conj.append(_leaf_eq(a[1], b[1], diffs, w))
        elif kind == "dict":
            ka, kb = [k for k, _ in a[1]], [k for k, _ in b[1]]
            for k in ka:
                if k not in kb:
                    diffs.append("%s: key %r removed" % (w, k))
                    conj.append(z3.BoolVal(False))
            for k in kb:
                if k not in ka:
                    diffs.append("%s: key %r added" % (w, k))
                    conj.append(z3.BoolVal(False))
            db = dict(b[1])
            for k, v in a[1]:
                if k in db:
                    walk(v, db[k], "%s[%r]" % (w, k))
        elif kind == "array":
            if a[1] != b[1] or a[2] != b[2]:
                diffs.append("%s: array %s/%s became %s/%s" % (w, a[1], a[2], b[1], b[2]))
                conj.append(z3.BoolVal(False))
            else:
                for i, (x, y) in enumerate(zip(a[3], b[3])):
                    walk(x, y, "%s[%d]" % (w, i))
        elif kind == "seq":
            if a[1] != b[1] or len(a[2]) != len(b[2]):
                diffs.append("%s: sequence changed type/length" % w)
                conj.append(z3.BoolVal(False))
            else:
                for i, (x, y) in enumerate(zip(a[2], b[2])):
                    walk(x, y, "%s[%d]" % (w, i))
        elif kind == "details":
            for i, nm in ((1, "buffer"), (2, "length"), (3, "offset")):
                walk(a[i], b[i], "%s.%s" % (w, nm))

    walk(before, now, where)
    live = [c for c in conj if not z3.is_true(c)]
    return (z3.And(*live) if live else z3.BoolVal(True)), diffs


class Watch:
    """Caller-owned objects of one run: ``add`` before the entry point,
    ``check`` after it -> list of (label, formula, diffs, log)."""

    def __init__(self):
        self.items = []

    def add(self, label, obj):
        self.items.append((label, obj, snapshot(obj)))
        return obj

    def check(self):
        out = []
        for label, obj, before in self.items:
            phi, diffs = same(before, obj, label)
            out.append((label, phi, diffs, list(getattr(obj, "log", []))))
        return out


# --------------------------------------------------------------------------
# results as term lists

def flatten(out):
    """Result of an entry point -> (shape signature, [z3 terms])."""
    sig, ts = [], []

    def walk(o):
        if o is None:
            sig.append("None")
        elif isinstance(o, np.ndarray):
            sig.append("array%s" % (o.shape,))
            for v in o.ravel():
                walk(v)
        elif isinstance(o, (list, tuple)):
            sig.append("%s%d" % (type(o).__name__, len(o)))
            for v in o:
                walk(v)
        elif isinstance(o, dict):
            sig.append("dict(%s)" % ",".join(str(k) for k in o))
            for v in o.values():
                walk(v)
        elif isinstance(o, SymBool):
            sig.append("b")
            ts.append(z3.If(o.t, z3.RealVal(1), z3.RealVal(0)))
        elif isinstance(o, (bool, np.bool_)):
            sig.append("b")
            ts.append(z3.RealVal(int(o)))
        elif isinstance(o, str):
            sig.append("str:" + o)
        elif callable(o) and not isinstance(o, Sym):
            sig.append("callable")
        else:
            sig.append("x")
            ts.append(term(o))
    walk(out)
    return "/".join(sig), ts


# --------------------------------------------------------------------------
# 2-safety: independence of the pre-state

class Renamer:
    """Substitute every free symbol that is not a request input by a primed
    copy (same sort)."""

    def __init__(self, is_input, suffix="'"):
        self.is_input = is_input
        self.suffix = suffix
        self.map = {}

    def pairs(self, ts):
        out = []
        for name, c in symx.consts_of(ts).items():
            if self.is_input(name):
                continue
            if name not in self.map:
                self.map[name] = z3.Const(name + self.suffix, c.sort())
            out.append((c, self.map[name]))
        return out

    def __call__(self, ts):
        ts = list(ts)
        if not ts:
            return ts
        prs = self.pairs(ts)
        if not prs:
            return ts
        return [z3.substitute(t, *prs) for t in ts]


def state_symbols(ts, is_input):
    return sorted(n for n in symx.consts_of(ts) if not is_input(n))


def independence(u, label, runs, is_input, mk_cex, sample=False, is_ref=None):
    """*runs*: list of (H, sig, terms, tag) of completed paths (exceptions
    included: sig = 'raise:<Type>', terms = []).  For every unordered pair
    (including a path with itself) prove that the two results agree whenever
    both path conditions hold, the second one with renamed pre-state.
    *is_ref*: when given, only pairs with at least one *reference* run (a run
    from the fresh state) are compared; every request has a reference run, so
    agreement of all pairs follows by transitivity of equality."""
    ren = Renamer(is_input)
    primed = [(ren(H), ren(ts)) for H, _sig, ts, _tag in runs]
    ids = [set(c.get_id() for c in H) for H, _s, _t, _g in runs]
    n_state = 0
    for i, (H, sig, ts, tag) in enumerate(runs):
        st = state_symbols(list(H) + list(ts), is_input)
        n_state = max(n_state, len(st))
        if is_ref is not None and not is_ref(i):
            continue
        for j in range(len(runs)):
            if j < i and (is_ref is None or is_ref(j)):
                continue        # unordered pairs: (j, i) was done from j
            H2, ts2 = primed[j]
            sig2, tag2 = runs[j][1], runs[j][3]
            if i == j and not st:
                # no pre-state symbol occurs in the path condition or the result
                u.r["obligations"] += 1
                u.r["discharged"] += 1
                continue
            if i != j and _contradictory(ids[i], H2):
                # the two path conditions contain c and Not(c) for a condition over
                # request inputs only: no common request, nothing to compare
                u.r["obligations"] += 1
                u.r["discharged"] += 1
                u.r["pairs_without_common_request"] = u.r.get("pairs_without_common_request", 0) + 1
                continue
            if sig != sig2 or len(ts) != len(ts2):
                phi = z3.BoolVal(False)
            else:
                eqs = [a == b for a, b in zip(ts, ts2) if a.get_id() != b.get_id()]
                phi = z3.And(*eqs) if eqs else z3.BoolVal(True)
            name = "%s[%s|%s]" % (label, tag, tag2)
            hyps = list(H) + list(H2)
            ok = prove_fast(u, name, phi, hyps, mk_cex(i, j, hyps, phi),
                            sample=sample and i == 0 and j == 0)
            if not ok and any(c.get("reproduced") and c.get("obligation") == name for c in u.r["cex"]):
                # one replayed witness of history dependence per unit is enough
                u.r["skipped_after_violation"] = u.r.get("skipped_after_violation", 0) + 1
                return n_state
    return n_state


def prove_fast(u, name, phi, hyps, on_cex, sample=False):
    """Unit.prove, except that a model of the UF-abstracted query is replayed
    first: the replay on the real code is the judge of a counterexample, so a
    witness found on the abstraction is as good as one found on the full
    query; only when it does not reproduce is the full query solved."""
    fresh = [c for c in u.r["cex"] if c.get("reproduced")]
    if len(fresh) >= u.max_cex or u.r["unknown"] >= u.max_unknown:
        return u.prove(name, phi, hyps, on_cex, abstract=True)
    neg = z3.Not(phi)
    # no UF axioms here: fewer hypotheses, so unsat is still a proof; they are
    # only added (by Unit.prove) when a witness of this query does not replay
    r, m, _s = u.solve(symx.abstract_ufs(list(hyps) + [neg]), timeout_ms=min(u.timeout_ms, 20000))
    if r == "unsat":
        u.r["obligations"] += 1
        u.r["discharged"] += 1
        if sample and len(u.r["samples"]) < 3:
            sol = z3.Solver()
            sol.add(*(list(hyps) + [neg]))
            txt = sol.to_smt2()
            u.sample({"obligation": name, "smt2_head": txt[:1200], "smt2_bytes": len(txt)})
        return True
    if r == "sat":
        try:
            info = dict(on_cex(m))
        except Exception:
            info = {"reproduced": False}
        if info.get("reproduced"):
            info.pop("block", None)
            info["obligation"] = name
            u.r["obligations"] += 1
            u.r["cex"].append(info)
            return False
    return u.prove(name, phi, hyps, on_cex, abstract=False)



def _contradictory(ids, H2):
    for c in H2:
        if z3.is_not(c):
            if c.arg(0).get_id() in ids:
                return True
        elif z3.Not(c).get_id() in ids:
            return True
    return False


# --------------------------------------------------------------------------
# numpy stand-in for sasmodels.kernelpy

def _fresh_array(shape, prefix="mem"):
    ex = symx.current()
    a = np.empty(shape, dtype=object)
    for idx in np.ndindex(a.shape):
        a[idx] = ex.fresh(prefix)
    return a


def _symbolic_mode():
    return bool(symx._CURRENT)


def _py_empty(shape, dtype=float, *a, **kw):
    if _symbolic_mode() and (npshim._is_float_dtype(dtype) or np.dtype(dtype) == object):
        return _fresh_array(shape)
    return np.empty(shape, dtype, *a, **kw)


def _py_zeros(shape, dtype=float, *a, **kw):
    if _symbolic_mode() and npshim._is_float_dtype(dtype):
        out = np.empty(shape, dtype=object)
        out[...] = Sym(symx.rat(0))
        return out
    return np.zeros(shape, dtype, *a, **kw)


def PyNp():
    return npshim.NpShim(empty=_py_empty, zeros=_py_zeros)
