"""C20 -- legacy parameter sets convert to valid parameter sets of the current model.

The real ``convert.convert_model`` (with ``_conversion_target``,
``_get_translation_table``, ``_hand_convert*``, ``_rename_magnetic_*``,
``_convert_pars``, ``_rescale_sld``, ``_pd_to_underscores``) is executed on
plain Python dicts whose *values* are z3 proxies (reals, integers for
``.npts``/``.fittable``, z3 strings for ``.type``/``.units``/``func_inter``)
and whose *key set* is decided by symbolic booleans: one presence bit per old
parameter name of the table entry and one per attribute suffix; the explorer
forks on every bit and z3 decides which presence patterns are inside the
bounded family.  Every entry of both conversion tables, every listed
``model_version`` and both values of ``use_underscore`` are enumerated.

The specification side (:class:`Spec`) is written from the conversion table
(read as data: "new name <- old name"), the real ``ModelInfo`` of the current
model (which names exist, which are dispersible, which are SLDs, whether the
model is magnetic) and, for the hand-converted models, the inverse formulas
documented in convert.py / revert_pars.  It never calls the code under test.
The same specification code runs in two modes: on proxies it yields z3
formulas (proved per path), on floats/strings it is the replay oracle.
"""
import fractions
import math
import os
import re
import traceback

import z3

from vlib import ROOT, symx
from vlib.harness import Unit, pmap
from vlib.symx import Sym, SymBool, term

from sasmodels import convert
from sasmodels.conversion_table import CONVERSION_TABLE
from sasmodels.core import load_model_info

VERSIONS = [(3, 1, 2), (4, 1, 0), (4, 2, 0), (5, 0, 4), (5, 1, 0)]
PD_SUFFIX = {".width": "_pd", ".npts": "_pd_n", ".nsigmas": "_pd_nsigma", ".type": "_pd_type"}
FIT_SUFFIX = [".lower", ".upper", ".fittable", ".std", ".units"]
SUFFIXES = list(PD_SUFFIX) + FIT_SUFFIX
PD_TYPES = ["gaussian", "rectangle", "lognormal", "schulz", "uniform", "boltzmann", "array"]
FUNC_INTER = ['Erf(|nu|*z)', 'RPower(z^|nu|)', 'LPower(z^|nu|)', 'RExp(-|nu|*z)', 'LExp(-|nu|*z)']
WITNESS_CAP = 3       # replayed witnesses per (unit, path-fixed finding)
NOSPEC = object()     # value deliberately not specified (key must still be valid)
_REAL_MATH = math


# --------------------------------------------------------------------------
# string proxy (values only; never used as a dict key by the code under test)

class SymStr:
    __slots__ = ("t",)
    __hash__ = None

    def __init__(self, t):
        self.t = t

    def __eq__(self, o):
        if isinstance(o, SymStr):
            return SymBool(self.t == o.t)
        if isinstance(o, str):
            return SymBool(self.t == z3.StringVal(o))
        return False

    def __ne__(self, o):
        r = self.__eq__(o)
        return (not r) if isinstance(r, bool) else ~r

    def __repr__(self):
        return "SymStr(%s)" % self.t


class MathShim:
    """``convert.math`` while proxies are in flight (teubner_strey hand conversion)."""
    pi = math.pi

    @staticmethod
    def sqrt(x):
        return x.sqrt() if isinstance(x, Sym) else math.sqrt(x)

    @staticmethod
    def fabs(x):
        return abs(x) if isinstance(x, Sym) else math.fabs(x)

    def __getattr__(self, name):
        return getattr(math, name)


# --------------------------------------------------------------------------
# which keys exist in the current model (from the real ModelInfo)

def valid_keys(info, use_underscore):
    out = set()
    for p in info.parameters.call_parameters:
        out.add(p.id)
        for s in FIT_SUFFIX:
            out.add(p.id + s)
        if p.polydisperse:
            for dot, us in PD_SUFFIX.items():
                out.add(p.id + (us if use_underscore else dot))
    return out


_SPLIT = sorted(list(PD_SUFFIX) + list(PD_SUFFIX.values()) + FIT_SUFFIX, key=len, reverse=True)


def split_key(k):
    for s in _SPLIT:
        if k.endswith(s) and len(k) > len(s):
            return k[:-len(s)], s
    return k, ""


def _mag_current(n, ver):
    """Current name of a 4.1-style magnetic name (documented renames of 4.2 / 5.1)."""
    if ver < (4, 2, 0):
        if n.startswith('M0:'):
            n = n[3:] + '_M0'
        elif n.startswith('mtheta:'):
            n = n[7:] + '_mtheta'
        elif n.startswith('mphi:'):
            n = n[5:] + '_mphi'
        elif n.startswith('up:'):
            n = 'up_' + n[3:]
    if ver <= (5, 0, 4) and n == 'up_angle':
        n = 'up_phi'
    return n


# --------------------------------------------------------------------------
# specification of one table entry

class Item:
    """One old parameter name of a table entry and where it has to go."""
    __slots__ = ("old", "new", "par", "pd", "vfun", "lfun", "wfun", "afun", "sld", "sort")

    def __init__(self, old, new, par, sld):
        self.old, self.new, self.par, self.sld = old, new, par, sld
        self.pd = bool(par is not None and par.polydisperse)
        cache = {}

        def times1e6(v, inp):
            if not isinstance(v, Sym):
                return v * 1e6
            k = v.t.get_id()
            if k not in cache:
                cache[k] = v * 1e6
            return cache[k]
        scale = times1e6 if sld else (lambda v, inp: v)
        self.vfun = scale           # value
        self.lfun = scale           # .lower / .upper (same unit as the value)
        self.wfun = lambda v, inp: v    # .width (relative, or absolute for angles: unit unchanged)
        self.afun = lambda v, inp: v    # every other attribute
        self.sort = "real"


class Spec:
    def __init__(self, ver, newname):
        raw = CONVERSION_TABLE[ver][newname]
        self.ver, self.tablename = ver, newname
        self.oldmodel, table = raw[0], raw[1]
        cur = newname.split(':')[0]
        info1 = load_model_info(cur)
        # later tables rename again (broad_peak 3.1.2 -> 4.x names -> 5.1 names)
        chain, name = [], cur
        for v2 in sorted(CONVERSION_TABLE):
            if v2 <= ver:
                continue
            for n2, e2 in CONVERSION_TABLE[v2].items():
                if e2[0] == name:
                    chain.append(e2[1])
                    name = n2.split(':')[0]
                    break
        self.curname = name
        self.info = info = load_model_info(name)
        self.magnetic = info.parameters.nmagnetic > 0
        self.lookup = dict((p.id, p) for p in info.parameters.call_parameters)
        self.vectors = dict((p.id, p.length) for p in info.parameters.kernel_parameters
                            if p.length > 1)
        vec1 = dict((p.id, p.length) for p in info1.parameters.kernel_parameters if p.length > 1)
        pairs = []
        for new, old in table.items():
            if old is None:
                continue
            if new in vec1:     # the table names a vector: its elements are old1..oldN
                for k in range(1, vec1[new] + 1):
                    if new + str(k) not in table:
                        pairs.append((new + str(k), old + str(k)))
            else:
                pairs.append((new, old))
        for common in ("scale", "background"):
            if common not in table and common not in table.values():
                pairs.append((common, common))
        rescale = (ver == (3, 1, 2) and not info1.structure_factor)
        self.items = {}
        for n1, old in pairs:
            n = _mag_current(n1, ver)
            for t2 in chain:
                for new2, old2 in t2.items():
                    if old2 == n:
                        n = new2
                        break
            par = self.lookup.get(n)
            sld = rescale and ((par is not None and par.type == 'sld') or n.endswith('_M0'))
            assert old not in self.items, (newname, old)
            self.items[old] = Item(old, n, par, sld)
        self.required = []        # keys the hand conversion needs (formula inputs)
        self.extra = []           # (final base, dot suffix, value) produced unconditionally
        self.fixed_scale = False
        self._valid = {}
        self.teubner_mandatory = False
        self.assume = lambda inp: []
        self.outside = []
        if ver == (3, 1, 2):
            self._hand(newname)

    # -- hand-converted models: inverse formulas from convert.py / revert_pars ----
    def _hand(self, name):
        it = self.items
        if name == 'core_shell_parallelepiped':
            # 3.x rims are not dispersible; the converter pins their width to 0
            for r, n in (("rimA", "thick_rim_a"), ("rimB", "thick_rim_b"), ("rimC", "thick_rim_c")):
                it[r].pd = False
                self.extra.append((n, ".width", 0.0))
        elif name == 'core_shell_ellipsoid:1':
            self.required = ['equat_core', 'equat_shell', 'polar_core', 'polar_shell']
            it['equat_shell'].vfun = lambda v, inp: inp['equat_shell'] - inp['equat_core']
            it['polar_core'].vfun = lambda v, inp: inp['polar_core'] / inp['equat_core']
            it['polar_shell'].vfun = lambda v, inp: (
                (inp['polar_shell'] - inp['polar_core']) / (inp['equat_shell'] - inp['equat_core']))
            for k in ('equat_shell', 'polar_core', 'polar_shell'):
                it[k].lfun = it[k].wfun = None
            self.assume = lambda inp: (
                [inp['equat_core'] > 0, inp['equat_shell'] > inp['equat_core']]
                if all(k in inp for k in self.required) else [])
            self.outside.append("core_shell_ellipsoid:1: width and fit limits of equat_shell, "
                                "polar_core, polar_shell (no documented conversion)")
        elif name == 'hollow_cylinder':
            self.required = ['radius', 'core_radius']
            it['radius'].vfun = lambda v, inp: inp['radius'] - inp['core_radius']
            # revert_pars: old width = new width * thickness / outer radius
            it['radius'].wfun = lambda v, inp: v * inp['radius'] / (inp['radius'] - inp['core_radius'])
            it['radius'].lfun = None
            self.assume = lambda inp: (
                [inp['core_radius'] > 0, inp['radius'] > inp['core_radius']]
                if all(k in inp for k in self.required) else [])
            self.outside.append("hollow_cylinder: fit limits of the old outer radius")
        elif name == 'multilayer_vesicle':
            it.pop('scale')
            item = Item('scale', 'volfraction', self.lookup.get('volfraction'), False)
            it['scale'] = item
            self.fixed_scale = True
        elif name == 'polymer_micelle':
            it['ndensity'].vfun = it['ndensity'].lfun = lambda v, inp: v / 1e15
        elif name == 'rpa':
            for k in ('La', 'Lb', 'Lc', 'Ld'):
                it[k].vfun = it[k].lfun = None
            self.outside.append("rpa: values/limits of La..Ld (unit of the 3.x scattering lengths "
                                "is not documented in the tree; the hand conversion tests the new "
                                "names L1..L4 before the table renames La..Ld, so it never fires)")
        elif name == 'spherical_sld':
            def shape(v, inp):
                if isinstance(v, SymStr):
                    r = Sym(z3.IntVal(0))
                    for i, f in reversed(list(enumerate(FUNC_INTER))):
                        r = Sym(z3.If(v.t == z3.StringVal(f), z3.IntVal(i), r.t))
                    return r
                return FUNC_INTER.index(v) if v in FUNC_INTER else 0
            for j in range(11):
                k = "func_inter%d" % j
                it[k].sort = "func"
                # only specified while func_inter0..j are all present (the code's while loop)
                it[k].vfun = (lambda v, inp, j=j: shape(v, inp)
                              if all("func_inter%d" % i in inp for i in range(j + 1)) else NOSPEC)
            it['n_shells'].vfun = None
            self.outside.append("spherical_sld: value of n_shells (rewritten by the hand conversion "
                                "from the number of func_inter keys), func_inter1..10 are concrete strings")
        elif name == 'teubner_strey':
            # table comment: "parameters are completely rewritten in convert.py";
            # the 3.x parameters are scale, c1, c2, background
            self.items = {'background': it['background']}
            for k in ('scale', 'c1', 'c2'):
                x = Item(k, None, None, False)
                x.vfun = x.lfun = x.wfun = x.afun = None
                x.pd = False
                self.items[k] = x
            self.required = ['scale', 'c1', 'c2']
            self.fixed_scale = True
            self.assume = lambda inp: _teubner_pre(inp) if all(
                k in inp for k in self.required) else []
            self.outside.append("teubner_strey: the identity names listed in the table are not 3.x "
                                "parameters; inputs are the 3.x parameters scale, c1, c2, background; "
                                "attributes of scale/c1/c2 are not specified")

    def valid(self, us):
        if us not in self._valid:
            self._valid[us] = valid_keys(self.info, us)
        return self._valid[us]

    # -- the property, as a list of individual checks ---------------------------------
    def expected(self, inp, us):
        """final key -> (value | NOSPEC, source key)."""
        exp = {}
        for key, v in inp.items():
            old, s = split_key(key)
            item = self.items[old]
            if item.new is None:
                continue
            fun = (item.vfun if s == "" else item.lfun if s in (".lower", ".upper")
                   else item.wfun if s == ".width" else item.afun)
            if item.sld and s == ".std":
                fun = None
            val = NOSPEC if fun is None else fun(v, inp)
            fkey = item.new + (PD_SUFFIX[s] if (us and s in PD_SUFFIX) else s)
            assert fkey not in exp, fkey
            exp[fkey] = (val, key)
        return exp


_SPECS = {}


def get_spec(ver, newname):
    if (ver, newname) not in _SPECS:
        _SPECS[(ver, newname)] = Spec(ver, newname)
    return _SPECS[(ver, newname)]


class IdentEq:
    """An equality whose two sides are structurally identical z3 terms (still sent to z3,
    but it cannot fail, so it needs no selector bit)."""
    __slots__ = ("t",)

    def __init__(self, t):
        self.t = t


def same(a, b, symbolic):
    """a == b.  Symbolic mode: a z3 Bool (wrapped in IdentEq when both sides are the same
    term), or a Python bool when the two sides are of different kinds / plain Python values;
    replay mode: a Python bool (numbers: rtol 1e-9)."""
    strs = (str, SymStr)
    if isinstance(a, strs) or isinstance(b, strs):
        if not (isinstance(a, strs) and isinstance(b, strs)):
            return False
        if symbolic:
            ta = a.t if isinstance(a, SymStr) else z3.StringVal(a)
            tb = b.t if isinstance(b, SymStr) else z3.StringVal(b)
            return IdentEq(ta == tb) if ta.eq(tb) else ta == tb
        return a == b
    num = (int, float, Sym, fractions.Fraction)
    if not (isinstance(a, num) and isinstance(b, num)):
        return bool(a == b)
    if symbolic:
        ta, tb = term(a), term(b)
        return IdentEq(ta == tb) if ta.eq(tb) else ta == tb
    a, b = float(a), float(b)
    return a == b or abs(a - b) <= 1e-9 * max(abs(a), abs(b))


def is_false(phi):
    return phi is False or (phi is not True and not isinstance(phi, IdentEq) and z3.is_false(phi))


class Ob:
    __slots__ = ("kind", "key", "phi", "what")

    def __init__(self, kind, key, phi, what):
        self.kind, self.key, self.phi, self.what = kind, key, phi, what


def exception_key(spec, exc):
    tb = traceback.extract_tb(exc.__traceback__)
    fn = "?"
    for fr in tb:
        if fr.filename.endswith("convert.py"):
            fn = fr.name
    key = "C20/exception/%s/%s" % (type(exc).__name__, fn)
    if fn.startswith("_hand_convert_3") or isinstance(exc, (KeyError, ZeroDivisionError)):
        key += "/" + spec.curname
    return key


def _invalid_key_class(spec, k):
    base, _s = split_key(k)
    if ':' in base:
        return "C20/invalid-key/magnetic-4.1-style-name"
    if base == 'up_theta' and not spec.magnetic:
        return "C20/invalid-key/up_theta-on-nonmagnetic-model"
    m = re.match(r"^(.*?)(\d+)$", base)
    if m and m.group(1) in spec.vectors and not 1 <= int(m.group(2)) <= spec.vectors[m.group(1)]:
        return "C20/invalid-key/%s/vector-index-out-of-range" % spec.curname
    return "C20/invalid-key/%s/%s" % (spec.curname, base)


def _value_class(spec, src, got, want, inp, symbolic):
    old, s = split_key(src)
    item = spec.items[old]
    if item.sld and s in (".lower", ".upper"):
        return "C20/value/sld-fit-limits"
    return "C20/value/%s/%s" % (spec.curname, re.sub(r"\d+", "#", old))


def checks(spec, us, mv, inp, result, exc, symbolic):
    """All individual checks of the property for one call.  *inp*: the parameter
    set given (key -> proxy/number/string), *result*: (name, pars) or None."""
    T = bool
    obs = []
    if exc is not None:
        obs.append(Ob("exception", exception_key(spec, exc), T(False),
                      "%s: %s" % (type(exc).__name__, exc)))
        return obs
    name, out = result
    if mv > max(CONVERSION_TABLE):
        # saved by a release later than every table: nothing to convert
        obs.append(Ob("name", "C20/later-version/name-changed", T(name == spec.oldmodel),
                      "name %r for a set newer than every table" % (name,)))
        obs.append(Ob("valid-key", "C20/later-version/keys-changed",
                      T(set(out) == set(inp)), "key set changed"))
        for k in inp:
            if k in out:
                obs.append(Ob("value", "C20/later-version/value-changed",
                              same(out[k], inp[k], symbolic), "value of %r changed" % k))
        return obs
    obs.append(Ob("name", "C20/name/%s" % spec.tablename, T(name == spec.curname),
                  "returned name %r, current model is %r" % (name, spec.curname)))
    ok = spec.valid(us)
    for k in out:
        if k in ok:
            obs.append(Ob("valid-key", None, True, ""))
        else:
            obs.append(Ob("valid-key", _invalid_key_class(spec, k), False,
                          "returned key %r does not exist in model %s" % (k, spec.curname)))
    exp = spec.expected(inp, us)
    for fkey, (want, src) in exp.items():
        if fkey not in out:
            obs.append(Ob("value", _value_class(spec, src, None, want, inp, symbolic), T(False),
                          "old %r must arrive at %r, which is missing from the result" % (src, fkey)))
        elif want is not NOSPEC:
            obs.append(Ob("value", _value_class(spec, src, out[fkey], want, inp, symbolic),
                          same(out[fkey], want, symbolic),
                          "" if symbolic else
                          "old %r -> %r: got %r, specified %r" % (src, fkey, out[fkey], want)))
    for base, dot, val in spec.extra:
        fkey = base + (PD_SUFFIX[dot] if (us and dot in PD_SUFFIX) else dot)
        obs.append(Ob("default", "C20/default/%s/%s" % (spec.curname, fkey),
                      same(out[fkey], val, symbolic) if fkey in out else T(False),
                      "%r must be %r" % (fkey, val)))
    defaults = [("scale", 1.0), ("background", 0.0)]
    if spec.magnetic:
        defaults.append(("up_theta", 90.0))
    for k, val in defaults:
        if k in exp and not (k == "scale" and spec.fixed_scale):
            continue
        if k == "up_theta" and "up_phi" in exp:
            pass    # 3.x sets have a single in-plane angle: up_theta is pinned to 90
        obs.append(Ob("default", "C20/default/%s" % k,
                      same(out[k], val, symbolic) if k in out else T(False),
                      "" if symbolic else
                      "%r must default to %r (got %r)" % (k, val, out.get(k, "<missing>"))))
    if spec.tablename == 'teubner_strey' and spec.ver == (3, 1, 2):
        obs.extend(_teubner(spec, inp, out, symbolic))
    return obs


def _sqrt(x):
    return x.sqrt() if isinstance(x, Sym) else _REAL_MATH.sqrt(x)


def _teubner_pre(inp):
    """3.x Teubner-Strey sets that describe a microemulsion at the contrast the converter
    assumes: a2, c2 > 0, 4 a2 c2 > c1^2 (a peak exists), and a real volume fraction."""
    a, c1, c2 = inp['scale'], inp['c1'], inp['c2']
    pre = [a > 0, c2 > 0, 4 * a * c2 > c1 * c1]
    try:
        xi = _sqrt(2 / (0.5 * c1 / c2 + _sqrt(a / c2)))
        pre.append(xi / (1e-4 * 8.0 * _REAL_MATH.pi * c2) <= 0.25)
    except (ValueError, ZeroDivisionError):
        pre.append(False)
    return pre


_TS_K = 1e-4 * 8.0 * _REAL_MATH.pi


def _ts_relation(inp, xi, ks, phi, drho):
    """old scale, c1, c2 times s versus a2, c1', c2' of the documented forward relation
    (revert_pars / model docs): k = 2 pi xi/d, a2 = (1+k^2)^2, c1' = 2 xi^2 (1-k^2), c2' = xi^4,
    s = 1e-4 * 8 pi phi (1-phi) drho^2 c2'/xi;  old scale = a2/s, old c1 = c1'/s, old c2 = c2'/s."""
    a2 = (1.0 + ks * ks) * (1.0 + ks * ks)
    c1 = 2.0 * xi * xi * (1.0 - ks * ks)
    c2 = xi * xi * xi * xi
    s = _TS_K * phi * (1.0 - phi) * drho * drho * c2 / xi
    return s, (("scale", a2), ("c1", c1), ("c2", c2))


def _ts_lemmas(inp, xi, ks, phi, r):
    """Facts about the converter's outputs from which the forward relation follows by
    polynomial reasoning (r stands for sqrt(a2/c2))."""
    a, c1, c2 = term(inp['scale']), term(inp['c1']), term(inp['c2'])
    i1 = c1 / (2 * c2)
    S = i1 + r
    return [z3.And(r * r * c2 == a, r > 0),
            z3.And(r > i1, S > 0),
            z3.And(xi * xi * S == 2, xi > 0),
            z3.And(ks * ks * S == r - i1, ks > 0),
            phi * (1 - phi) * symx.rat(_TS_K) * c2 == xi]


def _teubner_script(inp, out):
    """Proof script for the symbolic mode: [(name, hypotheses beyond the unit assumptions,
    goal, use sqrt axioms)].  Steps 1-5 establish the lemmas for the real output terms; the
    last three derive the relation from the lemmas alone with the output terms abstracted
    to fresh variables (sound: proved for all values of the fresh variables)."""
    xi, phi = term(out["xi"]), term(out["volfraction_a"])
    ks = term(2.0 * _REAL_MATH.pi * out["xi"] / out["d"])
    r = term(_sqrt(inp['scale'] / inp['c2']))
    lem = _ts_lemmas(inp, xi, ks, phi, r)
    steps = []
    for i, g in enumerate(lem):
        steps.append(("lemma %d" % (i + 1), lem[:i], g, True, False))
    X, KS, PH, R = z3.Reals("ts|xi ts|k ts|phi ts|r")
    alem = _ts_lemmas(inp, X, KS, PH, R)
    drho = out["sld_a"] - out["sld_b"]
    s, rel = _ts_relation(inp, Sym(X), Sym(KS), Sym(PH), drho)
    for nm, new in rel:
        steps.append(("old %s * s = new (from the lemmas)" % nm, alem,
                      term(inp[nm]) * term(s) == term(new), False, True))
    return steps


def _teubner(spec, inp, out, symbolic):
    """Replay-mode check of the forward relation (symbolic mode: see _teubner_script)."""
    need = ("volfraction_a", "xi", "d", "sld_a", "sld_b")
    if symbolic or not all(k in out for k in need) \
            or not all(k in inp for k in ("scale", "c1", "c2")):
        return []
    obs = []
    try:
        ks = 2.0 * _REAL_MATH.pi * out["xi"] / out["d"]
        s, rel = _ts_relation(inp, out["xi"], ks, out["volfraction_a"], out["sld_a"] - out["sld_b"])
        vals = [(nm, new / s) for nm, new in rel]
    except ZeroDivisionError:
        vals = [(nm, None) for nm in ("scale", "c1", "c2")]
    for nm, v in vals:
        obs.append(Ob("teubner", "C20/value/teubner_strey/%s" % nm,
                      v is not None and same(v, inp[nm], False),
                      "forward relation gives old %r = %r, given %r" % (nm, v, inp[nm])))
    return obs


# --------------------------------------------------------------------------
# symbolic inputs

def _sort_of(spec, key):
    old, s = split_key(key)
    if s in (".npts", ".fittable"):
        return "int"
    if s in (".type", ".units"):
        return "str"
    if s == "" and spec.items[old].sort == "func":
        return "func" if old == "func_inter0" else "const-func"
    return "real"


def _symbol(spec, key):
    srt = _sort_of(spec, key)
    if srt == "int":
        return Sym(z3.Int("v|" + key))
    if srt in ("str", "func"):
        return SymStr(z3.String("v|" + key))
    if srt == "const-func":
        return FUNC_INTER[0]
    return Sym(z3.Real("v|" + key))


def _concrete(m, sym):
    if isinstance(sym, SymStr):
        return m.eval(sym.t, model_completion=True).as_string()
    if isinstance(sym, Sym):
        v = m.eval(sym.t, model_completion=True)
        if z3.is_int_value(v):
            return v.as_long()
        if z3.is_rational_value(v):
            return v.numerator_as_long() / v.denominator_as_long()
        return float(symx.model_float(m, sym.t))
    return sym


def real_convert(spec, us, mv, pars):
    """The real code on plain Python values (stubs removed)."""
    saved = convert.math
    convert.math = _REAL_MATH
    try:
        given = dict(pars)
        try:
            res = convert.convert_model(spec.oldmodel, dict(pars), us, mv)
            return given, res, None
        except Exception as e:     # noqa
            return given, None, e
    finally:
        convert.math = saved


def concrete_findings(spec, us, mv, pars):
    given, res, exc = real_convert(spec, us, mv, pars)
    try:
        obs = checks(spec, us, mv, given, res, exc, symbolic=False)
    except (ZeroDivisionError, OverflowError, ValueError):
        return []
    return [o for o in obs if not o.phi]


def _jsonable(pars):
    return dict((k, (v if isinstance(v, (int, float, str)) else repr(v))) for k, v in pars.items())


# --------------------------------------------------------------------------
# one unit = one (table entry, model_version, use_underscore)

def unit_name(cfg):
    ver, newname, mv, us, _fam = cfg
    sl = _fam.get("slice", (0, 1))
    return "%s<-%s/table=%s/saved=%s/%s%s" % (
        newname, CONVERSION_TABLE[ver][newname][0], ".".join(map(str, ver)),
        ".".join(map(str, mv)), "underscore" if us else "dot",
        ("/reversed-order" if _fam.get("reversed") else "")
        + ("/slice%d of %d" % (sl[0] + 1, sl[1]) if sl[1] > 1 else ""))


def unit(cfg):
    ver, newname, mv, us, fam = cfg
    name = unit_name(cfg)
    u = Unit(name, timeout_ms=60000)
    u.functions("sasmodels.convert.convert_model", "sasmodels.convert._conversion_target",
                "sasmodels.convert._get_translation_table", "sasmodels.convert._hand_convert",
                "sasmodels.convert._hand_convert_3_1_2_to_4_1",
                "sasmodels.convert._rename_magnetic_pars", "sasmodels.convert._rename_magnetic_angles",
                "sasmodels.convert._convert_pars", "sasmodels.convert._rescale_sld",
                "sasmodels.convert._is_sld", "sasmodels.convert._pd_to_underscores",
                "sasmodels.convert._dot_pd_to_underscore_pd",
                "sasmodels.conversion_table.CONVERSION_TABLE (live)",
                "sasmodels.core.load_model_info (real ModelInfo of the current model)")
    spec = get_spec(ver, newname)
    for o in spec.outside:
        u.note("outside the claim: " + o)
    convert.math = MathShim()

    olds = list(spec.items)
    n = len(olds)

    def applicable(old, s):
        item = spec.items[old]
        if item.new is None:
            return False
        if s in PD_SUFFIX:
            return item.pd
        return True

    syms = {}
    for o in olds:
        syms[o] = _symbol(spec, o)
        for s in SUFFIXES:
            if applicable(o, s):
                syms[o + s] = _symbol(spec, o + s)

    # Bounded family of presence patterns.  Which keys are present is a function of
    # symbolic integers (z3 Ints, constrained below); the explorer forks on them by
    # bisection and z3 decides which sides are feasible:
    #   MODE = 0: every old name present except name number ABSENT (-1: none absent)
    #   MODE = 1: only names number ONLY1 and ONLY2 present (-1: nothing / ONLY2 = ONLY1: one)
    #   SUFFIX = -1: values only; 0..8: plus that one attribute suffix for every present
    #            parameter it applies to; 9: all nine attribute suffixes
    MODE, ABSENT, ONLY1, ONLY2, SUFFIX = [Sym(z3.Int(x)) for x in
                                          ("MODE", "ABSENT", "ONLY1", "ONLY2", "SUFFIX")]
    A = [MODE >= 0, MODE <= (1 if fam["present"] > 0 or fam["empty"] else 0),
         ABSENT >= -1, ABSENT <= (n - 1 if fam["absent"] else -1),
         ONLY1 >= -1, ONLY1 <= (n - 1 if fam["present"] >= 1 else -1),
         ONLY2 >= ONLY1, ONLY2 <= (n - 1 if fam["present"] >= 2 else ONLY1),
         SUFFIX >= -1, SUFFIX <= len(SUFFIXES)]
    if fam["suffix"] != "none/one/all":
        A.append((SUFFIX <= -1) | (SUFFIX >= len(SUFFIXES)))
    k, K = fam.get("slice", (0, 1))
    if K > 1:   # large entries are split over several units (the exceptional name mod K)
        A.append(((MODE <= 0) & (((ABSENT + 1) % K) == k)) | ((MODE >= 1) & (((ONLY1 + 1) % K) == k)))
    A.extend(spec.assume(dict((k, v) for k, v in syms.items())))
    A = [symx._lb(a) for a in A]

    def pick(var, lo, hi):
        """concrete value of the symbolic integer in [lo, hi]: bisection by forks"""
        while lo < hi:
            mid = (lo + hi) // 2
            if var <= mid:
                hi = mid
            else:
                lo = mid + 1
        return lo

    def fn():
        ex = symx.current()
        if pick(MODE, 0, 1) == 0:
            absent = pick(ABSENT, -1, n - 1)
            present = [i != absent for i in range(n)]
        else:
            one = pick(ONLY1, -1, n - 1)
            two = pick(ONLY2, one, n - 1) if one >= 0 else one
            present = [i in (one, two) for i in range(n)]
        sfx = pick(SUFFIX, -1, len(SUFFIXES))
        pars = {}
        for i, o in (reversed(list(enumerate(olds))) if fam.get("reversed") else enumerate(olds)):
            if not present[i]:
                continue
            pars[o] = syms[o]
            for j, sx in enumerate(SUFFIXES):
                # attributes are stored with their parameter
                if (sfx == j or sfx == len(SUFFIXES)) and (o + sx) in syms:
                    pars[o + sx] = syms[o + sx]
        ex.note("inp", dict(pars))
        return convert.convert_model(spec.oldmodel, pars, us, mv)

    ex = symx.Explorer(timeout_ms=20000, max_paths=fam.get("max_paths", 6000), max_forks=600)
    paths = ex.explore(fn, A)
    u.absorb(ex, paths)
    u.reachable(name, A)

    def handler(inp, kinds, want_key=None, sels=None):
        def h(m):
            pars = dict((k, _concrete(m, v)) for k, v in inp.items())
            bad = [o for o in concrete_findings(spec, us, mv, pars) if o.kind in kinds]
            if want_key is not None:
                hit = [o for o in bad if o.key == want_key]
            else:
                hit = bad[:1] and [o for o in bad if o.key == bad[0].key]
            block = None
            if hit:
                block = z3.BoolVal(True)
                if sels is not None:
                    block = z3.Or(*[b for (key, b) in sels if key == hit[0].key])
            call = "convert_model(%r, %r, %r, %r)" % (spec.oldmodel, pars, us, mv)
            return {"reproduced": bool(hit),
                    "key": hit[0].key if hit else (want_key or "C20/%s/unreproduced" % kinds[0]),
                    "what": ("%s: %s" % (call[:600], hit[0].what)) if hit
                            else "%s: solver model does not violate %s on the real code (%s)" % (
                                call[:600], kinds, [o.key for o in bad][:4]),
                    "inputs": {"table": list(ver), "entry": newname, "oldmodel": spec.oldmodel,
                               "pars": _jsonable(pars), "use_underscore": us,
                               "model_version": list(mv), "kinds": list(kinds),
                               "finding": hit[0].key if hit else None},
                    "block": block}
        return h

    # the Teubner-Strey precondition mentions sqrt: its hypotheses need the sqrt axioms, or
    # the solver's witnesses would not satisfy the precondition on the real code
    uf_in_hyps = bool(symx.apps_of(A))
    validated = False
    seen = {}
    largest = max([len(q.notes.get("inp", {})) for q in paths if not q.cut] or [0])
    for pi, p in enumerate(paths):
        if p.cut:
            continue
        H = p.constraints()
        inp = p.notes.get("inp", {})
        obs = checks(spec, us, mv, inp, p.result, p.exc, symbolic=True)
        u.sample({"unit": name, "path": pi, "keys_given": sorted(inp)[:12],
                  "n_checks": len(obs), "exception": repr(p.exc) if p.exc else None})
        # checks whose truth is fixed by the path (exception, name, key validity): one replayed
        # counterexample per distinct failing finding, so that they do not mask each other
        failing = {}
        for o in obs:
            if o.kind != "teubner" and is_false(o.phi):
                failing.setdefault((o.kind, o.key), o)
        for (kind, key), o in failing.items():
            # the same path-fixed finding on many presence patterns of one unit: prove and
            # replay the first few witnesses, count the rest
            seen[key] = seen.get(key, 0) + 1
            if seen[key] > WITNESS_CAP:
                continue
            u.prove("%s [%s]" % (kind, key), z3.BoolVal(False), H, handler(inp, (kind,), key),
                    axioms=uf_in_hyps)
        if p.exc is not None:
            continue
        # everything else in one query: structural checks that hold plus value transport and
        # defaults, each behind a free selector bit so that a known finding on one parameter
        # can be excluded (selector forced off) without hiding the others
        # Checks that are literally true on this path (key exists; carried value is the
        # very same term) need no solver; the others go to z3 in one query.
        nfixed = sum(1 for o in obs if o.kind in ("name", "valid-key") and o.phi is True)
        grp = [o for o in obs if o.kind in ("value", "default") and not is_false(o.phi)]
        ident = [o.phi.t for o in grp if isinstance(o.phi, IdentEq)]
        grp = [o for o in grp if not isinstance(o.phi, IdentEq) and o.phi is not True]
        u.r["identical_terms"] = u.r.get("identical_terms", 0) + len(ident)
        sels = [(o.key, z3.Bool("sel|%d" % i)) for i, o in enumerate(grp)]
        phi = z3.And(*(ident + [z3.Implies(b, o.phi) for o, (_k, b) in zip(grp, sels)])) \
            if (ident or grp) else z3.BoolVal(True)
        u.prove("path: name + %d keys exist (fixed by the path); %d values carried as the identical "
                "term, %d other values/defaults" % (nfixed - 1, len(ident), len(grp)),
                phi, H, handler(inp, ("value", "default"), None, sels),
                axioms=uf_in_hyps, max_findings=24, sample=(pi == 0 and bool(grp)))
        if spec.tablename == 'teubner_strey' and ver == (3, 1, 2) and "ts" not in seen \
                and mv <= max(CONVERSION_TABLE) and all(k in inp for k in spec.required):
            # same terms on every path that has scale, c1, c2: proved once per unit from the
            # unit-level assumptions alone (every path's hypotheses contain them)
            seen["ts"] = 1
            positive = [symx._lb(x) for x in _teubner_pre(syms)[:2]]      # a2 > 0, c2 > 0
            for nm, hyps, goal, ax, abstract in _teubner_script(inp, p.result[1]):
                ok = u.prove("teubner_strey %s" % nm, goal, (positive if abstract else A) + hyps,
                             handler(inp, ("teubner",)), axioms=ax)
                if not ok:
                    break
        # translator validation: evaluate the result terms at concrete inputs, compare with
        # the real code on floats (once per unit, on the largest explored parameter set)
        if not validated and len(inp) == largest:
            validated = True
            _validate(u, spec, us, mv, inp, p)
    for key, cnt in sorted(seen.items()):
        if cnt > WITNESS_CAP:
            u.note("%s: seen on %d paths of %s, first %d proved and replayed" % (key, cnt, name, WITNESS_CAP))
    return u.r


def _validate(u, spec, us, mv, inp, p):
    s = z3.Solver()
    s.add(*p.constraints())
    for i, (k, v) in enumerate(sorted(inp.items())):
        if isinstance(v, Sym) and z3.is_real(v.t):
            s.add(v.t == symx.rat(1.5 + 0.25 * i))
    if str(s.check()) != "sat":
        return
    m = s.model()
    pars = dict((k, _concrete(m, v)) for k, v in inp.items())
    _given, res, exc = real_convert(spec, us, mv, pars)
    if exc is not None or p.result is None:
        return
    env = dict(("v|" + k, v) for k, v in pars.items() if isinstance(v, (int, float)))
    for k, v in p.result[1].items():
        if isinstance(v, Sym) and k in res[1] and isinstance(res[1][k], (int, float)):
            try:
                got = symx.evalf(v.t, env)
            except (KeyError, ZeroDivisionError, NotImplementedError):
                continue
            u.check_close("%s[%s]" % (spec.tablename, k), float(got), float(res[1][k]))


# --------------------------------------------------------------------------
# second engine (thorough tier): CrossHair on the pure-string helpers, with *symbolic key
# strings* (the symx units only meet the concrete names of the tables).  CrossHair refutes
# or confirms; "Not confirmed" is reported as inconclusive and counts for nothing.

_CH_MODULE = '''
import sys
sys.path.insert(0, %(repo)r)
from sasmodels.convert import _dot_pd_to_underscore_pd, _convert_pars


def dot_spec(par, r):
    want = (par[:-6] + "_pd" if par.endswith(".width") else
            par[:-5] + "_pd_type" if par.endswith(".type") else
            par[:-8] + "_pd_nsigma" if par.endswith(".nsigmas") else
            par[:-5] + "_pd_n" if par.endswith(".npts") else par)
    return r == want


def dot_to_underscore(par: str) -> str:
    """
    post: dot_spec(par, __return__)
    """
    return _dot_pd_to_underscore_pd(par)


def rename_spec(old, new, v, w, r):
    return r == {new: v, new + ".width": w}


def rename_one(old: str, new: str, v: int, w: int) -> dict:
    """
    pre: old != new and len(old) > 0 and len(new) > 0
    pre: '.' not in old and '.' not in new
    post: rename_spec(old, new, v, w, __return__)
    """
    return _convert_pars({old: v, old + ".width": w}, {new: old})
'''


def crosshair_unit(_cfg):
    import importlib.util
    import os
    import subprocess
    import sys
    import vlib
    u = Unit("crosshair/_dot_pd_to_underscore_pd,_convert_pars (symbolic key strings)")
    u.functions("sasmodels.convert._dot_pd_to_underscore_pd (CrossHair, symbolic str)",
                "sasmodels.convert._convert_pars (CrossHair, one symbolic rename)")
    path = os.path.join(vlib.scratch(), "ch_c20.py")
    with open(path, "w") as f:
        f.write(_CH_MODULE % {"repo": vlib.REPO})
    env = dict(os.environ, PYTHONPATH=os.pathsep.join([vlib.DEPS, vlib.REPO]))
    try:
        out = subprocess.run([sys.executable, "-m", "crosshair", "check", "--per_condition_timeout",
                              "20", "--report_all", path], env=env, capture_output=True, text=True,
                             timeout=600).stdout
    except Exception as e:      # noqa
        u.note("CrossHair did not run: %r (second engine only; nothing is claimed from it)" % (e,))
        return u.r
    spec_ = importlib.util.spec_from_file_location("ch_c20", path)
    mod = importlib.util.module_from_spec(spec_)
    spec_.loader.exec_module(mod)
    for line in out.splitlines():
        msg = line.split(": ", 2)[-1] if ": " in line else line
        m = re.search(r"when calling (\w+)\((.*)\) \(which", line)
        if "error:" in line and m:
            u.r["obligations"] += 1
            fn, args = m.group(1), m.group(2)
            try:
                a = eval("(%s,)" % args, {})        # literal arguments printed by CrossHair
                r = getattr(mod, fn)(*a)
                ok = mod.dot_spec(a[0], r) if fn == "dot_to_underscore" else mod.rename_spec(*a, r)
            except Exception as e:  # noqa
                ok, r = False, repr(e)
            u.r["cex"].append({"obligation": "crosshair " + fn, "reproduced": not ok,
                               "key": "C20/helper/%s" % fn,
                               "what": "%s(%s) returns %r (real code), violating the helper's "
                                       "specification" % (fn, args, r),
                               "inputs": {"crosshair": True, "fn": fn, "args": args}})
        elif "Confirmed" in line or "Not confirmed" in line or "error" in line:
            u.note("CrossHair: " + msg)
    return u.r


# --------------------------------------------------------------------------

def replay(cex):
    i = cex["inputs"]
    if i.get("crosshair"):
        a = eval("(%s,)" % i["args"], {})
        if i["fn"] == "dot_to_underscore":
            r = convert._dot_pd_to_underscore_pd(*a)
            want = _dot_ref(a[0])
        else:
            r = convert._convert_pars({a[0]: a[2], a[0] + ".width": a[3]}, {a[1]: a[0]})
            want = {a[1]: a[2], a[1] + ".width": a[3]}
        print("real %s(%s) -> %r, specified %r" % (i["fn"], i["args"], r, want))
        return 1 if r != want else 0
    spec = get_spec(tuple(i["table"]), i["entry"])
    bad = concrete_findings(spec, i["use_underscore"], tuple(i["model_version"]), i["pars"])
    print("real convert_model(%r, %r, %r, %r)" % (spec.oldmodel, i["pars"], i["use_underscore"],
                                                 tuple(i["model_version"])))
    for o in bad:
        print("  violated:", o.key, "-", o.what)
    return 1 if any(o.key == i["finding"] for o in bad) else 0


def _dot_ref(par):
    for dot, us in PD_SUFFIX.items():
        if par.endswith(dot):
            return par[:-len(dot)] + us
    return par


def configs(chk):
    out = []
    for ver in sorted(CONVERSION_TABLE):
        for newname in CONVERSION_TABLE[ver]:
            for mv in VERSIONS:
                for us in (True, False):
                    primary = (mv == ver)
                    if chk.quick:
                        fam = ({"absent": 1, "present": 1, "empty": 1, "suffix": "none/one/all"} if primary
                               else {"absent": 1, "present": 0, "empty": 1, "suffix": "none/all"})
                    else:
                        fam = ({"absent": 1, "present": 2, "empty": 1, "suffix": "none/one/all"} if primary
                               else {"absent": 1, "present": 1, "empty": 1, "suffix": "none/all"})
                    n = len(get_spec(ver, newname).items)
                    cost = n * n * (11 if primary else 2) * (fam["present"] + 1) ** 2
                    K = max(1, min(16, cost // 12000))
                    for rev in ((False, True) if (primary and not chk.quick) else (False,)):
                        for k in range(K):
                            out.append((ver, newname, mv, us, dict(
                                fam, max_paths=40000, slice=(k, K), cost=cost // K, reversed=rev)))
    return out


def _dispatch(job):
    return job[0](job[1])


def run(chk):
    chk.explanation = (
        "Bounded symbolic execution of the real sasmodels.convert.convert_model on dicts whose "
        "values are z3 proxies and whose key set is decided by symbolic presence bits (forks in the "
        "explorer, feasibility by z3), one unit per (conversion-table entry, model_version, "
        "use_underscore).  Per explored path z3 proves: no exception, returned name = current model, "
        "every returned key exists in the real ModelInfo of the current model, every old value "
        "arrives at the key the table maps it to (x1e6 for SLDs/M0 and their fit limits of 3.x sets; "
        "documented inverse formulas for hand-converted models), scale/background/up_theta defaults.")
    nent = sum(len(t) for t in CONVERSION_TABLE.values())
    chk.bounds = {
        "table entries": "all %d of both tables (live CONVERSION_TABLE)" % nent,
        "model_version": [list(v) for v in VERSIONS], "use_underscore": [True, False],
        "presence patterns (model_version = table version)":
            "old names: all present but at most one, or at most %d present (incl. the empty set); "
            "attributes: none, exactly one of the 9 suffixes (on every present parameter it applies "
            "to), or all 9" % (1 if chk.quick else 2),
        "presence patterns (other model_versions)":
            "old names: all present but at most one%s, or none; attributes: none or all 9"
            % ("" if chk.quick else ", or exactly one present"),
        "insertion order of the given dict": "table order" + ("" if chk.quick else
                                                               "; reversed table order"),
        "string values": ".type/.units and func_inter0 unconstrained z3 strings; func_inter1..10 "
                         "the concrete string 'Erf(|nu|*z)'",
        "replayed witnesses": "first %d per unit for findings that are fixed by the path "
                              "(exception, invalid key, missing key); all others" % WITNESS_CAP,
        "solver timeout": "60 s per obligation, 20 s per fork"}
    chk.outside = [
        "dispersity attributes (.width/.npts/.nsigmas/.type) on parameters that are not dispersible "
        "in the current model (3.x stored them only for dispersible parameters); for "
        "core_shell_parallelepiped also on rimA/rimB/rimC, whose width the converter pins to 0",
        "attributes stored without their parameter's value; presence patterns and insertion orders "
        "outside the bounded family",
        "model_version later than every table (5.1.0): only 'returned unchanged' is claimed",
        "float rounding (doubles are reals; the constants 1e6, 1e15 are exact)",
        "value of .std for SLD parameters",
        "rpa: values and limits of La..Ld (3.x unit not documented in the tree; the hand conversion "
        "tests L1..L4 before the table renames La..Ld, so it never fires)",
        "spherical_sld: value of n_shells; core_shell_ellipsoid:1: width and fit limits of equat_shell, "
        "polar_core, polar_shell; hollow_cylinder: fit limits of the old outer radius",
        "teubner_strey: the identity names listed in the table are not 3.x parameters; the inputs are "
        "the 3.x parameters scale, c1, c2, background (attributes of scale, c1, c2 not specified)",
        "4.x parameter sets with current model names and 4.1-style magnetic names (M0:sld): no table "
        "entry matches them, convert_model returns them unchanged (not part of this property)",
        "that the table itself pairs the right names: the table is the specification of where a value goes"]
    chk.stubs = ["convert.math -> shim whose sqrt/fabs accept proxies (sqrt uninterpreted with the "
                 "axioms sqrt(x) >= 0, sqrt(x)^2 = x for x >= 0); only teubner_strey reaches it"]
    chk.assumptions = [
        "3.x parameter sets carry dispersity attributes only for parameters that are dispersible in the current model",
        "attributes (.width ... .units) are stored together with their parameter's value",
        "core_shell_ellipsoid:1: 0 < equat_core < equat_shell; hollow_cylinder: 0 < core_radius < radius",
        "teubner_strey: scale > 0, c2 > 0, 4 scale c2 > c1^2, and xi/(1e-4 8 pi c2) <= 1/4 with "
        "xi = sqrt(2/(c1/(2 c2) + sqrt(scale/c2))) (a real volume fraction exists at the assumed contrast)",
        "doubles modelled as reals"]
    cfgs = configs(chk)
    if getattr(chk, "only", None):
        cfgs = [c for c in cfgs if chk.only in unit_name(c)]
    # largest first (better load balance)
    cfgs.sort(key=lambda c: -c[4]["cost"])
    jobs = [(unit, c) for c in cfgs]
    if not chk.quick and not getattr(chk, "only", None):
        jobs.insert(0, (crosshair_unit, None))
        chk.trusted.append("CrossHair (second engine on two string helpers; refutation only)")
    chk.add(pmap(_dispatch, jobs))
    chk.extra["value_checks_on_identical_terms"] = sum(u.get("identical_terms", 0) for u in chk.units)
    chk.extra["proposed_fixes"] = sorted(
        f for f in os.listdir(os.path.join(ROOT, "proposed_fixes")) if f.startswith("C20-")) \
        if os.path.isdir(os.path.join(ROOT, "proposed_fixes")) else []
