"""C11 -- results do not depend on call history; inputs are not modified.

One-step, arbitrary-pre-state (2-safety) formulation.  Every piece of mutable
state that survives a call (DllKernel.result, PyKernel._parameter_vector /
res / result, PyInput.q, ProductKernel/MixtureKernel.results, the cached
kernel and intermediate attributes of DirectModel, SasviewModel._model, the
template cache) is given arbitrary symbolic content -- structural state (is a
kernel / compiled model cached or not, was the object cloned) is produced by a
short prefix of operations chosen by a symbolic integer through the explorer
-- and the request runs through the real code on z3 proxies.

O1  for every pair of completed paths z3 decides that the result terms agree
    when the pre-state symbols of one copy are renamed (vlib.purity.independence).
O2  caller-owned dicts / arrays / mesh / value vector / call details are
    compared before and after each entry point (one z3 formula over the entry
    terms; key presence and shapes are structure).
Counterexamples are replayed on the real library (compiled DLLs, plain floats):
request after a polluting call vs the request on fresh objects, bit for bit;
``dict(pars)`` before vs after.
"""
import contextlib
import copy
import re

import numpy as np
import z3

from vlib import symx, npshim, kharness, purity, compose as C
from vlib.harness import Unit, pmap, new_unit
from vlib.kharness import KModel
from vlib.purity import RecDict, Watch, flatten
from vlib.symx import Sym, SymBool, term

from sasmodels import core, details, direct_model, weights, kernelpy, kerneldll, generate
from sasmodels.kerneldll import DllModel
from sasmodels.product import RADIUS_MODE_ID

OBJ = np.dtype(object)
PID = "C11"

DLL_MODELS = ["sphere", "cylinder", "ellipsoid", "core_shell_sphere", "hollow_cylinder",
              "parallelepiped", "vesicle", "hardsphere", "core_multi_shell", "lamellar"]
PY_MODELS = ["line", "broad_peak", "be_polyelectrolyte", "power_law", "teubner_strey"]

_LEAF_RE = re.compile(r"^L\d+\.")


def is_input(name):
    """Request inputs: symbols declared by the harness with prefix ``in.`` and
    the named outputs of the recording stub leaves (functions of the request)."""
    return name.startswith("in.") or bool(_LEAF_RE.match(name))


# --------------------------------------------------------------------------
# stubs shared by the units

_GW = {"length": 2, "calls": 0}
_REAL_GET_WEIGHTS = weights.get_weights


def _get_weights_stub(disperser, n, width, nsigmas, value, limits, relative):
    """weights.get_weights: the real function when the distribution is trivial
    (fewer than 2 points or zero width -- includes its limits test, which may
    return an EMPTY distribution); otherwise fresh symbolic (values, weights)
    of the unit's enumerated length (0 = every point cut off by the limits).
    The numerical content of a distribution is C02's subject."""
    if not symx._CURRENT or disperser == "array" or int(n) < 2 or width == 0:
        return _REAL_GET_WEIGHTS(disperser, n, width, nsigmas, value, limits, relative)
    if _GW.get("mode") == "uf":
        # values and weights as uninterpreted functions of the arguments (equal
        # settings => equal distribution); weights positive
        tag = "gw.%s.%d.%s" % (disperser, int(n), "rel" if relative else "abs")
        xs = [symx.uf("%s.x%d" % (tag, i), width, nsigmas, value) for i in range(int(n))]
        ws = [symx.uf("%s.w%d" % (tag, i), width, nsigmas, value) for i in range(int(n))]
        for w in ws:
            symx.current().assume(w > 0, check=False)
        return symx.oarray(xs), symx.oarray(ws)
    k = _GW["calls"]
    _GW["calls"] += 1
    L = _GW["length"]
    return (symx.oarray([symx.real("in.d%d.%d" % (k, i)) for i in range(L)]),
            symx.oarray([symx.real("in.w%d.%d" % (k, i)) for i in range(L)]))


def install_shims():
    direct_model.float = npshim.ident_float
    weights.np = npshim.NpShim()
    weights.get_weights = _get_weights_stub
    kernelpy.np = purity.PyNp()
    C.install_shims()


SHIMS = [
    "direct_model.float -> identity on proxies",
    "weights.get_weights -> real function for trivial distributions (n<2 or width==0, incl. its limits test); "
    "otherwise fresh symbolic (values, weights) of the enumerated length 2 or 0; weights.np -> vlib.npshim",
    "ctypes entry points of DllModel -> IR interpreter of the model's real generated kernel on the driver's own "
    "buffers (vlib.kharness.SymDll); DllKernel._as_dtype -> identity; C leaves Iq/Fq/form_volume/... uninterpreted",
    "np.empty buffers (DllKernel.result, PyKernel.res/_parameter_vector, PyInput.q) -> fresh symbols = arbitrary "
    "previous contents; kernelpy.np.zeros/asarray/isnan -> vlib.purity.PyNp / vlib.npshim (isnan false on proxies)",
    "PyKernel.dtype -> object after the real __init__; python leaves Iq/Iqxy/form_volume/shell_volume/"
    "radius_effective -> uninterpreted functions of the CURRENT contents of the argument views",
    "product/mixture leaves -> recording stub kernels (vlib.compose); product.int -> identity on proxies",
    "sasview_model.core.build_model / direct_model core.build_model -> SymDll of the same model",
]


@contextlib.contextmanager
def watched_kernel_args(W, sink=None):
    """details.make_kernel_args as seen from direct_model / sasview_model, with
    the mesh (its argument) and the value vector + call details (the arguments
    of the kernel call that follows) registered as caller-owned objects."""
    real = details.make_kernel_args

    def mka(kernel, mesh):
        W.add("make_kernel_args:mesh", mesh)
        cd, values, mag = real(kernel, mesh)
        W.add("kernel():values", values)
        W.add("kernel():call_details", cd)
        if sink is not None:
            sink.append((mesh, mag))
        return cd, values, mag

    from sasmodels import sasview_model
    saved = direct_model.make_kernel_args, sasview_model.make_kernel_args
    direct_model.make_kernel_args = sasview_model.make_kernel_args = mka
    try:
        yield
    finally:
        direct_model.make_kernel_args, sasview_model.make_kernel_args = saved


def concretize(m, obj):
    """Plain-float copy of a structure of proxies under solver model *m*."""
    if isinstance(obj, Sym):
        v = symx.model_float(m, obj.t)
        return v if isinstance(v, int) and z3.is_int(obj.t) else float(v)
    if isinstance(obj, dict):
        return {k: concretize(m, v) for k, v in obj.items()}
    if isinstance(obj, np.ndarray):
        if obj.dtype == object:
            return np.array([concretize(m, v) for v in obj.ravel()], dtype=float).reshape(obj.shape)
        return obj.copy()
    if isinstance(obj, (list, tuple)):
        return type(obj)(concretize(m, v) for v in obj)
    return obj


def generic_model(H, extra, prefs):
    """A model of the counterexample query in which as many request inputs as
    possible take generic values (replays then do not cancel by accident)."""
    return C.robust_model(symx.abstract_ufs(list(H) + list(extra)), prefs, timeout_ms=20000, budget_s=8.0)


def obj_terms(obj):
    """z3 terms of the proxies inside a nested structure."""
    out = []
    if isinstance(obj, Sym):
        out.append(obj.t)
    elif isinstance(obj, dict):
        for v in obj.values():
            out.extend(obj_terms(v))
    elif isinstance(obj, np.ndarray):
        if obj.dtype == object:
            for v in obj.ravel():
                out.extend(obj_terms(v))
    elif isinstance(obj, (list, tuple)):
        for v in obj:
            out.extend(obj_terms(v))
    return out


def input_prefs(ts, salt=0, objs=()):
    """(const, preferred value) for every ``in.`` symbol of the terms."""
    prefs = []
    ts = list(ts) + obj_terms(list(objs))
    for k, (name, c) in enumerate(sorted(symx.consts_of(ts).items())):
        if not name.startswith(("in.", "pre.")) or not z3.is_real(c) or name.endswith("'"):
            continue
        if ".pd" in name:
            val = (0.1875 if name.startswith("pre.") else 0.125) + 0.015625 * (k % 3)
        elif ".nsigma" in name:
            val = 2.5 if name.startswith("pre.") else 2.0
        elif name.startswith("pre."):
            val = 2.25 + 0.0625 * ((k + salt) % 11)
        elif name.startswith("in.w"):
            val = 0.5 + 0.125 * (k % 3)
        elif "cutoff" in name:
            val = 0.0
        elif name.startswith("in.q"):
            val = 0.0125 * (1 + k % 5)
        else:
            val = 1.25 + 0.0625 * ((k + salt) % 13)
        prefs.append((c, val))
    return prefs


def jsonable(o):
    if isinstance(o, np.ndarray):
        return [jsonable(v) for v in o.tolist()]
    if isinstance(o, dict):
        return {str(k): jsonable(v) for k, v in o.items()}
    if isinstance(o, (list, tuple)):
        return [jsonable(v) for v in o]
    if isinstance(o, (np.floating, np.integer)):
        return o.item()
    return o


def bits(x):
    """Bit pattern of a result (tuple of arrays / None / floats) for exact comparison."""
    out = []

    def walk(o):
        if o is None:
            out.append(b"None")
        elif isinstance(o, (tuple, list)):
            for v in o:
                walk(v)
        elif isinstance(o, dict):
            for k, v in o.items():
                out.append(str(k).encode())
                walk(v)
        elif callable(o):
            out.append(b"callable")
        else:
            out.append(np.asarray(o, dtype=float).tobytes())
    walk(x)
    return b"|".join(out)


# --------------------------------------------------------------------------
# real code: request after a polluting call vs request on fresh objects

def _fmesh(mesh):
    return [(float(v), np.asarray(d, dtype=float), np.asarray(w, dtype=float)) for v, d, w in mesh]


def _pollution_mesh(info, mesh, salt):
    """A different, valid, monodisperse parameter set for the same model."""
    out = []
    for p, (v, _d, _w) in zip(info.parameters.call_parameters, mesh):
        dflt = float(p.default)
        if C.is_structural(p) or p.name.endswith(("_M0", "_mtheta", "_mphi")) or p.name.startswith("up_"):
            x = float(v)
        elif p.name == "scale":
            x = 2.0 + salt
        elif p.name == "background":
            x = 0.25 + 0.5 * salt
        else:
            x = C._clip_inside(dflt * (1.0 + 0.0625 * (1 + salt)) + (0.03125 if dflt == 0 else 0.0),
                               p.limits[0], p.limits[1], dflt)
        out.append((x, np.array([x if p.type != "orientation" else 0.0]), np.array([1.0])))
    return out


def _real_kernel_model(name):
    info = core.load_model_info(py_model_name(name))
    if callable(info.Iq) and info.composition is None:
        return core.build_model(info)
    return C.real_model(name)


def real_kernel_request(kern, entry, mesh, cutoff, mode):
    cd, vals, mag = details.make_kernel_args(kern, _fmesh(mesh))
    if entry == "call_Fq":
        return kern.Fq(cd, vals, cutoff, mag, int(mode))
    out = kern(cd, vals, cutoff, mag)
    res = getattr(kern, "results", None)
    return out if res is None else (out, res())


def _history_mesh(info, mesh, hist, salt):
    """An earlier request with the dispersity layout *hist* (name -> length)."""
    out = []
    for (x, d, w), p in zip(_pollution_mesh(info, mesh, salt), info.parameters.call_parameters):
        n = dict(hist).get(p.name, 1)
        if n > 1:
            c = 0.0 if p.type == "orientation" else x
            step = 2.5 if p.type == "orientation" else 0.03125 * (abs(x) or 1.0)
            d = np.array([c + step * (k - (n - 1) / 2.0) for k in range(n)])
            w = np.array([1.0 + 0.5 * k for k in range(n)])
        out.append((x, d, w))
    return out


def real_o1_kernel(name, dim, entry, q, mesh, cutoff, mode, hist=()):
    """(reproduced, detail): the request on a fresh kernel object and on two
    kernel objects polluted by different earlier calls, compared bit for bit."""
    model = _real_kernel_model(name)
    qv = [np.asarray(v, dtype=float) for v in q]
    keep, outs, errs = [], [], []
    if hist:
        for salt in (None, 0, 1):
            try:
                kern = model.make_kernel(qv)
                keep.append(kern)
                if salt is not None:
                    real_kernel_request(kern, "call_kernel", _history_mesh(kern.info, mesh, hist, salt), 0.0, 0)
                outs.append(bits(real_kernel_request(kern, entry, mesh, cutoff, mode)))
                errs.append(None)
            except Exception as e:
                outs.append(("raise:" + type(e).__name__).encode())
                errs.append(repr(e))
        differ = len(set(outs)) > 1
        return differ, {"fresh_vs_used_identical": not differ, "exceptions": errs,
                        "history_layout": dict(hist)}
    # fresh kernel; kernels polluted by two different earlier calls; fresh kernels
    # whose uninitialised buffers hold two chosen contents (what np.empty returns
    # is whatever earlier objects left on the heap)
    for salt, fill in ((None, None), (0, None), (1, None), (None, 3.25), (None, 17.5)):
        try:
            with (heap_content(fill) if fill is not None else contextlib.nullcontext()):
                kern = model.make_kernel(qv)
            keep.append(kern)
            if salt is not None:
                real_kernel_request(kern, "call_kernel", _pollution_mesh(kern.info, mesh, salt), 0.0, 0)
            outs.append(bits(real_kernel_request(kern, entry, mesh, cutoff, mode)))
            errs.append(None)
        except Exception as e:
            outs.append(("raise:" + type(e).__name__).encode())
            errs.append(repr(e))
    differ = len(set(outs)) > 1
    return differ, {"fresh_vs_polluted_identical": not differ, "exceptions": errs,
                    "first_value_of_each_run": [float(np.frombuffer(o[:8], dtype=float)[0])
                                                if len(o) >= 8 and not o.startswith((b"raise", b"None")) else
                                                o[:40].decode("latin1") for o in outs]}


def real_o2_kernel(name, dim, entry, q, pars, cutoff, mono=False):
    """(changed labels, detail): the same entry point on the real kernel with
    plain floats; every caller-owned object compared before/after."""
    model = _real_kernel_model(name)
    W = Watch()
    qv = [np.asarray(v, dtype=float) for v in q]
    for i, a in enumerate(qv):
        W.add("make_kernel:q_vectors[%d]" % i, a)
    kern = model.make_kernel(qv)
    pars = RecDict(pars)
    W.add("%s:pars" % entry, pars)
    exc = None
    with watched_kernel_args(W):
        try:
            getattr(direct_model, entry)(kern, pars, cutoff=cutoff, mono=mono)
        except Exception as e:
            exc = repr(e)
    changed = {}
    for label, phi, diffs, log in W.check():
        if not z3.is_true(z3.simplify(phi)):
            changed[label] = diffs[:4]
    return changed, {"exception": exc, "operations_on_pars": pars.log[:6]}


def _diff_kind(diffs):
    """Stable signature of the first difference (no values, no model names)."""
    if not diffs:
        return "value-changed"
    d = diffs[0]
    m = re.search(r"key '([^']*)' (removed|added)", d)
    if m:
        return "key-%s:%s" % (m.group(2), m.group(1))
    if "array" in d or "sequence" in d:
        return "shape-changed"
    return "value-changed"


# --------------------------------------------------------------------------
# family A: compiled kernels through direct_model.call_kernel / call_Fq

def dll_pars(info, dim, disp, magnetic, entry):
    """Caller's parameter dictionary of z3 proxies (structure concrete)."""
    pars = {}
    p = info.parameters
    for par in p.call_parameters[:2 + p.npars]:
        if C.is_structural(par):
            continue
        pars[par.name] = symx.real("in.v." + par.name)
    if disp:
        pars[disp + "_pd"] = symx.real("in.pd." + disp)
        pars[disp + "_pd_n"] = 3
        pars[disp + "_pd_nsigma"] = symx.real("in.nsigma." + disp)
        pars[disp + "_pd_type"] = "gaussian"
    if magnetic:
        pars.update(magnetic_block(magnetic, "in."))
    if entry == "call_Fq":
        pars[RADIUS_MODE_ID] = Sym(z3.Int("in.mode"))
    return pars


def magnetic_block(sld, tag):
    """Polarisation and the magnetisation of one SLD: the up-fractions are
    concrete (0.25, 0.5: all four spin channels contribute, their weights are
    structure), the angles and the magnitude symbolic."""
    out = {"up_frac_i": 0.25, "up_frac_f": 0.5}
    for nm in ("up_theta", "up_phi", sld + "_M0", sld + "_mtheta", sld + "_mphi"):
        out[nm] = symx.real("%sv.%s" % (tag, nm))
    return out


def make_dll_kernel(model, qv):
    """The REAL DllModel.make_kernel on the caller's q arrays (SymDll's own
    override copies them first), then the arbitrary pre-state."""
    kern = DllModel.make_kernel(model, qv)
    kern._as_dtype = lambda x: x
    for i in range(len(kern.result)):
        kern.result[i] = Sym(z3.Real("stale!%d" % i))
    return kern


def sym_q(dim, tag="in."):
    if dim == "1d":
        return [symx.oarray([symx.real(tag + "q0"), symx.real(tag + "q1")])]
    return [symx.oarray([symx.real(tag + "qx0")]), symx.oarray([symx.real(tag + "qy0")])]


def first_pd(info, dim):
    ps = [p.name for p in info.parameters.call_parameters[2:2 + info.parameters.npars]
          if p.polydisperse and (dim == "2d" or p.type != "orientation")]
    return ps[0] if ps else None


# --------------------------------------------------------------------------
# obligations common to all families

EXPECTED_EXC = (NotImplementedError, ValueError)


def judge(u, label, paths, o1_handler, o2_handler, sample_ctx=None, is_ref=None):
    """O2 per path and watched object, O1 over all pairs of paths."""
    runs, rp, failed = [], [], set()
    u.max_cex = 4
    for pi, p in enumerate(paths):
        if p.cut:
            u.error("path %d cut: %s" % (pi, p.cut))
            continue
        if p.exc is not None:
            u.error("path %d: %s: %s" % (pi, type(p.exc).__name__, str(p.exc)[:300]))
            continue
        H = p.constraints()
        r = p.result
        runs.append((H, r["sig"], r["terms"], "p%d" % pi))
        rp.append(p)
        if pi < 2:
            u.sample(dict(sample_ctx or {}, path=pi, result_signature=r["sig"][:120],
                          watched=[w[0] for w in r["watch"]], notes=r.get("notes"),
                          path_condition=[str(c)[:90] for c in p.pc
                                          if not str(c).startswith("res!")][:6]))
        for wlabel, phi, diffs, log in r["watch"]:
            if wlabel in failed:
                continue        # one replayed witness per watched object and unit is enough
            n0 = len(u.r["cex"])
            u.prove("O2:" + wlabel, phi, H, o2_handler(pi, wlabel, diffs, log))
            if len(u.r["cex"]) > n0:
                failed.add(wlabel)
    n_state = purity.independence(u, "O1:" + label, runs, is_input, o1_handler(rp), sample=True,
                                  is_ref=(None if is_ref is None else (lambda i: is_ref(rp[i]))))
    u.r["max_state_symbols_in_a_path"] = max(u.r.get("max_state_symbols_in_a_path", 0), n_state)
    if any(not p.result.get("pre_state") for p in rp):
        u.error("%s: the harness installed no arbitrary pre-state" % label)
    return runs


def run_entry(fn, W, extra=None):
    """Run the entry point; an expected refusal is a result like any other."""
    try:
        out = fn()
        sig, ts = flatten(out)
    except EXPECTED_EXC as e:
        sig, ts = "raise:%s" % type(e).__name__, []
    r = {"sig": sig, "terms": ts, "watch": W.check()}
    r.update(extra or {})
    return r


def unit_dll(cfg):
    name, dim, disp, length, entry, magnetic, mono = cfg
    label = "dll/%s/%s/%s/%s%s%s" % (name, dim, entry, "%s=%d" % (disp, length) if disp else "mono",
                                     "/magnetic=" + magnetic if magnetic else "", "/mono-flag" if mono else "")
    u = Unit(label, timeout_ms=60000)
    install_shims()
    km = KModel.get(name)
    info = km.info
    cutoff = symx.real("in.cutoff")
    pars0 = dll_pars(info, dim, disp, magnetic, entry)
    nmodes = len(info.radius_effective_modes or [])
    A = []
    if entry == "call_Fq":
        A = [z3.Int("in.mode") >= 0, z3.Int("in.mode") <= min(nmodes, 2)]
    if magnetic:
        A.append(z3.Real("in.qx0") * z3.Real("in.qx0") + z3.Real("in.qy0") * z3.Real("in.qy0") > symx.rat(1e-16))
    sinks = {}

    def fn():
        _GW["calls"], _GW["length"], _GW["mode"] = 0, length, None
        model = km.make_model()
        W = Watch()
        qv = sym_q(dim)
        for i, a in enumerate(qv):
            W.add("make_kernel:q_vectors[%d]" % i, a)
        kern = make_dll_kernel(model, qv)
        pars = RecDict(pars0)
        W.add("%s:pars" % entry, pars)
        sink = []
        with watched_kernel_args(W, sink):
            r = run_entry(lambda: getattr(direct_model, entry)(kern, pars, cutoff=cutoff, mono=mono), W)
        r["mesh"] = sink[0][0] if sink else None
        r["pre_state"] = len(kern.result)
        r["notes"] = {"kernel_calls": list(model.calls), "interpreted_instructions": model.steps,
                      "magnetic_kernel": bool(sink[0][1]) if sink else None}
        return r

    ex = symx.Explorer(timeout_ms=20000, max_paths=400, abstract=True, int_range=8)
    paths = ex.explore(fn, A)
    u.absorb(ex, paths)
    u.reachable(label, A)
    u.functions("sasmodels.direct_model.%s" % entry, "sasmodels.direct_model.get_mesh",
                "sasmodels.direct_model._pop_par_weights", "sasmodels.details.make_kernel_args",
                "sasmodels.details.make_details", "sasmodels.details.convert_magnetism",
                "sasmodels.kerneldll.DllModel.make_kernel", "sasmodels.kernelpy.PyInput.__init__",
                "sasmodels.kerneldll.DllKernel.__init__", "sasmodels.kerneldll.DllKernel._call_kernel",
                "sasmodels.kernel.Kernel.Iq", "sasmodels.kernel.Kernel.Fq",
                "%s (IR of the generated source)" % km.names[0 if dim == "1d" else 1])
    ctx = dict(name=name, dim=dim, entry=entry, mono=mono, disp=disp, length=length, magnetic=magnetic,
               pars0=pars0, paths=paths, family="dll")
    judge(u, label, paths, _o1_kernel_handler(ctx), _o2_kernel_handler(ctx),
          sample_ctx={"config": label})
    return u.r


def _mesh_class(mesh):
    lens = [len(d) for _v, d, _w in mesh]
    return "empty-mesh" if 0 in lens else "dispersed" if max(lens) > 1 else "mono"


def _o1_kernel_handler(ctx):
    """Counterexample to O1 at kernel level -> mesh-level replay (the body of
    call_kernel / call_Fq after get_mesh) on the real kernel objects."""
    def factory(rp):
        def mk(i, j, hyps, phi):
            def handler(m):
                # generic values also for inputs that the (possibly purely structural)
                # disagreement does not mention
                m2 = generic_model(hyps, [z3.Not(phi)],
                                   input_prefs(hyps + [phi], objs=[rp[i].result["mesh"],
                                                                   ctx.get("q") or sym_q(ctx["dim"])])) or m
                best = None
                for mm in (m2, m):
                    mesh = concretize(mm, rp[i].result["mesh"])
                    q = concretize(mm, ctx.get("q") or sym_q(ctx["dim"]))
                    cut = float(symx.model_float(mm, z3.Real("in.cutoff")))
                    mode = int(symx.model_float(mm, z3.Int("in.mode"))) if ctx["entry"] == "call_Fq" else 0
                    rep, detail = real_o1_kernel(ctx["name"], ctx["dim"], ctx["entry"], q, mesh, cut, mode,
                                                 hist=ctx.get("hist") or ())
                    best = (rep, detail, mesh, q, cut, mode)
                    if rep:
                        break
                rep, detail, mesh, q, cut, mode = best
                state = purity.state_symbols(hyps + [phi], is_input)
                return {"reproduced": bool(rep),
                        "key": "C11/O1/%s/%s/%s" % (ctx["family"], ctx["entry"], _mesh_class(mesh)),
                        "what": "%s %s %s: the result of the same request differs between a fresh kernel object "
                                "and one that served an earlier call (%s); pre-state symbols involved: %s"
                                % (ctx["name"], ctx["dim"], ctx["entry"], _mesh_class(mesh), state[:6]),
                        "inputs": {"replay": "kernel", "model": ctx["name"], "dim": ctx["dim"], "entry": ctx["entry"],
                                   "q": [list(map(float, v)) for v in q], "cutoff": cut, "mode": mode,
                                   "history_layout": [list(x) for x in (ctx.get("hist") or ())],
                                   "mesh": [[float(v), list(map(float, d)), list(map(float, w))] for v, d, w in mesh]},
                        "detail": detail, "block": None}
            return handler
        return mk
    return factory


def generic_pars(info, pars0, m=None):
    """Plain-float version of the caller's dictionary: generic valid values
    (model defaults, perturbed) for reals, the solver's value for integers."""
    by = {p.name: p for p in info.parameters.call_parameters}
    out = {}
    for k, (key, v) in enumerate(pars0.items()):
        if not isinstance(v, Sym):
            out[key] = v
        elif z3.is_int(v.t):
            out[key] = int(symx.model_float(m, v.t)) if m is not None else 1
        elif key.endswith("_pd"):
            out[key] = 0.125
        elif key.endswith("_pd_nsigma"):
            out[key] = 2.0
        elif key.endswith("_M0"):
            out[key] = 1.5
        elif key in by:
            p = by[key]
            d = float(p.default)
            out[key] = C._clip_inside(d * (1 + 0.015625 * (k % 5)) if d else 0.0625, p.limits[0], p.limits[1], d)
        else:
            out[key] = 0.25
    return out


def _o2_kernel_handler(ctx):
    def mk(pi, wlabel, diffs, log):
        def handler(m):
            info = core.load_model_info(py_model_name(ctx["name"]))
            pars = generic_pars(info, ctx["pars0"], m)
            q = [[0.0125, 0.125]] if ctx["dim"] == "1d" else [[0.0125], [0.03125]]
            changed, detail = real_o2_kernel(ctx["name"], ctx["dim"], ctx["entry"], q, pars, 0.0, ctx["mono"])
            rep = wlabel in changed
            kind = _diff_kind(changed.get(wlabel) or diffs)
            return {"reproduced": bool(rep), "key": "C11/O2/%s/%s" % (wlabel, kind),
                    "what": "%s(%s kernel, pars) modifies the caller's %s: %s (operations recorded on the "
                            "caller's dict: %s)" % (ctx["entry"], ctx["name"], wlabel.split(":")[1],
                                                    (changed.get(wlabel) or diffs)[:3], log[:4]),
                    "inputs": {"replay": "o2-kernel", "model": ctx["name"], "dim": ctx["dim"],
                               "entry": ctx["entry"], "q": q, "pars": jsonable(pars), "mono": ctx["mono"], "watch": wlabel},
                    "detail": detail, "block": None}
        return handler
    return mk


# --------------------------------------------------------------------------
# family B: pure-python kernels (kernelpy.PyModel / PyKernel / _loops)

PYSHELL = '''
r"""Synthetic pure-python shell model (C11 harness): exercises the dispersity
loop of kernelpy._loops, which no builtin python model reaches."""
from numpy import inf, pi, sin, cos
name = "c11_pyshell"
title = "python shell"
description = "python shell"
category = "shape:sphere"
parameters = [["sld", "1e-6/Ang^2", 1, [-inf, inf], "sld", ""],
              ["radius", "Ang", 50, [0, inf], "volume", ""],
              ["thickness", "Ang", 10, [0, inf], "volume", ""]]
def form_volume(radius, thickness):
    return 4.0/3.0*pi*(radius + thickness)**3
def shell_volume(radius, thickness):
    return 4.0/3.0*pi*((radius + thickness)**3 - radius**3)
def radius_effective(mode, radius, thickness):
    return radius + thickness if mode == 1 else radius
radius_effective_modes = ["outer radius", "core radius"]
def Iq(q, sld, radius, thickness):
    qr = q*(radius + thickness)
    return (sld*shell_volume(radius, thickness)*3.0*(sin(qr) - qr*cos(qr))/qr**3)**2
Iq.vectorized = True
'''


def py_model_name(name):
    if name != "c11_pyshell":
        return name
    import os
    from vlib import scratch
    path = os.path.join(scratch(), "c11_pyshell.py")
    if not os.path.exists(path):
        tmp = "%s.%d" % (path, os.getpid())
        with open(tmp, "w") as f:
            f.write(PYSHELL)
        os.replace(tmp, path)
    return path


def _flat_args(args):
    out = []
    for a in args:
        out.extend(np.asarray(a, dtype=object).ravel().tolist())
    return out


def py_stub_info(info):
    """Copy of the model info whose python leaves are uninterpreted functions
    of the CURRENT contents of their argument views."""
    info2 = copy.copy(info)

    def mk(fname, nlead):
        def f(*args):
            lead, rest = args[:nlead], _flat_args(args[nlead:])
            if nlead and isinstance(lead[0], np.ndarray) and lead[0].ndim == 1:
                n = len(lead[0])
                return symx.oarray([symx.uf(fname, *([l[i] for l in lead] + rest)) for i in range(n)])
            return symx.uf(fname, *(list(lead) + rest))
        f.vectorized = True
        return f

    info2.Iq = mk("Iq", 1)
    info2.Iqxy = mk("Iqxy", 2) if callable(getattr(info, "Iqxy", None)) else None
    for nm, nlead in (("form_volume", 0), ("shell_volume", 0), ("radius_effective", 1)):
        if callable(getattr(info, nm, None)):
            setattr(info2, nm, mk(nm, nlead))
    return info2


def unit_py(cfg):
    name, dim, disp, length, entry, magnetic = cfg
    label = "py/%s/%s/%s/%s%s" % (name, dim, entry, "%s=%d" % (disp, length) if disp else "mono",
                                  "/magnetic=" + magnetic if magnetic else "")
    u = Unit(label, timeout_ms=60000)
    install_shims()
    path = py_model_name(name)
    info = core.load_model_info(path)
    cutoff = symx.real("in.cutoff")
    pars0 = dll_pars(info, dim, disp, magnetic, entry)
    nmodes = len(info.radius_effective_modes or [])
    A = [z3.Int("in.mode") >= 0, z3.Int("in.mode") <= min(nmodes, 2)] if entry == "call_Fq" else []

    def fn():
        _GW["calls"], _GW["length"], _GW["mode"] = 0, length, None
        model = kernelpy.PyModel(py_stub_info(info))
        W = Watch()
        qv = sym_q(dim)
        for i, a in enumerate(qv):
            W.add("make_kernel:q_vectors[%d]" % i, a)
        kern = model.make_kernel(qv)          # real PyInput / PyKernel.__init__ (np.empty -> arbitrary)
        kern.dtype = OBJ
        kern.result = purity._fresh_array(dim == "1d" and 6 or 5, "mem")
        pars = RecDict(pars0)
        W.add("%s:pars" % entry, pars)
        sink = []
        with watched_kernel_args(W, sink):
            r = run_entry(lambda: getattr(direct_model, entry)(kern, pars, cutoff=cutoff), W)
        r["mesh"] = sink[0][0] if sink else None
        r["pre_state"] = symx.current()._fresh
        r["notes"] = {"parameter_vector_after": [str(term(x)) for x in kern._parameter_vector][:4],
                      "arbitrary_cells_installed": r["pre_state"]}
        return r

    ex = symx.Explorer(timeout_ms=20000, max_paths=400, int_range=8)
    paths = ex.explore(fn, A)
    u.absorb(ex, paths)
    u.reachable(label, A)
    u.functions("sasmodels.kernelpy.PyModel.make_kernel", "sasmodels.kernelpy.PyInput.__init__",
                "sasmodels.kernelpy.PyKernel.__init__", "sasmodels.kernelpy.PyKernel._call_kernel",
                "sasmodels.kernelpy._loops", "sasmodels.kernelpy._create_default_functions")
    ctx = dict(name=name, dim=dim, entry=entry, mono=False, disp=disp, length=length, magnetic=magnetic,
               pars0=pars0, paths=paths, family="py")
    judge(u, label, paths, _o1_kernel_handler(ctx), _o2_kernel_handler(ctx), sample_ctx={"config": label})
    return u.r


# --------------------------------------------------------------------------
# family C: product and mixture kernels over recording stub leaves

def install_composite_prestate(kern, tag="k"):
    """Arbitrary retained state on every object of a kernel tree: the lazy
    ``results`` of the real ProductKernel / MixtureKernel objects, the result
    buffers of the leaves.  Returns the number of symbols installed."""
    from sasmodels.product import ProductKernel
    from sasmodels.mixture import MixtureKernel
    n = 0
    if isinstance(kern, (ProductKernel, MixtureKernel)):
        s = Sym(z3.Real("stale.results!%s" % tag))
        kern.results = lambda s=s: {"stale intermediate": (symx.oarray([s]), symx.oarray([s]))}
        n += 1
        kids = [kern.p_kernel, kern.s_kernel] if isinstance(kern, ProductKernel) else list(kern.kernels)
        for i, k in enumerate(kids):
            n += install_composite_prestate(k, "%s%d" % (tag, i))
    else:
        nq = kern.q_input.nq
        kern.result = symx.oarray([Sym(z3.Real("stale!%s!%d" % (tag, i))) for i in range(2 * nq + 4)])
        n += 2 * nq + 4
    return n


def leaf_requests(rec):
    """What the composite kernel asked of its leaves (the leaf results are the
    named functions of exactly this): structure as strings, data as terms."""
    out = []
    for c in rec:
        d = c.details
        out.append(["leaf%d" % c.leaf, "dim:" + c.dim, "mode:%s" % (c.mode,), "mag:%s" % bool(c.magnetic),
                    "layout:%s" % (([int(x) for x in d.pd_par], [int(x) for x in d.pd_length],
                                    [int(x) for x in d.pd_offset], [int(x) for x in d.pd_stride],
                                    d.num_eval, d.num_weights, d.num_active, d.theta_par),),
                    "extra:%s" % (None if d.extra is None else [list(map(int, x)) for x in d.extra],),
                    list(c.values), c.cutoff])
    return out


def unit_comp(cfg):
    hist = ()
    if len(cfg) == 7:
        hist, cfg = cfg[6], cfg[:6]
    expr, dim, disp, concrete, mag, nonzero = cfg
    label = "comp%s/%s/%s/%s%s%s%s" % ("-hist" if hist else "", expr, dim,
                                     ",".join("%s=%d" % kv for kv in disp) or "mono",
                                     "".join("/%s=%g" % kv for kv in sorted(concrete.items())),
                                     "/magnetic" if mag else "",
                                     "/after:" + ",".join("%s=%d" % kv for kv in hist) if hist else "")
    u = Unit(label, timeout_ms=60000)
    install_shims()
    info = core.load_model_info(expr)
    nleaves = C.count_leaves(info)
    m0 = [p.name for p in info.parameters.call_parameters if p.name.endswith("_M0")]
    m0_sym = set(m0[:1]) if (mag and m0) else set()
    mesh, by = C.sym_mesh(info, dict(disp), concrete, m0_sym, tag="in.")
    cutoff = symx.real("in.cutoff")
    A = []
    if nonzero:
        A = [z3.Real("L%d.%s" % (l, k)) != 0 for l in range(nleaves) for k in ("tw", "sv")]

    def fn():
        rec = []
        model = C.stub_build(info, list(range(nleaves)), rec)
        W = Watch()
        qv = sym_q(dim)
        for i, a in enumerate(qv):
            W.add("make_kernel:q_vectors[%d]" % i, a)
        kern = model.make_kernel(qv)
        hist_on = False
        if hist:
            # history: the same kernel object first serves ANOTHER request (own symbols, a
            # different dispersity layout) through the real code; whether it did is a
            # non-input symbol, so fresh and used kernels are compared pairwise by O1
            if SymBool(z3.Bool("hist.on")):
                hist_on = True
                mesh_h, _by = C.sym_mesh(info, dict(hist), concrete, m0_sym, tag="hist.")
                cd_h, vals_h, mag_h = details.make_kernel_args(kern, mesh_h)
                kern(cd_h, vals_h, symx.real("hist.cutoff"), mag_h)
                kern.results()
                del rec[:]
        npre = install_composite_prestate(kern)
        W.add("make_kernel_args:mesh", mesh)
        cd, vals, is_mag = details.make_kernel_args(kern, mesh)
        W.add("kernel():values", vals)
        W.add("kernel():call_details", cd)

        def entry():
            out = kern(cd, vals, cutoff, is_mag)
            if hist:
                # the leaf results are named functions of the leaf requests: those are outputs too
                return out, kern.results(), leaf_requests(rec)
            return out, kern.results()
        r = run_entry(entry, W)
        r["mesh"], r["pre_state"] = mesh, npre
        r["hist_on"] = hist_on
        r["notes"] = {"leaf_calls": len(rec), "magnetic": bool(is_mag), "after_history_call": hist_on}
        return r

    ex = symx.Explorer(timeout_ms=20000, max_paths=600)
    paths = ex.explore(fn, A)
    u.absorb(ex, paths)
    u.reachable(label, A)
    u.functions("sasmodels.core.build_model (composition)", "sasmodels.product.ProductModel.make_kernel",
                "sasmodels.product.ProductKernel.__init__", "sasmodels.product.ProductKernel.Iq",
                "sasmodels.product._intermediates", "sasmodels.mixture.MixtureModel.make_kernel",
                "sasmodels.mixture.MixtureKernel.Iq", "sasmodels.mixture._MixtureParts",
                "sasmodels.mixture._intermediates", "sasmodels.details.make_kernel_args")
    ctx = dict(name=expr, dim=dim, entry="call_kernel", mono=False, paths=paths, family="composite",
               q=sym_q(dim), hist=hist)
    judge(u, label, paths, _o1_kernel_handler(ctx), _o2_comp_handler(ctx), sample_ctx={"config": label},
          is_ref=((lambda p: not p.result.get("hist_on")) if hist else None))
    return u.r


def real_o2_mesh(expr, dim, q, mesh, cutoff):
    """Real composite kernel, plain floats: mesh / values / call details / q
    before and after make_kernel_args + kernel()."""
    model = C.real_model(expr)
    W = Watch()
    qv = [np.asarray(v, dtype=float) for v in q]
    for i, a in enumerate(qv):
        W.add("make_kernel:q_vectors[%d]" % i, a)
    kern = model.make_kernel(qv)
    mesh = _fmesh(mesh)
    W.add("make_kernel_args:mesh", mesh)
    cd, vals, mag = details.make_kernel_args(kern, mesh)
    W.add("kernel():values", vals)
    W.add("kernel():call_details", cd)
    exc = None
    try:
        kern(cd, vals, cutoff, mag)
    except Exception as e:
        exc = repr(e)
    changed = {lab: diffs[:4] for lab, phi, diffs, _l in W.check() if not z3.is_true(z3.simplify(phi))}
    return changed, {"exception": exc}


def _o2_comp_handler(ctx):
    def mk(pi, wlabel, diffs, log):
        def handler(m):
            p = ctx["paths"][pi]
            hyps = p.constraints()
            m2 = generic_model(hyps, [], input_prefs(hyps, objs=[p.result["mesh"], ctx["q"]])) or m
            mesh = concretize(m2, p.result["mesh"])
            q = concretize(m2, ctx["q"])
            changed, detail = real_o2_mesh(ctx["name"], ctx["dim"], q, mesh, 0.0)
            rep = wlabel in changed
            return {"reproduced": bool(rep),
                    "key": "C11/O2/%s/%s/%s" % (ctx["family"], wlabel, _diff_kind(changed.get(wlabel) or diffs)),
                    "what": "%s kernel call modifies the caller's %s: %s" % (
                        ctx["name"], wlabel, (changed.get(wlabel) or diffs)[:3]),
                    "inputs": {"replay": "o2-mesh", "model": ctx["name"], "dim": ctx["dim"],
                               "q": [list(map(float, v)) for v in q], "watch": wlabel,
                               "mesh": [[float(v), list(map(float, d)), list(map(float, w))] for v, d, w in mesh]},
                    "detail": detail, "block": None}
        return handler
    return mk


# --------------------------------------------------------------------------
# family D: SasviewModel (class-level compiled-model cache, params/dispersion dicts)

@contextlib.contextmanager
def patched_build(factory, log):
    """core.build_model (as seen from sasview_model / direct_model) -> SymDll."""
    real = core.build_model

    def build(info, *a, **kw):
        log.append(info.id)
        return factory(info)
    core.build_model = build
    try:
        yield
    finally:
        core.build_model = real


SV_OPS = {0: "fresh class (no compiled model cached)",
          1: "same instance evaluated before with other parameter values, then reset with setParam",
          2: "another instance of the class evaluated before (class-level _model cached)",
          3: "request made on a clone() of an instance that was evaluated before"}


def sasview_set(m, req):
    for k, v in req["params"].items():
        m.setParam(k, v)
    for par, d in req["disp"].items():
        if isinstance(d, dict):       # width / npts / nsigmas through setParam("par.key", value)
            for key, v in d.items():
                m.setParam("%s.%s" % (par, key), v)
            continue
        values, wts = d
        # an array distribution: the caller's (values, weights) reach the mesh as they are
        disperser = weights.ArrayDispersion()
        disperser.set_weights(values, wts)
        m.set_dispersion(par, disperser)
    m.cutoff = req["cutoff"]


def sasview_request(m, req, q, entry):
    if entry == "evalDistribution":
        return m.evalDistribution(q[0] if len(q) == 1 else list(q))
    result, lazy = m.calculate_Iq(*q)
    return result, lazy()


def sasview_prefix(Model, op, req, pre, q, entry):
    """The operations that precede the request (structural pre-state)."""
    if op == 0:
        return Model()
    if op == 1:
        m = Model()
        sasview_set(m, pre)
        sasview_request(m, pre, q, entry)
        return m
    other = Model()
    sasview_set(other, pre)
    sasview_request(other, pre, q, entry)
    return Model() if op == 2 else other.clone()


def sasview_reqs(info, dim, disp, magnetic, tag, length=2):
    pars = {}
    p = info.parameters
    for par in p.user_parameters({}, is2d=True):
        if C.is_structural(par):
            continue
        is_mag = par.name.endswith(("_M0", "_mtheta", "_mphi")) or par.name.startswith("up_")
        if (par.type == "orientation" and dim == "1d") or is_mag:
            continue
        if info.structure_factor and par.name in ("scale", "background"):
            continue        # hidden parameters of a structure factor
        pars[par.name] = symx.real("%sv.%s" % (tag, par.name))
    if magnetic:
        pars.update(magnetic_block(magnetic, tag))
    d = {}
    if disp:
        d[disp] = (symx.oarray([symx.real("%sd.%d" % (tag, i)) for i in range(length)]),
                   symx.oarray([symx.real("%sw.%d" % (tag, i)) for i in range(length)]))
    return {"params": pars, "disp": d, "cutoff": symx.real("%scutoff" % tag) if tag == "in." else 0.0}


def unit_sasview(cfg):
    name, dim, disp, length, entry, magnetic = cfg
    from sasmodels import sasview_model
    label = "sasview/%s/%s/%s/%s%s" % (name, dim, entry, "%s=%d" % (disp, length) if disp else "mono",
                                       "/magnetic=" + magnetic if magnetic else "")
    u = Unit(label, timeout_ms=60000)
    install_shims()
    km = KModel.get(name)
    info = km.info
    req = sasview_reqs(info, dim, disp, magnetic, "in.", length)
    pre = sasview_reqs(info, dim, None, None, "pre.")
    op_t = z3.Int("pre.op")
    A = [op_t >= 0, op_t <= 3]
    by = {par.name: par for par in info.parameters.call_parameters}
    for k, v in pre["params"].items():          # earlier calls used parameter values inside the limits
        lo, hi = by[k].limits
        A += [c for c in (v.t >= symx.rat(lo) if np.isfinite(lo) else None,
                          v.t <= symx.rat(hi) if np.isfinite(hi) else None) if c is not None]

    def fn():
        _GW["calls"], _GW["length"], _GW["mode"] = 0, length, None
        builds = []
        Model = sasview_model.make_model_from_info(info)      # a new class: _model is None
        with patched_build(lambda i: km.make_model(), builds):
            op = int(Sym(op_t))
            m = sasview_prefix(Model, op, req, pre, sym_q(dim, "pre."), entry)   # earlier calls: other q
            sasview_set(m, req)
            W = Watch()
            q = sym_q(dim)
            for i, a in enumerate(q):
                W.add("%s:q[%d]" % (entry, i), a)
            W.add("%s:self.params" % entry, m.params)
            W.add("%s:self.dispersion" % entry, m.dispersion)
            sink = []
            with watched_kernel_args(W, sink):
                r = run_entry(lambda: sasview_request(m, req, q, entry), W)
        r["mesh"] = sink[-1][0] if sink else None
        r["pre_state"] = 1 + op
        r["notes"] = {"prefix": SV_OPS[op], "build_model_calls": len(builds),
                      "kernel_calls": len(Model._model.calls) if Model._model is not None else 0}
        return r

    ex = symx.Explorer(timeout_ms=20000, max_paths=600, abstract=True, int_range=8)
    paths = ex.explore(fn, A)
    u.absorb(ex, paths)
    u.reachable(label, A)
    u.functions("sasmodels.sasview_model.make_model_from_info", "sasmodels.sasview_model.SasviewModel.__init__",
                "sasmodels.sasview_model.SasviewModel.setParam", "sasmodels.sasview_model.SasviewModel.clone",
                "sasmodels.sasview_model.SasviewModel.calculate_Iq", "sasmodels.sasview_model.SasviewModel._calculate_Iq",
                "sasmodels.sasview_model.SasviewModel.evalDistribution", "sasmodels.sasview_model.SasviewModel._get_weights",
                "sasmodels.sasview_model.SasviewModel.set_dispersion", "sasmodels.weights.ArrayDispersion.set_weights",
                "sasmodels.weights.Dispersion.get_weights (trivial distributions, limits test)")
    ctx = dict(name=name, dim=dim, entry=entry, req=req, paths=paths, family="sasview")
    judge(u, label, paths, _o1_sasview_handler(ctx), _o2_sasview_handler(ctx), sample_ctx={"config": label},
          is_ref=lambda p: p.result["pre_state"] == 1)
    return u.r


class _FillNp:
    """numpy whose ``empty`` returns memory with a chosen content.  Used by the
    replays of entry points that allocate their kernel inside the call: what
    ``np.empty`` hands out there is whatever an earlier call left on the heap,
    which a replay cannot steer through the public interface."""

    def __init__(self, fill):
        self._fill = fill

    def __getattr__(self, name):
        return getattr(np, name)

    def empty(self, shape, dtype=float, *a, **kw):
        out = np.empty(shape, dtype, *a, **kw)
        if out.dtype.kind == "f":
            out.ravel()[:] = self._fill + 0.125 * np.arange(out.size)
        return out


@contextlib.contextmanager
def heap_content(fill):
    saved = kerneldll.np, kernelpy.np
    kerneldll.np = kernelpy.np = _FillNp(fill)
    try:
        yield
    finally:
        kerneldll.np, kernelpy.np = saved


def real_sasview(name, entry, req, pre, q, ops=(0, 1, 2, 3)):
    """The request on the real SasviewModel after each prefix of operations
    (new class object per run, so each starts without a compiled model), with
    two different contents of the uninitialised memory."""
    from sasmodels import sasview_model
    outs, errs = [], []
    qv = [np.asarray(v, dtype=float) for v in q]
    for op in ops:
        for fill in (3.25, 17.5):
            Model = sasview_model._make_standard_model(name)
            try:
                with heap_content(fill):
                    m = sasview_prefix(Model, op, req, pre, [1.5 * v for v in qv], entry)
                    sasview_set(m, req)
                    outs.append(bits(sasview_request(m, req, qv, entry)))
                errs.append(None)
            except Exception as e:
                outs.append(("raise:" + type(e).__name__).encode())
                errs.append(repr(e))
    return outs, errs


def _sv_conc(ctx, mm, pre_generic=True):
    req = concretize(mm, ctx["req"])
    info = core.load_model_info(ctx["name"])
    pre = {"params": {}, "disp": {}, "cutoff": 0.0}
    for par in info.parameters.user_parameters({}, is2d=True):
        if par.name in req["params"]:
            d = float(par.default)
            pre["params"][par.name] = C._clip_inside(d * 1.0625 + (0.03125 if d == 0 else 0), par.limits[0],
                                                     par.limits[1], d)
    q = [[0.0125, 0.125]] if ctx["dim"] == "1d" else [[0.0125], [0.03125]]
    return req, pre, q


def _o1_sasview_handler(ctx):
    def factory(rp):
        def mk(i, j, hyps, phi):
            def handler(m):
                m2 = generic_model(hyps, [z3.Not(phi)], input_prefs(hyps + [phi])) or m
                for mm in (m2, m):
                    req, pre, q = _sv_conc(ctx, mm)
                    outs, errs = real_sasview(ctx["name"], ctx["entry"], req, pre, q)
                    rep = len(set(outs)) > 1
                    if rep:
                        break
                ops = [rp[i].result["notes"]["prefix"], rp[j].result["notes"]["prefix"]]
                mesh = concretize(mm, rp[i].result["mesh"]) if rp[i].result["mesh"] is not None else []
                return {"reproduced": bool(rep),
                        "key": "C11/O1/sasview/%s/%s" % (ctx["entry"], _mesh_class(mesh) if mesh else "no-mesh"),
                        "what": "SasviewModel(%s).%s: the same request gives different results after different "
                                "histories (%s | %s)" % (ctx["name"], ctx["entry"], ops[0], ops[1]),
                        "inputs": {"replay": "sasview", "model": ctx["name"], "dim": ctx["dim"], "entry": ctx["entry"],
                                   "req": jsonable(req), "pre": jsonable(pre), "q": q},
                        "detail": {"exceptions": errs, "identical": not rep}, "block": None}
            return handler
        return mk
    return factory


def real_o2_sasview(name, entry, req, q):
    from sasmodels import sasview_model
    Model = sasview_model._make_standard_model(name)
    m = Model()
    sasview_set(m, req)
    W = Watch()
    qv = [np.asarray(v, dtype=float) for v in q]
    for i, a in enumerate(qv):
        W.add("%s:q[%d]" % (entry, i), a)
    W.add("%s:self.params" % entry, m.params)
    W.add("%s:self.dispersion" % entry, m.dispersion)
    exc = None
    with watched_kernel_args(W):
        try:
            sasview_request(m, req, qv, entry)
        except Exception as e:
            exc = repr(e)
    changed = {lab: diffs[:4] for lab, phi, diffs, _l in W.check() if not z3.is_true(z3.simplify(phi))}
    return changed, {"exception": exc}


def _o2_sasview_handler(ctx):
    def mk(pi, wlabel, diffs, log):
        def handler(m):
            hyps = ctx["paths"][pi].constraints()
            m2 = generic_model(hyps, [], input_prefs(hyps, objs=[ctx["req"]])) or m
            req, pre, q = _sv_conc(ctx, m2)
            changed, detail = real_o2_sasview(ctx["name"], ctx["entry"], req, q)
            rep = wlabel in changed
            return {"reproduced": bool(rep),
                    "key": "C11/O2/sasview/%s/%s" % (wlabel, _diff_kind(changed.get(wlabel) or diffs)),
                    "what": "SasviewModel(%s).%s modifies %s: %s" % (ctx["name"], ctx["entry"], wlabel,
                                                                     (changed.get(wlabel) or diffs)[:3]),
                    "inputs": {"replay": "o2-sasview", "model": ctx["name"], "dim": ctx["dim"],
                               "entry": ctx["entry"], "req": jsonable(req), "q": q, "watch": wlabel},
                    "detail": detail, "block": None}
        return handler
    return mk


# --------------------------------------------------------------------------
# family E: DirectModel (cached kernel, Iq_calc / results attributes) and the
# Iq / Iqxy helper functions

def direct_data(dim, smear):
    from sasmodels import data as sdata
    if dim == "1d":
        d = sdata.empty_data1D(np.array([0.0125, 0.125]), resolution=0.05 if smear else 0.0)
        if not smear:
            d.dx = None
        return d
    return sdata.empty_data2D(np.array([0.0125]), np.array([0.03125]), resolution=0.0)


def data_arrays(data):
    return {k: v for k, v in vars(data).items() if isinstance(v, (np.ndarray, float, int, str, type(None)))}


def direct_pars(info, dim, disp, tag):
    pars = dll_pars(info, dim, disp, None, "call_kernel")
    if tag != "in.":
        pars = {k: (symx.real(tag + str(v.t)[3:]) if isinstance(v, Sym) else v) for k, v in pars.items()}
    return pars


def direct_request(kind, name, model, data, pars, prior_dm=None):
    """One evaluation through the chosen interface; returns (result, DirectModel or None)."""
    if kind == "DirectModel":
        dm = prior_dm if prior_dm is not None else direct_model.DirectModel(data, model, cutoff=0.0)
        out = dm(**pars)
        return (out, dm.Iq_calc, None if dm.results is None else dm.results()), dm
    if kind == "Iq":
        return direct_model.Iq(name, data.x, **pars), None
    return direct_model.Iqxy(name, data.qx_data, data.qy_data, **pars), None


DM_OPS = {0: "fresh objects", 1: "the same DirectModel / interface evaluated before with other parameter values"}


def unit_direct(cfg):
    name, dim, disp, length, kind, smear = cfg
    label = "direct/%s/%s/%s/%s%s" % (name, dim, kind, "%s=%d" % (disp, length) if disp else "mono",
                                      "/pinhole" if smear else "")
    u = Unit(label, timeout_ms=60000)
    install_shims()
    km = KModel.get(name)
    info = km.info
    pars0 = direct_pars(info, dim, disp, "in.")
    pre0 = direct_pars(info, dim, None, "pre.")
    op_t = z3.Int("pre.op")
    A = [op_t >= 0, op_t <= 1]

    def fn():
        _GW["calls"], _GW["length"], _GW["mode"] = 0, length, None
        builds = []
        data = direct_data(dim, smear)
        W = Watch()
        W.add("%s:data" % kind, data_arrays(data))
        with patched_build(lambda i: km.make_model(), builds):
            model = core.build_model(info)
            op = int(Sym(op_t))
            dm = None
            if op == 1:
                _res, dm = direct_request(kind, name, model, data, dict(pre0))
            pars = RecDict(pars0)
            W.add("%s:pars" % kind, pars)
            sink = []
            with watched_kernel_args(W, sink):
                r = run_entry(lambda: direct_request(kind, name, model, data, pars, dm)[0], W)
            # the data object is still what the caller built
            W.items[0] = (W.items[0][0], data_arrays(data), W.items[0][2])
            r["watch"] = W.check()
        r["mesh"] = sink[-1][0] if sink else None
        r["pre_state"] = 1 + op
        r["notes"] = {"prefix": DM_OPS[op], "build_model_calls": len(builds)}
        return r

    ex = symx.Explorer(timeout_ms=20000, max_paths=600, abstract=True, int_range=8)
    paths = ex.explore(fn, A)
    u.absorb(ex, paths)
    u.reachable(label, A)
    u.functions("sasmodels.direct_model.DirectModel.__init__", "sasmodels.direct_model.DataMixin._interpret_data",
                "sasmodels.direct_model.DirectModel.__call__", "sasmodels.direct_model.DataMixin._calc_theory",
                "sasmodels.direct_model.Iq", "sasmodels.direct_model.Iqxy", "sasmodels.direct_model._direct_calculate",
                "sasmodels.resolution.Perfect1D.apply", "sasmodels.resolution.Pinhole1D.apply",
                "sasmodels.resolution2d.Pinhole2D.apply")
    ctx = dict(name=name, dim=dim, kind=kind, smear=smear, pars0=pars0, pre0=pre0, disp=disp, length=length,
               paths=paths, family="direct", entry=kind)
    judge(u, label, paths, _o1_direct_handler(ctx), _o2_direct_handler(ctx), sample_ctx={"config": label},
          is_ref=lambda p: p.result["pre_state"] == 1)
    return u.r


def _direct_conc(ctx, mm):
    """Plain-float parameter dictionaries realising the path of the witness."""
    pars = concretize(mm, ctx["pars0"])
    disp = ctx["disp"]
    if disp and pars.get(disp + "_pd", 0.0) != 0.0:
        if ctx["length"] == 0:
            # every point outside the limits of an angle: two points at +-500 degrees
            pars.update({disp + "_pd": 500.0, disp + "_pd_n": 2, disp + "_pd_nsigma": 1.0})
        else:
            pars.update({disp + "_pd": 0.125, disp + "_pd_n": 2, disp + "_pd_nsigma": 2.0})
    info = core.load_model_info(ctx["name"])
    pre = generic_pars(info, ctx["pre0"])
    return pars, pre


def real_direct(kind, name, dim, smear, pars, pre, ops=(0, 1)):
    model = C.real_model(name)
    outs, errs = [], []
    for op in ops:
        for fill in (3.25, 17.5):
            data = direct_data(dim, smear)
            try:
                with heap_content(fill):
                    dm = None
                    if op == 1:
                        _r, dm = direct_request(kind, name, model, data, dict(pre))
                    out, _dm = direct_request(kind, name, model, data, dict(pars), dm)
                outs.append(bits(out))
                errs.append(None)
            except Exception as e:
                outs.append(("raise:" + type(e).__name__).encode())
                errs.append(repr(e))
    return outs, errs


def _o1_direct_handler(ctx):
    def factory(rp):
        def mk(i, j, hyps, phi):
            def handler(m):
                m2 = generic_model(hyps, [z3.Not(phi)], input_prefs(hyps + [phi])) or m
                for mm in (m2, m):
                    pars, pre = _direct_conc(ctx, mm)
                    outs, errs = real_direct(ctx["kind"], ctx["name"], ctx["dim"], ctx["smear"], pars, pre)
                    rep = len(set(outs)) > 1
                    if rep:
                        break
                mesh = concretize(mm, rp[i].result["mesh"]) if rp[i].result["mesh"] is not None else []
                return {"reproduced": bool(rep),
                        "key": "C11/O1/direct/%s/%s" % (ctx["kind"], _mesh_class(mesh) if mesh else "no-mesh"),
                        "what": "%s on %s: the same request gives different results after different histories "
                                "(%s | %s)" % (ctx["kind"], ctx["name"], rp[i].result["notes"]["prefix"],
                                               rp[j].result["notes"]["prefix"]),
                        "inputs": {"replay": "direct", "model": ctx["name"], "dim": ctx["dim"], "kind": ctx["kind"],
                                   "smear": ctx["smear"], "pars": jsonable(pars), "pre": jsonable(pre)},
                        "detail": {"exceptions": errs, "identical": not rep}, "block": None}
            return handler
        return mk
    return factory


def real_o2_direct(kind, name, dim, smear, pars):
    model = C.real_model(name)
    data = direct_data(dim, smear)
    W = Watch()
    W.add("%s:data" % kind, data_arrays(data))
    pars = RecDict(pars)
    W.add("%s:pars" % kind, pars)
    exc = None
    with watched_kernel_args(W):
        try:
            direct_request(kind, name, model, data, pars)
        except Exception as e:
            exc = repr(e)
    W.items[0] = (W.items[0][0], data_arrays(data), W.items[0][2])
    changed = {lab: diffs[:4] for lab, phi, diffs, _l in W.check() if not z3.is_true(z3.simplify(phi))}
    return changed, {"exception": exc}


def _o2_direct_handler(ctx):
    def mk(pi, wlabel, diffs, log):
        def handler(m):
            hyps = ctx["paths"][pi].constraints()
            m2 = generic_model(hyps, [], input_prefs(hyps, objs=[ctx["pars0"]])) or m
            pars, _pre = _direct_conc(ctx, m2)
            changed, detail = real_o2_direct(ctx["kind"], ctx["name"], ctx["dim"], ctx["smear"], pars)
            rep = wlabel in changed
            return {"reproduced": bool(rep),
                    "key": "C11/O2/direct/%s/%s" % (wlabel, _diff_kind(changed.get(wlabel) or diffs)),
                    "what": "%s on %s modifies %s: %s" % (ctx["kind"], ctx["name"], wlabel,
                                                          (changed.get(wlabel) or diffs)[:3]),
                    "inputs": {"replay": "o2-direct", "model": ctx["name"], "dim": ctx["dim"], "kind": ctx["kind"],
                               "smear": ctx["smear"], "pars": jsonable(pars), "watch": wlabel},
                    "detail": detail, "block": None}
        return handler
    return mk


# --------------------------------------------------------------------------
# family F: the template cache (generate._template_cache)

def real_template(relation):
    """Real load_template on a scratch template directory: the cache holds an
    entry read when the file had an older / the same mtime; fresh oracle = the
    same call with an empty cache."""
    import os
    from vlib import scratch
    d = os.path.join(scratch(), "c11_templates_%d" % os.getpid())
    os.makedirs(d, exist_ok=True)
    path = os.path.join(d, "t.c")
    saved = generate.DATA_PATH, dict(generate._template_cache)
    generate.DATA_PATH = d
    try:
        generate._template_cache.clear()
        with open(path, "w") as f:
            f.write("old text")
        os.utime(path, (1000, 1000))
        generate.load_template("t.c")
        if relation == "older":
            with open(path, "w") as f:
                f.write("new text")
            os.utime(path, (2000, 2000))
        got = generate.load_template("t.c")[0]
        generate._template_cache.clear()
        want = generate.load_template("t.c")[0]
    finally:
        generate.DATA_PATH = saved[0]
        generate._template_cache.clear()
        generate._template_cache.update(saved[1])
    return got, want


def unit_template(_cfg):
    label = "template-cache/load_template"
    u = Unit(label)
    m_now, m_old = symx.real("in.mtime"), symx.real("pre.cached_mtime")
    text = lambda t: symx.uf("file_text_at", t)
    op_t = z3.Int("pre.op")
    A = [op_t >= 0, op_t <= 1, m_old.t <= m_now.t]

    class _File:
        def __enter__(self):
            return self

        def __exit__(self, *a):
            return False

        def read(self):
            return text(m_now)

    def fn():
        saved = generate.getmtime, dict(generate._template_cache), generate.__dict__.get("open")
        generate.getmtime = lambda path: m_now
        generate.open = lambda path, *a: _File()
        try:
            generate._template_cache.clear()
            op = int(Sym(op_t))
            if op == 1:      # an entry written by an earlier load, when the file had mtime m_old
                generate._template_cache["kernel_iq.c"] = (m_old, text(m_old), "<path>")
            got, path = generate.load_template("kernel_iq.c")
            return {"got": term(got), "op": op}
        finally:
            generate.getmtime = saved[0]
            generate._template_cache.clear()
            generate._template_cache.update(saved[1])
            if saved[2] is None:
                del generate.open
            else:
                generate.open = saved[2]

    ex = symx.Explorer(max_paths=20, int_range=4)
    paths = ex.explore(fn, A)
    u.absorb(ex, paths)
    u.reachable(label, A)
    u.functions("sasmodels.generate.load_template")
    for pi, p in enumerate(paths):
        if p.cut or p.exc is not None:
            u.error("path %d: %s" % (pi, p.cut or repr(p.exc)))
            continue
        H = p.constraints()
        u.sample({"config": label, "path": pi, "cache_entry_present": bool(p.result["op"]),
                  "path_condition": [str(c) for c in p.pc]})

        def handler(m, p=p):
            rel = "older" if symx.model_float(m, m_old.t) < symx.model_float(m, m_now.t) else "same"
            got, want = real_template(rel)
            return {"reproduced": got != want, "key": "C11/O1/template-cache/%s" % rel,
                    "what": "load_template returns %r from a cache entry read at an %s mtime; a fresh process "
                            "returns %r" % (got, rel, want),
                    "inputs": {"replay": "template", "relation": rel}, "block": None}
        u.prove("O1:template-text-is-the-current-file", p.result["got"] == term(text(m_now)), H, handler)
    return u.r


# --------------------------------------------------------------------------
# replay of a stored counterexample (real code only)

def replay(cex):
    i = cex["inputs"]
    kind = i["replay"]
    if kind == "kernel":
        mesh = [(v, np.array(d, dtype=float), np.array(w, dtype=float)) for v, d, w in i["mesh"]]
        rep, detail = real_o1_kernel(i["model"], i["dim"], i["entry"], i["q"], mesh, i["cutoff"], i["mode"],
                                     hist=tuple(tuple(x) for x in i.get("history_layout", ())))
    elif kind == "o2-kernel":
        changed, detail = real_o2_kernel(i["model"], i["dim"], i["entry"], i["q"], i["pars"], 0.0, i["mono"])
        rep, detail = i["watch"] in changed, dict(detail, changed=changed)
    elif kind == "o2-mesh":
        mesh = [(v, np.array(d, dtype=float), np.array(w, dtype=float)) for v, d, w in i["mesh"]]
        changed, detail = real_o2_mesh(i["model"], i["dim"], i["q"], mesh, 0.0)
        rep, detail = i["watch"] in changed, dict(detail, changed=changed)
    elif kind in ("sasview", "o2-sasview"):
        req = dict(i["req"], disp={k: (np.array(v[0], dtype=float), np.array(v[1], dtype=float))
                                   for k, v in i["req"]["disp"].items()})
        if kind == "sasview":
            outs, errs = real_sasview(i["model"], i["entry"], req, i["pre"], i["q"])
            rep, detail = len(set(outs)) > 1, {"exceptions": errs}
        else:
            changed, detail = real_o2_sasview(i["model"], i["entry"], req, i["q"])
            rep, detail = i["watch"] in changed, dict(detail, changed=changed)
    elif kind in ("sasview-clone", "o2-sasview-clone"):
        outs, errs, changed = real_clone(i["model"], i["entry"], i["req"], i["mut"], i["q"])
        rep = len(set(outs)) > 1 if kind == "sasview-clone" else i["watch"] in changed
        detail = {"exceptions": errs, "changed": changed}
    elif kind in ("sasview-shared", "o2-sasview-shared"):
        outs, errs, changed = real_shared(i["model"], i["entry"], i["A"], i["B"], i["R"], i["q"])
        rep = len(set(outs)) > 1 if kind == "sasview-shared" else i["watch"] in changed
        detail = {"exceptions": errs, "changed": changed}
    elif kind == "direct":
        outs, errs = real_direct(i["kind"], i["model"], i["dim"], i["smear"], i["pars"], i["pre"])
        rep, detail = len(set(outs)) > 1, {"exceptions": errs}
    elif kind == "o2-direct":
        changed, detail = real_o2_direct(i["kind"], i["model"], i["dim"], i["smear"], i["pars"])
        rep, detail = i["watch"] in changed, dict(detail, changed=changed)
    elif kind == "template":
        got, want = real_template(i["relation"])
        rep, detail = got != want, {"got": got, "fresh": want}
    else:
        raise ValueError("unknown replay kind %r" % kind)
    print("%s: %s" % ("REPRODUCED" if rep else "not reproduced", cex.get("what", "")[:300]))
    print(detail)
    return 1 if rep else 0


# --------------------------------------------------------------------------
# enumeration

def _empty_candidate(info, dim):
    """Parameter whose distribution is cut to nothing: an angle in 2-D when the
    model has one (the realistic case), else the first dispersible parameter."""
    if dim == "2d":
        ori = [p.name for p in info.parameters.call_parameters[2:2 + info.parameters.npars]
               if p.polydisperse and p.type == "orientation"]
        if ori:
            return ori[0]
    return first_pd(info, dim)


def configs(chk):
    items = []
    dll = list(DLL_MODELS)
    if not chk.quick:
        extra = [n for n in core.list_models() if not callable(core.load_model_info(n).Iq) and n not in dll]
        dll += extra[::2]
    for name in dll:
        info = core.load_model_info(name)
        for dim in ("1d", "2d"):
            pd = first_pd(info, dim)
            items.append(("dll", (name, dim, pd, 2, "call_kernel", None, False)))
            if pd:
                items.append(("dll", (name, dim, _empty_candidate(info, dim), 0, "call_kernel", None, False)))
            if dim == "1d" or name in ("sphere", "cylinder", "hollow_cylinder"):
                items.append(("dll", (name, dim, pd, 2, "call_Fq", None, False)))
            if name in ("sphere", "cylinder", "vesicle") and pd:
                items.append(("dll", (name, dim, pd, 2, "call_kernel", None, True)))
        slds = [p.name for p in info.parameters.call_parameters[2:2 + info.parameters.npars] if p.type == "sld"]
        if info.parameters.nmagnetic and (name in ("sphere", "cylinder", "core_shell_sphere") or not chk.quick):
            items.append(("dll", (name, "2d", None, 2, "call_kernel", slds[0], False)))
    for name in PY_MODELS:
        for dim in ("1d", "2d"):
            items.append(("py", (name, dim, None, 2, "call_kernel", None)))
    items.append(("py", ("line", "1d", None, 2, "call_Fq", None)))
    items.append(("py", ("teubner_strey", "2d", None, 2, "call_kernel", "sld_a")))
    for dim in ("1d", "2d"):
        items.append(("py", ("c11_pyshell", dim, "radius", 2, "call_kernel", None)))
        items.append(("py", ("c11_pyshell", dim, "thickness", 0, "call_kernel", None)))
        items.append(("py", ("c11_pyshell", dim, "thickness", 2, "call_Fq", None)))
    er, sf = "radius_effective_mode", "structure_factor_mode"
    items += [("comp", c) for c in [
        ("sphere@hardsphere", "1d", (), {er: 0, sf: 0}, False, False),
        ("sphere@hardsphere", "1d", (("radius", 2),), {er: 1, sf: 1}, False, False),
        ("sphere@hardsphere", "1d", (("radius", 0),), {er: 1, sf: 0}, False, False),
        ("cylinder@hardsphere", "2d", (("theta", 2),), {er: 1, sf: 0}, False, False),
        ("cylinder@hardsphere", "2d", (), {er: 0, sf: 1}, False, False),
        ("sphere+cylinder", "1d", (("A_radius", 2),), {}, False, False),
        ("sphere+cylinder", "2d", (("B_theta", 0),), {}, False, False),
        ("sphere*cylinder", "2d", (), {}, True, True),
        ("power_law+sphere", "1d", (), {}, False, False),
        ("sphere+sphere@hardsphere", "1d", (("B_radius", 2),), {}, False, True),
        # the same kernel object after another request with a different dispersity layout
        ("cylinder@hardsphere", "1d", (("radius", 2),), {er: 1, sf: 0}, False, False, (("length", 2),)),
        ("cylinder@hardsphere", "2d", (("theta", 2),), {er: 1, sf: 0}, False, False, (("radius", 2),)),
        ("sphere@hardsphere", "1d", (), {er: 1, sf: 1}, False, False, (("radius", 2),)),
        ("sphere+cylinder", "1d", (("A_radius", 2),), {}, False, False, (("B_radius", 2),)),
    ]]
    items += [("sasview", c) for c in [
        ("sphere", "1d", "radius", 2, "calculate_Iq", None),
        ("sphere", "1d", "radius", 0, "evalDistribution", None),
        ("cylinder", "2d", "theta", 0, "evalDistribution", None),
        ("cylinder", "2d", "radius", 2, "calculate_Iq", None),
        ("core_shell_sphere", "1d", None, 2, "calculate_Iq", None),
        ("hardsphere", "1d", None, 2, "evalDistribution", None),
        ("sphere", "2d", None, 2, "calculate_Iq", "sld"),
    ]]
    items += [("sasview-clone", c) for c in [
        ("sphere", "1d", "radius", "evalDistribution"),
        ("cylinder", "2d", "length", "calculate_Iq"),
    ]]
    items += [("sasview-shared", c) for c in [
        ("cylinder", "1d", "radius", "length", "evalDistribution"),
        ("sphere", "1d", "radius", None, "calculate_Iq"),
    ]]
    items += [("direct", c) for c in [
        ("sphere", "1d", "radius", 2, "DirectModel", False),
        ("sphere", "1d", None, 2, "DirectModel", True),
        ("cylinder", "2d", "theta", 0, "DirectModel", False),
        ("cylinder", "2d", "radius", 2, "DirectModel", False),
        ("ellipsoid", "1d", "radius_polar", 2, "DirectModel", False),
        ("sphere", "1d", "radius", 2, "Iq", False),
        ("cylinder", "2d", "theta", 0, "Iqxy", False),
    ]]
    if not chk.quick:
        items += [("sasview", c) for c in [
            ("ellipsoid", "2d", "theta", 0, "calculate_Iq", None),
            ("vesicle", "1d", "radius", 2, "evalDistribution", None),
            ("lamellar", "1d", "thickness", 2, "calculate_Iq", None),
            ("parallelepiped", "2d", "length_a", 2, "evalDistribution", None),
            ("cylinder", "2d", None, 2, "calculate_Iq", "sld")]]
        items += [("direct", c) for c in [
            ("hollow_cylinder", "1d", "radius", 2, "DirectModel", True),
            ("parallelepiped", "2d", "theta", 0, "DirectModel", False),
            ("vesicle", "1d", "thickness", 2, "Iq", False)]]
        items += [("comp", c) for c in [
            ("hollow_cylinder@hayter_msa", "1d", (("radius", 2),), {er: 2, sf: 1}, False, False),
            ("sphere+cylinder+ellipsoid", "1d", (), {}, False, True),
            ("sphere*sphere@hardsphere", "1d", (), {}, False, True)]]
    items.append(("template", None))
    items += [("validate", c) for c in [("dll", "sphere", "1d"), ("dll", "cylinder", "2d"), ("dll", "lamellar", "1d"),
                                        ("py", "line", "1d"), ("py", "line", "2d")]]
    return items


def _units():
    return {"dll": unit_dll, "py": unit_py, "comp": unit_comp, "sasview": unit_sasview,
            "direct": unit_direct, "template": unit_template, "validate": unit_validate,
            "sasview-clone": unit_sasview_clone, "sasview-shared": unit_sasview_shared}


def _label(item):
    kind, cfg = item
    return "%s/%s" % (kind, "/".join(str(x) for x in (cfg or ())))


def _dispatch(item):
    kind, cfg = item
    return _units()[kind](cfg)


def _prebuild(name):
    from vlib.llsym import build
    build.model_ir(core.load_model_info(name))
    return new_unit("prebuild " + name)


def run(chk):
    chk.explanation = (
        "One-step, arbitrary-pre-state (2-safety) check on the real code executed on z3 proxies. Every retained "
        "piece of state (DllKernel.result; PyKernel._parameter_vector/res/result and PyInput.q; the lazy results "
        "of ProductKernel/MixtureKernel and the leaf buffers under them; DirectModel._kernel/Iq_calc/results; "
        "SasviewModel._model, params, dispersion; generate._template_cache) holds fresh unconstrained symbols, and "
        "structural state (compiled model cached or not, kernel cached or not, instance cloned, entry evaluated "
        "before with other symbolic parameters) is produced by a prefix of real operations selected by a symbolic "
        "integer through the explorer. The request then runs through the real direct_model.call_kernel/call_Fq, "
        "DirectModel.__call__, Iq/Iqxy, SasviewModel.calculate_Iq/evalDistribution/setParam/set_dispersion/clone, "
        "make_kernel_args, DllModel/PyModel/ProductModel/MixtureModel.make_kernel and the kernels (compiled "
        "kernels by symbolic execution of the IR of their generated source; python kernels by the real "
        "PyKernel/_loops; product/mixture over recording stub leaves). O1: for every pair of completed paths "
        "(for prefix units: every pair with a fresh-state path) z3 proves that the two path conditions, the second "
        "with all non-input symbols renamed, imply equal result terms (incl. lazy intermediate results and "
        "refusals). O2: z3 proves per path that each caller-owned dict, q array, mesh, value vector and "
        "CallDetails equals its snapshot from before the entry point (key presence and shapes are structure). "
        "No invariant on the retained state is assumed, so histories of any length are covered.")
    chk.bounds = {
        "models": "compiled: %s (thorough: + every second other compiled model); python: %s + a synthetic python "
                  "shell model with dispersible parameters; compositions: sphere@hardsphere, cylinder@hardsphere, "
                  "sphere+cylinder, sphere*cylinder, power_law+sphere, sphere+sphere@hardsphere"
                  % (", ".join(DLL_MODELS), ", ".join(PY_MODELS)),
        "mesh": "mono; one dispersed parameter with 2 symbolic points; one distribution with 0 points (empty mesh); "
                "magnetic block of the first SLD symbolic (2-D); mono flag",
        "q": "2 symbolic points (1-D), 1 symbolic (qx,qy) (2-D); DirectModel / Iq / Iqxy: concrete 2-point grid, "
             "perfect and 5% pinhole resolution",
        "history (comp-hist units)": "the same ProductKernel/MixtureKernel object after one other request with a "
                                     "different dispersity layout (4 enumerated layout pairs, symbolic values); the "
                                     "requests sent to the leaf kernels are compared as part of the result",
        "prefix": "SasviewModel: 4 prefixes (fresh class; same instance evaluated before; other instance "
                  "evaluated before; clone of an evaluated instance); DirectModel/Iq/Iqxy: 2 (fresh; evaluated before)",
        "solver": "20 s per UF-abstracted query, 60 s per full query; unknown = inconclusive",
    }
    chk.outside = [
        "bit-identity across processes / rounding (doubles are reals): the claim is no dependence on retained "
        "state and unmodified inputs",
        "writes to the value vector or q by the compiled C code itself (the interpreter works on copies of the "
        "driver's buffers; kernel_iq.c declares them const)",
        "interior of the leaf functions, incl. python Iq functions writing to their arguments in place",
        "Gxi / SESANS and slit resolution objects, bumps_model, OpenCL/CUDA kernels, custom._MODULE_CACHE "
        "(reload semantics: C17)",
        "template cache entries newer than the file (mtime going backwards: C17)",
        "NaN filtering in the python loop (isnan is false on proxies)",
    ]
    chk.stubs = list(SHIMS) + list(C.SHIMS) + [
        "generate.getmtime / generate.open -> symbolic mtime and file text (template unit only)",
        "replays of entry points that allocate their kernel inside the call (SasviewModel, DirectModel, Iq/Iqxy) "
        "run with np.empty returning memory of two different chosen contents (heap_content): the content of "
        "uninitialised memory cannot be steered through the public interface; kernel-level replays pollute a "
        "kernel object by a real earlier call instead",
    ]
    chk.assumptions = [
        "call_Fq: 0 <= radius_effective_mode <= min(#modes, 2)",
        "magnetic 2-D units: qx^2 + qy^2 > 1e-16",
        "prefix calls use parameter values inside the parameter limits and cutoff 0",
        "3-leaf and magnetic compositions: leaf total weight and shell volume non-zero (keeps the path count down)",
        "template cache: the cached entry was read when the file's mtime was <= the current one, and the file "
        "text is a function of its mtime",
    ]
    items = configs(chk)
    if getattr(chk, "only", None):
        items = [it for it in items if chk.only in _label(it)]
    need = sorted({cfg[0] for kind, cfg in items if kind in ("dll", "sasview", "direct", "sasview-clone", "sasview-shared")})
    pmap(_prebuild, need)
    # long units first
    order = {"sasview": 0, "direct": 1, "comp": 2, "dll": 3, "py": 4, "template": 5, "validate": 6, "sasview-clone": 0, "sasview-shared": 0}
    items.sort(key=lambda it: (order[it[0]], 0 if "call_Fq" in _label(it) else 1))
    chk.add(pmap(_dispatch, items))
    chk.extra = {
        "pairs_without_common_request": sum(u.get("pairs_without_common_request", 0) for u in chk.units),
        "max_state_symbols_in_a_path": max([u.get("max_state_symbols_in_a_path", 0) for u in chk.units] or [0]),
    }


# --------------------------------------------------------------------------
# translator validation: the result terms of the symbolic run, evaluated in
# floats, against the real call

def _env_from_path(p, env, funcs):
    """Complete *env* with the named result cells (res!c!i == <leaf expression>)
    and report whether the path condition holds at the concrete inputs."""
    ok = True
    for c in p.constraints():
        if z3.is_eq(c) and c.arg(0).num_args() == 0 and str(c.arg(0)).startswith("res!"):
            env[str(c.arg(0))] = symx.evalf(c.arg(1), env, funcs)
        else:
            try:
                ok = ok and bool(symx.evalf(c, env, funcs))
            except KeyError:
                return False
    return ok


def unit_validate(cfg):
    kind, name, dim = cfg
    label = "validate/%s/%s/%s" % (kind, name, dim)
    u = Unit(label)
    install_shims()
    info = core.load_model_info(name)
    q = [[0.0125, 0.125]] if dim == "1d" else [[0.0125], [0.03125]]
    pars0 = dll_pars(info, dim, None, None, "call_kernel")
    fpars = generic_pars(info, pars0)
    cutoff = 0.0
    # real call
    model = _real_kernel_model(name)
    kern = model.make_kernel([np.array(v) for v in q])
    want = np.asarray(direct_model.call_kernel(kern, dict(fpars), cutoff=cutoff), dtype=float)
    class _Env(dict):
        def __missing__(self, key):          # unused tail cells of the result buffer
            if key.startswith("stale!"):
                return 0.731
            raise KeyError(key)
    env = _Env({"in.cutoff": cutoff})
    env.update({"in.v." + k: float(v) for k, v in fpars.items()})
    names = ["in.q0", "in.q1"] if dim == "1d" else ["in.qx0", "in.qy0"]
    env.update(dict(zip(names, [x for v in q for x in v])))
    funcs = {}
    if kind == "dll":
        # leaf values as the real compiled kernel produced them (mono: raw accumulators, weight 1)
        nq = len(q[0])
        nout = 2 if (info.have_Fq and dim == "1d") else 1
        raw = np.array(kern.result, dtype=float)
        byq = {}
        for i in range(nq):
            key = round(q[0][i], 12) if dim == "1d" else round(float(np.hypot(q[0][i], q[1][i])), 12)
            byq[key] = (raw[nout * i], raw[nout * i + 1] if nout == 2 else None)
        near = lambda x: byq[min(byq, key=lambda k: abs(k - x))]
        funcs = {"F2": lambda qq, *a: near(qq)[0], "F1": lambda qq, *a: near(qq)[1],
                 "Iq": lambda qq, *a: near(qq)[0],
                 "Iqac": lambda *a: raw[0], "Iqabc": lambda *a: raw[0], "Iqxy": lambda *a: raw[0],
                 "form_volume": lambda *a: raw[nout * nq + 1], "shell_volume": lambda *a: raw[nout * nq + 2]}
        km = KModel.get(name)

        def fn():
            kern_s = make_dll_kernel(km.make_model(), sym_q(dim))
            return flatten(direct_model.call_kernel(kern_s, dict(pars0), cutoff=symx.real("in.cutoff")))[1]
        ex = symx.Explorer(abstract=True, max_paths=50)
    else:
        def fn():
            kern_s = kernelpy.PyModel(copy.copy(info)).make_kernel(sym_q(dim))     # REAL python leaf
            kern_s.dtype = OBJ
            return flatten(direct_model.call_kernel(kern_s, dict(pars0), cutoff=symx.real("in.cutoff")))[1]
        ex = symx.Explorer(max_paths=50)
    paths = ex.explore(fn, [])
    u.absorb(ex, paths)
    u.functions("translator validation: symbolic result evaluated in floats vs real call_kernel")
    hit = 0
    for p in paths:
        if p.cut or p.exc is not None:
            u.error("validation path: %s" % (p.cut or repr(p.exc)))
            continue
        e = _Env(env)
        if not _env_from_path(p, e, funcs):
            continue
        hit += 1
        for i, t in enumerate(p.result):
            u.check_close("%s I[%d]" % (label, i), float(symx.evalf(t, e, funcs)), float(want[i]), rtol=1e-9)
    if hit != 1:
        u.error("%s: %d symbolic paths match the concrete inputs (expected 1)" % (label, hit))
    u.r["obligations"] += 1          # counted so that the unit is non-trivial; decided numerically
    u.r["discharged"] += 1
    return u.r


# --------------------------------------------------------------------------
# family D': an instance and its clone do not share settings.  The evaluated
# object's own settings (made before the cloning) are its inputs; what is done
# to the OTHER object afterwards is history.

CLONE_OPS = {0: "fresh instance configured and evaluated",
             4: "configured, cloned; the CLONE is re-configured (setParam value/width/npts/nsigmas); "
                "the ORIGINAL is evaluated",
             5: "configured, cloned; the ORIGINAL is re-configured; the CLONE is evaluated"}


def clone_reqs(info, dim, disp):
    req = sasview_reqs(info, dim, None, None, "in.")
    req["disp"] = {disp: {"width": symx.real("in.pd." + disp), "npts": 3,
                          "nsigmas": symx.real("in.nsigma." + disp)}}
    req["cutoff"] = 0.0
    mut = {"params": {k: symx.real("pre.v." + k) for k in req["params"]},
           "disp": {disp: {"width": symx.real("pre.pd." + disp), "npts": 5,
                           "nsigmas": symx.real("pre.nsigma." + disp)}}, "cutoff": 0.0}
    return req, mut


def clone_history(Model, op, req, mut, q, entry, W=None):
    """Returns the object to evaluate after the history selected by *op*."""
    m = Model()
    sasview_set(m, req)
    if W is not None:
        W.add("history:evaluated.params", m.params)
        W.add("history:evaluated.dispersion", m.dispersion)
    if op == 0:
        return m
    twin = m.clone()
    if W is not None and op == 5:
        # the clone is the evaluated object: its settings are those it was cloned with
        W.items[-2:] = [("history:evaluated.params", twin.params, purity.snapshot(twin.params)),
                        ("history:evaluated.dispersion", twin.dispersion, purity.snapshot(twin.dispersion))]
    other, evaluated = (twin, m) if op == 4 else (m, twin)
    sasview_set(other, mut)
    return evaluated


def unit_sasview_clone(cfg):
    name, dim, disp, entry = cfg
    from sasmodels import sasview_model
    label = "sasview-clone/%s/%s/%s/%s" % (name, dim, entry, disp)
    u = Unit(label, timeout_ms=60000)
    install_shims()
    km = KModel.get(name)
    info = km.info
    req, mut = clone_reqs(info, dim, disp)
    op_t = z3.Int("pre.op")
    A = [z3.Or(op_t == 0, op_t == 4, op_t == 5)]
    by = {par.name: par for par in info.parameters.call_parameters}
    for k, v in mut["params"].items():
        lo, hi = by[k].limits
        A += [c for c in (v.t >= symx.rat(lo) if np.isfinite(lo) else None,
                          v.t <= symx.rat(hi) if np.isfinite(hi) else None) if c is not None]

    def fn():
        _GW["calls"], _GW["length"], _GW["mode"] = 0, 3, "uf"
        builds = []
        Model = sasview_model.make_model_from_info(info)
        with patched_build(lambda i: km.make_model(), builds):
            op = int(Sym(op_t))
            W = Watch()
            m = clone_history(Model, op, req, mut, sym_q(dim, "pre."), entry, W)
            q = sym_q(dim)
            sink = []
            with watched_kernel_args(W, sink):
                r = run_entry(lambda: sasview_request(m, req, q, entry), W)
        r["mesh"] = sink[-1][0] if sink else None
        r["pre_state"] = 1 + op
        r["notes"] = {"prefix": CLONE_OPS[op], "mesh_lengths": [len(e[1]) for e in r["mesh"]] if sink else None}
        return r

    ex = symx.Explorer(timeout_ms=20000, max_paths=600, abstract=True, int_range=8)
    paths = ex.explore(fn, A)
    u.absorb(ex, paths)
    u.reachable(label, A)
    u.functions("sasmodels.sasview_model.SasviewModel.clone", "sasmodels.sasview_model.SasviewModel.setParam",
                "sasmodels.sasview_model.SasviewModel._get_weights", "sasmodels.sasview_model.SasviewModel._calculate_Iq")
    ctx = dict(name=name, dim=dim, entry=entry, req=req, mut=mut, paths=paths, family="sasview-clone")
    judge(u, label, paths, _o1_clone_handler(ctx), _o2_clone_handler(ctx), sample_ctx={"config": label},
          is_ref=lambda p: p.result["pre_state"] == 1)
    return u.r


def real_clone(name, entry, req, mut, q, ops=(0, 4, 5)):
    """Real SasviewModel: the request after each clone history (bit patterns),
    and whether the evaluated object's settings survived the history."""
    from sasmodels import sasview_model
    outs, errs, changed = [], [], {}
    qv = [np.asarray(v, dtype=float) for v in q]
    for op in ops:
        for fill in (3.25, 17.5):           # two contents of the uninitialised kernel buffers
            Model = sasview_model._make_standard_model(name)
            W = Watch()
            try:
                with heap_content(fill):
                    m = clone_history(Model, op, req, mut, [1.5 * v for v in qv], entry, W)
                    outs.append(bits(sasview_request(m, req, qv, entry)))
                errs.append(None)
            except Exception as e:
                outs.append(("raise:" + type(e).__name__).encode())
                errs.append(repr(e))
            for lab, phi, diffs, _l in W.check():
                if not z3.is_true(z3.simplify(phi)):
                    changed.setdefault(lab, []).extend(["op %d: %s" % (op, d) for d in diffs[:3]])
    return outs, errs, changed


def _clone_conc(ctx, mm):
    req, mut = concretize(mm, ctx["req"]), concretize(mm, ctx["mut"])
    q = [[0.0125, 0.125]] if ctx["dim"] == "1d" else [[0.0125], [0.03125]]
    return req, mut, q


def _o1_clone_handler(ctx):
    def factory(rp):
        def mk(i, j, hyps, phi):
            def handler(m):
                prefs = input_prefs(hyps + [phi], objs=[ctx["req"], ctx["mut"]])
                m2 = generic_model(hyps, [z3.Not(phi)], prefs) or m
                for mm in (m2, m):
                    req, mut, q = _clone_conc(ctx, mm)
                    outs, errs, _ch = real_clone(ctx["name"], ctx["entry"], req, mut, q)
                    rep = len(set(outs)) > 1
                    if rep:
                        break
                return {"reproduced": bool(rep), "key": "C11/O1/sasview-clone/%s" % ctx["entry"],
                        "what": "SasviewModel(%s).%s: the result depends on what was done to the other of "
                                "{instance, clone} (%s | %s)" % (ctx["name"], ctx["entry"],
                                                                 rp[i].result["notes"]["prefix"][:40],
                                                                 rp[j].result["notes"]["prefix"][:60]),
                        "inputs": {"replay": "sasview-clone", "model": ctx["name"], "dim": ctx["dim"],
                                   "entry": ctx["entry"], "req": jsonable(req), "mut": jsonable(mut), "q": q},
                        "detail": {"exceptions": errs, "identical": not rep}, "block": None}
            return handler
        return mk
    return factory


def _o2_clone_handler(ctx):
    def mk(pi, wlabel, diffs, log):
        def handler(m):
            hyps = ctx["paths"][pi].constraints()
            m2 = generic_model(hyps, [], input_prefs(hyps, objs=[ctx["req"], ctx["mut"]])) or m
            req, mut, q = _clone_conc(ctx, m2)
            _o, errs, changed = real_clone(ctx["name"], ctx["entry"], req, mut, q)
            rep = wlabel in changed
            return {"reproduced": bool(rep), "key": "C11/O2/sasview-clone/%s" % wlabel,
                    "what": "SasviewModel(%s): %s of the evaluated object is changed by operations on its "
                            "clone / original: %s" % (ctx["name"], wlabel.split(":")[1],
                                                      (changed.get(wlabel) or diffs)[:3]),
                    "inputs": {"replay": "o2-sasview-clone", "model": ctx["name"], "dim": ctx["dim"],
                               "entry": ctx["entry"], "req": jsonable(req), "mut": jsonable(mut), "q": q,
                               "watch": wlabel},
                    "detail": {"exceptions": errs}, "block": None}
        return handler
    return mk


# --------------------------------------------------------------------------
# family D'': one Dispersion object handed to set_dispersion more than once
# (two parameters of one model / one parameter of two instances) must not alias
# the stored records: later setParam('<A>.width/npts/nsigmas') is history for B.

SHARED_OPS = {0: "fresh model, one disperser object per set_dispersion call",
              6: "ONE GaussianDispersion object given to set_dispersion twice, then "
                 "setParam('<A>.width/.npts/.nsigmas') (intermediate values, then the final ones)"}


def _gauss(d):
    return weights.GaussianDispersion(npts=d["npts"], width=d["width"], nsigmas=d["nsigmas"])


def shared_reqs(info, dim, A, B):
    req = sasview_reqs(info, dim, None, None, "in.")
    req["cutoff"] = 0.0
    mk = lambda tag, par, n: {"width": symx.real("%spd.%s" % (tag, par)), "npts": n,
                              "nsigmas": symx.real("%snsigma.%s" % (tag, par))}
    # a: final settings of A (request input in the two-parameter variant); b: settings of the
    # evaluated record; hist: intermediate settings of A (pure history)
    return {"req": req, "a": mk("in.", A + ".final", 2), "b": mk("in.", B or A, 3), "hist": mk("pre.", A, 4)}


def shared_history(Model, op, A, B, R, W=None):
    """Object to evaluate.  B given: two parameters of one model; B None: the
    same parameter of two instances (the second one is evaluated)."""
    m = Model()
    sasview_set(m, R["req"])
    watch = lambda par: W is not None and W.add("history:dispersion[%s]" % par, m.dispersion[par])
    if B is not None:
        if op == 0:
            m.set_dispersion(A, _gauss(R["a"]))
            m.set_dispersion(B, _gauss(R["b"]))
            watch(B)
            return m
        g = _gauss(R["b"])
        m.set_dispersion(A, g)
        m.set_dispersion(B, g)
        watch(B)
        for d in (R["hist"], R["a"]):
            for k, v in d.items():
                m.setParam("%s.%s" % (A, k), v)
        return m
    if op == 0:
        m.set_dispersion(A, _gauss(R["b"]))
        watch(A)
        return m
    g = _gauss(R["b"])
    first = Model()
    sasview_set(first, R["req"])
    first.set_dispersion(A, g)
    m.set_dispersion(A, g)
    watch(A)
    for k, v in R["hist"].items():
        first.setParam("%s.%s" % (A, k), v)
    return m


def unit_sasview_shared(cfg):
    name, dim, A, B, entry = cfg
    from sasmodels import sasview_model
    label = "sasview-shared/%s/%s/%s/%s" % (name, dim, entry, "%s+%s" % (A, B) if B else "%s-of-two-instances" % A)
    u = Unit(label, timeout_ms=60000)
    install_shims()
    km = KModel.get(name)
    info = km.info
    R = shared_reqs(info, dim, A, B)
    op_t = z3.Int("pre.op")
    A0 = [z3.Or(op_t == 0, op_t == 6)]

    def fn():
        _GW["calls"], _GW["length"], _GW["mode"] = 0, 3, "uf"
        builds = []
        Model = sasview_model.make_model_from_info(info)
        with patched_build(lambda i: km.make_model(), builds):
            op = int(Sym(op_t))
            W = Watch()
            m = shared_history(Model, op, A, B, R, W)
            sink = []
            with watched_kernel_args(W, sink):
                r = run_entry(lambda: sasview_request(m, None, sym_q(dim), entry), W)
        r["mesh"] = sink[-1][0] if sink else None
        r["pre_state"] = 1 + op
        r["notes"] = {"prefix": SHARED_OPS[op], "mesh_lengths": [len(e[1]) for e in r["mesh"]] if sink else None}
        return r

    ex = symx.Explorer(timeout_ms=20000, max_paths=600, abstract=True, int_range=8)
    paths = ex.explore(fn, A0)
    u.absorb(ex, paths)
    u.reachable(label, A0)
    u.functions("sasmodels.sasview_model.SasviewModel.set_dispersion", "sasmodels.weights.Dispersion.get_pars",
                "sasmodels.weights.Dispersion.__init__", "sasmodels.sasview_model.SasviewModel.setParam",
                "sasmodels.sasview_model.SasviewModel._get_weights")
    ctx = dict(name=name, dim=dim, entry=entry, A=A, B=B, R=R, paths=paths, family="sasview-shared")
    judge(u, label, paths, _o1_shared_handler(ctx), _o2_shared_handler(ctx), sample_ctx={"config": label},
          is_ref=lambda p: p.result["pre_state"] == 1)
    return u.r


def real_shared(name, entry, A, B, R, q, ops=(0, 6)):
    from sasmodels import sasview_model
    outs, errs, changed = [], [], {}
    qv = [np.asarray(v, dtype=float) for v in q]
    for op in ops:
        for fill in (3.25, 17.5):
            Model = sasview_model._make_standard_model(name)
            W = Watch()
            try:
                with heap_content(fill):
                    m = shared_history(Model, op, A, B, R, W)
                    outs.append(bits(sasview_request(m, None, qv, entry)))
                errs.append(None)
            except Exception as e:
                outs.append(("raise:" + type(e).__name__).encode())
                errs.append(repr(e))
            for lab, phi, diffs, _l in W.check():
                if not z3.is_true(z3.simplify(phi)):
                    changed.setdefault(lab, []).extend(["op %d: %s" % (op, d) for d in diffs[:3]])
    return outs, errs, changed


def _shared_conc(ctx, mm):
    q = [[0.0125, 0.125]] if ctx["dim"] == "1d" else [[0.0125], [0.03125]]
    return concretize(mm, ctx["R"]), q


def _o1_shared_handler(ctx):
    def factory(rp):
        def mk(i, j, hyps, phi):
            def handler(m):
                m2 = generic_model(hyps, [z3.Not(phi)], input_prefs(hyps + [phi], objs=[ctx["R"]])) or m
                for mm in (m2, m):
                    R, q = _shared_conc(ctx, mm)
                    outs, errs, _ch = real_shared(ctx["name"], ctx["entry"], ctx["A"], ctx["B"], R, q)
                    rep = len(set(outs)) > 1
                    if rep:
                        break
                return {"reproduced": bool(rep),
                        "key": "C11/O1/sasview-shared/%s/%s" % (ctx["entry"], "two-parameters" if ctx["B"] else "two-instances"),
                        "what": "SasviewModel(%s).%s: with one Dispersion object given to set_dispersion twice, the "
                                "result depends on later setParam('%s.*') calls for the other record (%s)"
                                % (ctx["name"], ctx["entry"], ctx["A"], "parameter " + ctx["B"] if ctx["B"] else "second instance"),
                        "inputs": {"replay": "sasview-shared", "model": ctx["name"], "dim": ctx["dim"], "entry": ctx["entry"],
                                   "A": ctx["A"], "B": ctx["B"], "R": jsonable(R), "q": q},
                        "detail": {"exceptions": errs, "identical": not rep}, "block": None}
            return handler
        return mk
    return factory


def _o2_shared_handler(ctx):
    def mk(pi, wlabel, diffs, log):
        def handler(m):
            hyps = ctx["paths"][pi].constraints()
            m2 = generic_model(hyps, [], input_prefs(hyps, objs=[ctx["R"]])) or m
            R, q = _shared_conc(ctx, m2)
            _o, errs, changed = real_shared(ctx["name"], ctx["entry"], ctx["A"], ctx["B"], R, q)
            rep = wlabel in changed
            return {"reproduced": bool(rep),
                    "key": "C11/O2/sasview-shared/%s" % ("two-parameters" if ctx["B"] else "two-instances"),
                    "what": "SasviewModel(%s): the stored %s is changed by setParam('%s.*') on %s: %s"
                            % (ctx["name"], wlabel.split(":")[1], ctx["A"],
                               "the same model" if ctx["B"] else "another instance", (changed.get(wlabel) or diffs)[:3]),
                    "inputs": {"replay": "o2-sasview-shared", "model": ctx["name"], "dim": ctx["dim"],
                               "entry": ctx["entry"], "A": ctx["A"], "B": ctx["B"], "R": jsonable(R), "q": q,
                               "watch": wlabel},
                    "detail": {"exceptions": errs}, "block": None}
        return handler
    return mk
