"""C11 -- results do not depend on call history; inputs are not modified.

One-step, arbitrary-pre-state (2-safety) formulation.  Every piece of mutable
state that survives a call (DllKernel.result, PyKernel._parameter_vector /
res / result, PyInput.q, ProductKernel/MixtureKernel.results, the cached
kernel and intermediate attributes of DirectModel, SasviewModel._model, the
template cache) is given arbitrary symbolic content -- structural state (is a
kernel / compiled model cached or not, was the object cloned) is produced by a
short prefix of operations chosen by a symbolic integer through the explorer
-- and the request runs through the real code on z3 proxies.

O1  for every pair of completed paths z3 decides that the result terms agree
    when the pre-state symbols of one copy are renamed (vlib.purity.independence).
O2  caller-owned dicts / arrays / mesh / value vector / call details are
    compared before and after each entry point (one z3 formula over the entry
    terms; key presence and shapes are structure).
Counterexamples are replayed on the real library (compiled DLLs, plain floats):
request after a polluting call vs the request on fresh objects, bit for bit;
``dict(pars)`` before vs after.
"""
import contextlib
import copy
import re

import numpy as np
import z3

from vlib import symx, npshim, kharness, purity, compose as C
from vlib.harness import Unit, pmap, new_unit
from vlib.kharness import KModel
from vlib.purity import RecDict, Watch, flatten
from vlib.symx import Sym, term

from sasmodels import core, details, direct_model, weights, kernelpy, kerneldll, generate
from sasmodels.kerneldll import DllModel
from sasmodels.product import RADIUS_MODE_ID

OBJ = np.dtype(object)
PID = "C11"

DLL_MODELS = ["sphere", "cylinder", "ellipsoid", "core_shell_sphere", "hollow_cylinder",
              "parallelepiped", "vesicle", "hardsphere", "core_multi_shell", "lamellar"]
PY_MODELS = ["line", "broad_peak", "be_polyelectrolyte", "power_law", "teubner_strey"]

_LEAF_RE = re.compile(r"^L\d+\.")


def is_input(name):
    """Request inputs: symbols declared by the harness with prefix ``in.`` and
    the named outputs of the recording stub leaves (functions of the request)."""
    return name.startswith("in.") or bool(_LEAF_RE.match(name))


# --------------------------------------------------------------------------
# stubs shared by the units

_GW = {"length": 2, "calls": 0}
_REAL_GET_WEIGHTS = weights.get_weights


def _get_weights_stub(disperser, n, width, nsigmas, value, limits, relative):
    """weights.get_weights: the real function when the distribution is trivial
    (fewer than 2 points or zero width -- includes its limits test, which may
    return an EMPTY distribution); otherwise fresh symbolic (values, weights)
    of the unit's enumerated length (0 = every point cut off by the limits).
    The numerical content of a distribution is C02's subject."""
    if disperser == "array" or int(n) < 2 or width == 0:
        return _REAL_GET_WEIGHTS(disperser, n, width, nsigmas, value, limits, relative)
    k = _GW["calls"]
    _GW["calls"] += 1
    L = _GW["length"]
    return (symx.oarray([symx.real("in.d%d.%d" % (k, i)) for i in range(L)]),
            symx.oarray([symx.real("in.w%d.%d" % (k, i)) for i in range(L)]))


def install_shims():
    direct_model.float = npshim.ident_float
    weights.np = npshim.NpShim()
    weights.get_weights = _get_weights_stub
    kernelpy.np = purity.PyNp()
    C.install_shims()


SHIMS = [
    "direct_model.float -> identity on proxies",
    "weights.get_weights -> real function for trivial distributions (n<2 or width==0, incl. its limits test); "
    "otherwise fresh symbolic (values, weights) of the enumerated length 2 or 0; weights.np -> vlib.npshim",
    "ctypes entry points of DllModel -> IR interpreter of the model's real generated kernel on the driver's own "
    "buffers (vlib.kharness.SymDll); DllKernel._as_dtype -> identity; C leaves Iq/Fq/form_volume/... uninterpreted",
    "np.empty buffers (DllKernel.result, PyKernel.res/_parameter_vector, PyInput.q) -> fresh symbols = arbitrary "
    "previous contents; kernelpy.np.zeros/asarray/isnan -> vlib.purity.PyNp / vlib.npshim (isnan false on proxies)",
    "PyKernel.dtype -> object after the real __init__; python leaves Iq/Iqxy/form_volume/shell_volume/"
    "radius_effective -> uninterpreted functions of the CURRENT contents of the argument views",
    "product/mixture leaves -> recording stub kernels (vlib.compose); product.int -> identity on proxies",
    "sasview_model.core.build_model / direct_model core.build_model -> SymDll of the same model",
]


@contextlib.contextmanager
def watched_kernel_args(W, sink=None):
    """details.make_kernel_args as seen from direct_model / sasview_model, with
    the mesh (its argument) and the value vector + call details (the arguments
    of the kernel call that follows) registered as caller-owned objects."""
    real = details.make_kernel_args

    def mka(kernel, mesh):
        W.add("make_kernel_args:mesh", mesh)
        cd, values, mag = real(kernel, mesh)
        W.add("kernel():values", values)
        W.add("kernel():call_details", cd)
        if sink is not None:
            sink.append((mesh, mag))
        return cd, values, mag

    from sasmodels import sasview_model
    saved = direct_model.make_kernel_args, sasview_model.make_kernel_args
    direct_model.make_kernel_args = sasview_model.make_kernel_args = mka
    try:
        yield
    finally:
        direct_model.make_kernel_args, sasview_model.make_kernel_args = saved


def concretize(m, obj):
    """Plain-float copy of a structure of proxies under solver model *m*."""
    if isinstance(obj, Sym):
        v = symx.model_float(m, obj.t)
        return v if isinstance(v, int) and z3.is_int(obj.t) else float(v)
    if isinstance(obj, dict):
        return {k: concretize(m, v) for k, v in obj.items()}
    if isinstance(obj, np.ndarray):
        if obj.dtype == object:
            return np.array([concretize(m, v) for v in obj.ravel()], dtype=float).reshape(obj.shape)
        return obj.copy()
    if isinstance(obj, (list, tuple)):
        return type(obj)(concretize(m, v) for v in obj)
    return obj


def generic_model(H, extra, prefs):
    """A model of the counterexample query in which as many request inputs as
    possible take generic values (replays then do not cancel by accident)."""
    return C.robust_model(symx.abstract_ufs(list(H) + list(extra)), prefs, timeout_ms=20000, budget_s=8.0)


def input_prefs(ts, salt=0):
    """(const, preferred value) for every ``in.`` symbol of the terms."""
    prefs = []
    for k, (name, c) in enumerate(sorted(symx.consts_of(ts).items())):
        if not name.startswith("in.") or not z3.is_real(c):
            continue
        if name.startswith("in.w"):
            val = 0.5 + 0.125 * (k % 3)
        elif "cutoff" in name:
            val = 0.0
        elif name.startswith("in.q"):
            val = 0.0125 * (1 + k % 5)
        else:
            val = 1.25 + 0.0625 * ((k + salt) % 13)
        prefs.append((c, val))
    return prefs


def bits(x):
    """Bit pattern of a result (tuple of arrays / None / floats) for exact comparison."""
    out = []

    def walk(o):
        if o is None:
            out.append(b"None")
        elif isinstance(o, (tuple, list)):
            for v in o:
                walk(v)
        elif isinstance(o, dict):
            for k, v in o.items():
                out.append(str(k).encode())
                walk(v)
        elif callable(o):
            out.append(b"callable")
        else:
            out.append(np.asarray(o, dtype=float).tobytes())
    walk(x)
    return b"|".join(out)
