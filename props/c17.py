"""C17 -- the compiled-model cache always reflects the current sources.

The REAL ``core.load_model`` -> ``custom.load_custom_kernel_module`` /
``need_reload`` -> ``modelinfo.make_model_info`` -> ``generate.make_source`` /
``load_template`` -> ``kerneldll.load_dll`` / ``make_dll`` / ``dll_name`` ->
``DllModel._load_dll`` run on a virtual filesystem (``vlib.vfs``) holding a
plugin model with an included C file and the two kernel templates.

Symbolic: the history (``op<i>``: edit .py / included .c / template to another
text of a 3-version pool, change precision, load+evaluate, new process) and
every modification time (initial stamps ``m0_*`` and the clock ``t<i>`` at each
step, reals).  The comparisons the real code makes on the stamps
(``cache_time < mtime``, ``max``, ``mtime > cached``) fork in the explorer and
z3 decides which outcomes are possible under the clock model.  File texts are
concrete so that the real crc32 tag runs.
"""
import copy
import hashlib
import json
import os
import re
import shutil
import subprocess
import sys
import tempfile
import time

import numpy as np
import z3

import vlib
from vlib import symx, vfs as V
from vlib.harness import Unit, pmap
from vlib.symx import Sym

from sasmodels import core, generate, kerneldll, custom, modelinfo

NPDTYPE = {"double": np.dtype("float64"), "single": np.dtype("float32"),
           "quad": np.dtype("longdouble")}
VROOT = "/verif-virtual/c17"
VDLL = VROOT + "/cache/compiled_models"
NVER = 3
PYCONST = [1.0, 2.0, 4.0]
QVAL = [0.05]

# --------------------------------------------------------------------------
# the text pool

_PY = '''r"""
vplug: plugin model of the cache-consistency check, text version %(k)d
"""
from numpy import inf
name = "vplug"
title = "verification plugin"
description = "constant plus included C function"
category = "shape-independent"
parameters = [%(pars)s]
source = ["%(cname)s"]
c_code = """
const char vplug_mark_py[] = "VERIF_MARK_PY_%(k)d";
#ifndef VPLUG_HAVE_CFUN
static double vplug_cfun(double q) { return 0.0; }   /* the plugin's own include is missing */
#endif
"""
Iq = """
    /* VERIF_MARK_PY_%(k)d */
    return %(expr)s;
"""
'''
_PAR_AMP = '["amp", "", 1.0, [0, inf], "", "amplitude"]'
_PAR_EXTRA = '["extra", "", 4.0, [0, inf], "", "extra term"]'


def py_text(k):
    pars = _PAR_AMP if k < 2 else _PAR_AMP + ", " + _PAR_EXTRA
    expr = ["amp*(1.0 + vplug_cfun(q))", "amp*(2.0 + vplug_cfun(q))",
            "amp*(extra + vplug_cfun(q))"][k]
    return _PY % {"k": k, "pars": pars, "expr": expr, "cname": c_include_name()}


_CNAME = []


def c_include_name():
    """Relative name of the plugin's included C file: deliberately the name of a
    file that also ships with sasmodels (a user's modified copy beside the plugin
    must win over the shipped one)."""
    if not _CNAME:
        models = os.path.join(vlib.REPO, "sasmodels", "models")
        cands = ["lib/polevl.c", "lib/sas_erf.c", "lib/sas_J0.c"]
        libdir = os.path.join(models, "lib")
        if os.path.isdir(libdir):
            cands += ["lib/" + f for f in sorted(os.listdir(libdir)) if f.endswith(".c")]
        for c in cands:
            if os.path.exists(os.path.join(models, c)):
                _CNAME.append(c)
                break
        else:
            _CNAME.append("vplug_lib.c")
    return _CNAME[0]


def c_text(k):
    return ("/* VERIF_MARK_C_%d */\n#define VPLUG_HAVE_CFUN 1\n"
            "#ifndef VERIF_TPL_K\n#define VERIF_TPL_K 0.0\n#endif\n"
            "const char vplug_mark_c[] = \"VERIF_MARK_C_%d\";\n"
            "#if FLOAT_SIZE == 4\nconst char vplug_mark_fs[] = \"VERIF_MARK_FS_4\";\n"
            "#elif FLOAT_SIZE == 8\nconst char vplug_mark_fs[] = \"VERIF_MARK_FS_8\";\n"
            "#else\nconst char vplug_mark_fs[] = \"VERIF_MARK_FS_16\";\n#endif\n"
            "double vplug_cfun(double q);\n"
            "double vplug_cfun(double q) { return %d.0 + VERIF_TPL_K; }\n" % (k, k, 10 * (k + 1)))


_IQ_ANCHOR = "result[q_index] += weight * F2;"


def template_text(which, k, pristine):
    if k == 0:
        return pristine
    if which == "hdr":
        return pristine + ("\n#define VERIF_TPL_K %d.0\nconst char vplug_mark_h[] = \"VERIF_MARK_H_%d\";\n"
                           % (100 * k, k))
    if _IQ_ANCHOR not in pristine:
        raise V.VfsUnsupported("kernel_iq.c no longer contains %r: the template pool cannot be built"
                               % _IQ_ANCHOR)
    return pristine.replace(
        _IQ_ANCHOR, "result[q_index] += weight * F2 * %d.0; "
        "{ static const char *volatile vplug_mark_iq = \"VERIF_MARK_IQ_%d\"; (void)vplug_mark_iq; }"
        % (k + 1, k))


def expected_value(ver):
    return (PYCONST[ver["py"]] + 10.0 * (ver["c"] + 1) + 100.0 * ver.get("hdr", 0)) * (1 + ver.get("iq", 0))


_MARK = {f: re.compile(r"VERIF_MARK_%s_(\d)" % tag)
         for f, tag in (("py", "PY"), ("c", "C"), ("hdr", "H"), ("iq", "IQ"))}


def markers(text, files):
    """Versions of the pool texts a C source / library was built from."""
    out = {}
    for f in files:
        found = set(_MARK[f].findall(text))
        if f in ("hdr", "iq") and not found:
            found = {"0"}
        out[f] = sorted(int(x) for x in found)
    return out


class Pool:
    def __init__(self, data_path, plug_dir):
        self.paths = {"py": os.path.join(plug_dir, "vplug.py"),
                      "c": os.path.join(plug_dir, *c_include_name().split("/")),
                      "hdr": os.path.join(data_path, "kernel_header.c"),
                      "iq": os.path.join(data_path, "kernel_iq.c")}
        with open(os.path.join(vlib.REPO, "sasmodels", "kernel_header.c")) as f:
            hdr0 = f.read()
        with open(os.path.join(vlib.REPO, "sasmodels", "kernel_iq.c")) as f:
            iq0 = f.read()
        self.texts = {"py": [py_text(k) for k in range(NVER)],
                      "c": [c_text(k) for k in range(NVER)],
                      "hdr": [template_text("hdr", k, hdr0) for k in range(NVER)],
                      "iq": [template_text("iq", k, iq0) for k in range(NVER)]}


# --------------------------------------------------------------------------
# in-process state of the modules ("new process" = restore the import-time state)

_STATE_MODULES = (custom, generate, kerneldll, core, modelinfo)


def snapshot_state():
    snap = []
    for mod in _STATE_MODULES:
        for name, val in vars(mod).items():
            if name.startswith("__"):
                continue
            if isinstance(val, (dict, list, set)):
                snap.append((val, copy.copy(val)))
    return snap


def restore_state(snap):
    for live, saved in snap:
        if isinstance(live, dict):
            live.clear()
            live.update(saved)
        elif isinstance(live, list):
            live[:] = saved
        else:
            live.clear()
            live.update(saved)


_IMPORT_STATE = snapshot_state()


# --------------------------------------------------------------------------
# configuration of a tier

class Shape:
    """quick: 3 files, 4 operations.  thorough: variant "wide" = 4 files (both
    templates), 5 operations; variant "long" = 3 files, 6 operations."""

    def __init__(self, tier, variant=None):
        quick = tier == "quick"
        self.variant = variant or ("quick" if quick else "wide")
        self.files = ["py", "c", "iq", "hdr"] if self.variant == "wide" else ["py", "c", "iq"]
        self.dtypes = ["double", "quad", "single"]       # quad = long double
        self.length = {"quick": 4, "wide": 5, "long": 6}[self.variant]
        nf = len(self.files)
        self.n_edit = 2 * nf
        self.OP_DTYPE = self.n_edit          # precision -> next of the list
        self.OP_DTYPE2 = self.n_edit + 1     # precision -> the one after that
        self.OP_LOAD = self.n_edit + 2
        self.OP_NEWPROC = self.n_edit + 3
        self.nops = self.n_edit + 4

    def opname(self, op):
        if op < self.n_edit:
            return "edit-%s+%d" % (self.files[op // 2], op % 2 + 1)
        return {self.OP_DTYPE: "dtype+1", self.OP_DTYPE2: "dtype+2", self.OP_LOAD: "load",
                self.OP_NEWPROC: "newproc"}[op]


def symbols(shape):
    ops = [z3.Int("op%d" % i) for i in range(shape.length)]
    ts = [z3.Real("t%d" % i) for i in range(shape.length)]
    m0 = {f: z3.Real("m0_%s" % f) for f in shape.files}
    A = []
    for f in shape.files:
        A += [m0[f] >= 0, m0[f] <= ts[0]]           # files exist before the history starts
    for i in range(shape.length - 1):
        A.append(ts[i] <= ts[i + 1])                 # the clock never runs backwards
    for o in ops:
        A += [o >= 0, o < shape.nops]
    A.append(ops[-1] == shape.OP_LOAD)               # obligations are checked at loads;
                                                     # shorter histories are prefixes
    # steps without effect (the history is then a shorter one, covered as a prefix)
    A.append(ops[0] != shape.OP_NEWPROC)
    for i in range(shape.length - 1):
        A.append(z3.Not(z3.And(ops[i] == shape.OP_NEWPROC, ops[i + 1] == shape.OP_NEWPROC)))
        # two precision changes in a row are one (or none)
        isd = lambda o: z3.Or(o == shape.OP_DTYPE, o == shape.OP_DTYPE2)
        A.append(z3.Not(z3.And(isd(ops[i]), isd(ops[i + 1]))))
    return ops, ts, m0, A


# --------------------------------------------------------------------------
# the virtual world of one path

class World:
    def __init__(self, shape, pool, snap, m0):
        self.shape, self.pool, self.snap = shape, pool, snap
        restore_state(snap)
        self.vfs = V.VFS(volatile=[VDLL])
        self.vfs.add_dir(VDLL)
        self.ver = {f: 0 for f in shape.files}
        self.stamp = {}
        for f in shape.files:
            self.stamp[f] = Sym(m0[f])
            self.vfs.put(pool.paths[f], pool.texts[f][0], self.stamp[f])
        self.dtype_i = 0
        self.epoch = 0
        self.sources = []
        self.patch = V.Patch()
        V.attach_custom(self.patch, self.vfs, custom)
        V.attach_generate(self.patch, self.vfs, generate)
        V.attach_kerneldll(self.patch, self.vfs, kerneldll)
        self.patch.set(kerneldll, "SAS_DLL_PATH", VDLL)
        real_make_dll = kerneldll.make_dll

        def probe_make_dll(source, model_info, dtype=generate.F64, system=False):
            self.sources.append((source, np.dtype(dtype)))
            return real_make_dll(source, model_info, dtype=dtype, system=system)
        self.patch.set(kerneldll, "make_dll", probe_make_dll, "observation probe around the real make_dll")

    def close(self):
        self.patch.restore()
        restore_state(self.snap)

    def edit(self, f, version, stamp):
        self.ver[f] = version
        self.stamp[f] = stamp
        self.vfs.put(self.pool.paths[f], self.pool.texts[f][version], stamp)

    def newproc(self):
        restore_state(self.snap)
        self.epoch += 1

    def load(self):
        files = self.shape.files
        dt = self.shape.dtypes[self.dtype_i]
        want = NPDTYPE[dt]
        obs = {"want": dict(self.ver), "dtype": dt, "epoch": self.epoch, "exc": None,
               "compiles_before": self.vfs.compiles}
        del self.sources[:]
        try:
            model = core.load_model(self.pool.paths["py"], dtype=dt, platform="dll")
            model.make_kernel([np.array(QVAL)])
            lib = model._dll
            source, sdtype = self.sources[-1]
            obs.update(
                module=markers(model.info.Iq, ["py"])["py"],
                source=markers(source, files),
                source_digest=V.digest(source),
                library=markers(lib.text, files),
                library_digest=lib.digest,
                float_size=[int(x) for x in re.findall(r"#define FLOAT_SIZE (\d+)", lib.text)],
                built_from_source=(lib.digest == V.digest(generate.convert_type(source, sdtype))),
                path=model.dllpath, model_dtype=str(model.dtype), want_dtype=str(want),
                compiled=self.vfs.compiles - obs["compiles_before"])
        except V.VfsUnsupported:
            raise
        except Exception as e:      # the code under test raised
            obs["exc"] = ("%s: %s" % (type(e).__name__, e))[:300]
        return obs


LOAD_OBL = "load-serves-current-module-source-library-and-precision"


def judge(shape, loads):
    """Obligations over the loads of one path -> list of (name, ok, detail)."""
    files = shape.files
    res = []
    seen_path = {}
    earlier = {}
    for i, o in enumerate(loads):
        tag = "load%d" % i
        if o["exc"]:
            res.append(("no-exception", False, {"load": i, "stale": [], "exc": o["exc"]}))
            continue
        want = {f: [o["want"][f]] for f in files}
        size = np.dtype(o["want_dtype"]).itemsize
        stale_mod = o["module"] != want["py"]
        stale_src = [f for f in files if o["source"][f] != want[f]]
        stale_lib = [f for f in files if o["library"][f] != want[f]]
        bad_dtype = (o["float_size"] != [size] or o["model_dtype"] != o["want_dtype"])
        extra = (["dtype"] if bad_dtype else []) + ([] if o["built_from_source"] else ["library!=source"])
        if stale_mod:
            stage, stale = "module", ["py"]
        elif stale_src:
            stage, stale = "generated-source", stale_src
        elif stale_lib or extra:
            stage, stale = "library", stale_lib + extra
        else:
            stage, stale = None, []
        res.append((LOAD_OBL, stage is None, {"load": i, "stale": stale, "stage": stage}))
        ident = (o["source_digest"], o["want_dtype"])
        prev = seen_path.setdefault(o["path"], ident)
        res.append(("different-source-or-precision-never-share-a-library", prev == ident,
                    {"load": i, "stale": ["shared-path"]}))
        state = (tuple(o["want"][f] for f in files), o["want_dtype"])
        if state in earlier:
            e = earlier[state]
            same = (e["library_digest"] == o["library_digest"] and e["path"] == o["path"]
                    and e["library"] == o["library"])
            res.append(("revert-restores-earlier-result", same, {"load": i, "stale": ["revert"]}))
        else:
            earlier[state] = o
    return res


# --------------------------------------------------------------------------
# unit

def unit(cfg):
    if cfg.get("crc"):
        return crc_unit(cfg)
    shape = Shape(cfg["tier"], cfg.get("variant"))
    name = "history/%s/len=%d/%s" % (shape.variant, shape.length, "/".join(
        "op%d=%s" % (i, shape.opname(v)) for i, v in enumerate(cfg["prefix"])))
    u = Unit(name, timeout_ms=60000)
    u.functions("sasmodels.core.load_model", "sasmodels.core.load_model_info", "sasmodels.core.build_model",
                "sasmodels.core.parse_dtype", "sasmodels.generate.load_kernel_module",
                "sasmodels.custom.load_custom_kernel_module", "sasmodels.custom.need_reload",
                "sasmodels.custom._find_sources", "sasmodels.modelinfo.make_model_info",
                "sasmodels.generate.make_source", "sasmodels.generate.model_sources",
                "sasmodels.generate.load_template", "sasmodels.generate.read_text",
                "sasmodels.generate.tag_source", "sasmodels.generate.convert_type",
                "sasmodels.kerneldll.load_dll", "sasmodels.kerneldll.make_dll",
                "sasmodels.kerneldll.dll_path", "sasmodels.kerneldll.dll_name",
                "sasmodels.kerneldll.compile_model", "sasmodels.kerneldll.DllModel._load_dll")
    pool = Pool(generate.DATA_PATH, VROOT + "/plugins")
    snap = _IMPORT_STATE        # the state right after import, not whatever an earlier unit left
    restore_state(snap)
    if cfg.get("validate"):
        validate(u, shape, pool, snap)
    ops, ts, m0, A = symbols(shape)
    for i, v in enumerate(cfg["prefix"]):
        A.append(ops[i] == v)

    def choose(o, n):
        # fork over the feasible values of the symbolic operation code (bisection:
        # every decide() asks z3 which side is feasible under the path condition)
        ex = symx.current()
        lo, hi = 0, n - 1
        while lo < hi:
            mid = (lo + hi) // 2
            if ex.decide(o <= mid):
                hi = mid
            else:
                lo = mid + 1
        return lo

    def fn():
        ex = symx.current()
        w = World(shape, pool, snap, m0)
        try:
            done, loads = [], []
            for i in range(shape.length):
                op = choose(ops[i], shape.nops)
                done.append(op)
                if op < shape.n_edit:
                    f = shape.files[op // 2]
                    # the edit stamps the file with the clock, later than its previous stamp
                    ex.assume(ts[i] > symx.term(w.stamp[f]), check=False)
                    w.edit(f, (w.ver[f] + op % 2 + 1) % NVER, Sym(ts[i]))
                elif op in (shape.OP_DTYPE, shape.OP_DTYPE2):
                    w.dtype_i = (w.dtype_i + 1 + op - shape.OP_DTYPE) % len(shape.dtypes)
                elif op == shape.OP_LOAD:
                    loads.append(w.load())
                else:
                    w.newproc()
            return {"ops": done, "loads": loads}
        finally:
            w.close()

    ex = symx.Explorer(timeout_ms=20000, max_paths=60000, max_forks=400)
    t0 = time.time()
    paths = ex.explore(fn, A)
    u.absorb(ex, paths)
    u.reachable(name, A)
    u.note("%s: %d paths in %.1fs" % (name, len(paths), time.time() - t0))

    more = {}
    nloads = hits = 0
    for pi, p in enumerate(paths):
        if p.cut:
            u.error("path cut: %s" % p.cut)
            continue
        if p.exc is not None:
            u.error("harness failure on a path: %r" % (p.exc,))
            continue
        nloads += len(p.result["loads"])
        hits += sum(1 for o in p.result["loads"] if o.get("compiled") == 0)
        r = p.result
        H = p.constraints()
        if pi < 2:
            u.sample({"history": [shape.opname(o) for o in r["ops"]],
                      "mtime_branches": [str(c)[:100] for c in p.pc if "op" not in str(c)][:8],
                      "loads": [{k: o.get(k) for k in ("want", "dtype", "library", "path", "compiled")}
                                for o in r["loads"]]})
        by = {}
        for oname, ok, detail in judge(shape, r["loads"]):
            by.setdefault(oname, []).append((ok, detail))
        for oname, items in by.items():
            bad = [d for ok, d in items if not ok]
            if not bad:
                u.prove(oname, z3.BoolVal(True), H)
                continue
            d = bad[0]
            load = r["loads"][d["load"]]
            same_proc = _same_process_as_earlier_load(shape, r["ops"], d["load"])
            key = "C17/%s/%sstale=%s/%s" % (
                oname if oname != LOAD_OBL else "stale-load",
                "stage=%s/" % d["stage"] if d.get("stage") else "",
                "+".join(d["stale"]) or "exception",
                "same-process" if same_proc else "fresh-process")
            if not claim(key):
                u.r["obligations"] += 1
                more[key] = more.get(key, 0) + 1
                continue
            u.prove(oname, z3.BoolVal(False), H,
                    _handler(shape, r, oname, d, key, p, ops, ts, m0))
    for key, n in sorted(more.items()):
        u.note("%d further failing histories with signature %s (one witness of the signature is "
               "replayed per run; these are not, and their obligations stay undischarged)" % (n, key))
    u.note("%d loads on %d paths, %d served from the library cache" % (nloads, len(paths), hits))
    return u.r


def _same_process_as_earlier_load(shape, ops, load_index):
    """True when the failing load was preceded by another load in the same process."""
    n = -1
    loaded = False
    for op in ops:
        if op == shape.OP_NEWPROC:
            loaded = False
        elif op == shape.OP_LOAD:
            n += 1
            if n == load_index:
                return loaded
            loaded = True
    return False


def claim(key):
    d = os.path.join(vlib.scratch(), "c17-claims")
    os.makedirs(d, exist_ok=True)
    try:
        fd = os.open(os.path.join(d, hashlib.sha1(key.encode()).hexdigest()),
                     os.O_CREAT | os.O_EXCL | os.O_WRONLY)
        os.close(fd)
        return True
    except FileExistsError:
        return False


def _handler(shape, r, oname, detail, key, path, ops, ts, m0):
    def handler(m):
        for i, o in enumerate(r["ops"]):
            if m.eval(ops[i], model_completion=True).as_long() != o:
                raise RuntimeError("model value of op%d differs from the explored path" % i)
        # concrete mtimes: order-preserving map of the model's reals onto whole seconds
        vals = {"t%d" % i: m.eval(ts[i], model_completion=True) for i in range(shape.length)}
        vals.update({"m0_%s" % f: m.eval(m0[f], model_completion=True) for f in shape.files})
        fr = {k: v.as_fraction() if z3.is_rational_value(v) else v.approx(20).as_fraction()
              for k, v in vals.items()}
        ranks = {x: i for i, x in enumerate(sorted(set(fr.values())))}
        base = 1500000000
        secs = {k: base + 10 * ranks[x] for k, x in fr.items()}
        inputs = {"tier_files": shape.files, "dtypes": shape.dtypes, "ops": r["ops"],
                  "history": [shape.opname(o) for o in r["ops"]],
                  "mtime_model": {k: str(v) for k, v in vals.items()}, "mtime_seconds": secs,
                  "oracle": oname, "failing_load": detail["load"]}
        out = real_history(inputs)
        what = ("history %s with mtimes %s: %s" % (
            " ; ".join("%s@t%d" % (h, i) for i, h in enumerate(inputs["history"])),
            {k: v - base for k, v in sorted(secs.items())}, out["summary"]))
        return {"reproduced": oname in out["violated"], "key": key, "what": what,
                "inputs": inputs, "detail": out,
                "block": z3.And(*path.pc) if path.pc else None}
    return handler


# --------------------------------------------------------------------------
# replay on the real filesystem with real processes and the real compiler

WORKER = r'''
import json, os, sys
sys.path.insert(0, os.environ["VERIF_PKG"])
import numpy as np
from sasmodels import core
from sasmodels.direct_model import call_kernel
for line in sys.stdin:
    cmd = json.loads(line)
    try:
        model = core.load_model(cmd["path"], dtype=cmd["dtype"], platform="dll")
        kernel = model.make_kernel([np.array(cmd["q"])])
        val = call_kernel(kernel, {"scale": 1.0, "background": 0.0})
        import re
        with open(model.dllpath, "rb") as fh:
            blob = fh.read()
        marks = sorted(set(m.decode() for m in re.findall(rb"VERIF_MARK_[A-Z]+_\d+", blob)))
        out = {"ok": True, "value": [float(v) for v in val], "dll": model.dllpath,
               "dtype": str(model.dtype), "pid": os.getpid(), "marks": marks}
    except BaseException as e:
        out = {"ok": False, "error": ("%s: %s" % (type(e).__name__, e))[:400], "pid": os.getpid()}
    sys.stdout.write(json.dumps(out) + "\n")
    sys.stdout.flush()
'''


class RealHistory:
    def __init__(self, files):
        self.root = tempfile.mkdtemp(prefix="c17-replay-", dir=vlib.scratch())
        pkg = os.path.join(self.root, "pkg")
        shutil.copytree(os.path.join(vlib.REPO, "sasmodels"), os.path.join(pkg, "sasmodels"),
                        ignore=shutil.ignore_patterns("__pycache__", "*.pyc"))
        self.pkg = pkg
        self.pool = Pool(os.path.join(pkg, "sasmodels"), os.path.join(self.root, "plugins"))
        os.makedirs(os.path.dirname(self.pool.paths["c"]))
        self.dll = os.path.join(self.root, "cache", "compiled_models")
        with open(os.path.join(self.root, "worker.py"), "w") as f:
            f.write(WORKER)
        self.proc = None
        self.files = files

    def write(self, f, version, seconds):
        path = self.pool.paths[f]
        with open(path, "w") as fh:
            fh.write(self.pool.texts[f][version])
        os.utime(path, (seconds, seconds))

    def start(self):
        self.stop()
        env = dict(os.environ)
        for k in ("SAS_COMPILER", "CC", "CPPFLAGS", "LDFLAGS", "LIBS", "SAS_MODELPATH"):
            env.pop(k, None)
        env.update(SAS_DLL_PATH=self.dll, SAS_OPENCL="none", PYTHONDONTWRITEBYTECODE="1",
                   CFLAGS="-std=c99 -O1", HOME=self.root, VERIF_PKG=self.pkg)
        self.proc = subprocess.Popen([sys.executable, os.path.join(self.root, "worker.py")], env=env,
                                     stdin=subprocess.PIPE, stdout=subprocess.PIPE,
                                     stderr=subprocess.PIPE, cwd=self.root)

    def stop(self):
        if self.proc is not None:
            try:
                self.proc.stdin.close()
                self.proc.wait(timeout=30)
            except Exception:
                self.proc.kill()
            for s in (self.proc.stdout, self.proc.stderr):
                s.close()
            self.proc = None

    def load(self, dtype):
        if self.proc is None:
            self.start()
        self.proc.stdin.write((json.dumps({"path": self.pool.paths["py"], "dtype": dtype,
                                           "q": QVAL}) + "\n").encode())
        self.proc.stdin.flush()
        line = self.proc.stdout.readline()
        if not line:
            err = self.proc.stderr.read().decode("utf8", "replace")[-300:]
            self.stop()
            return {"ok": False, "error": "worker died: %s" % err}
        return json.loads(line)

    def close(self):
        self.stop()
        shutil.rmtree(self.root, ignore_errors=True)


def real_history(inputs):
    files, dtypes = inputs["tier_files"], inputs["dtypes"]
    shape_nedit = 2 * len(files)
    secs = inputs["mtime_seconds"]
    w = RealHistory(files)
    try:
        ver = {f: 0 for f in files}
        for f in files:
            w.write(f, 0, secs["m0_%s" % f])
        dtype_i = 0
        w.start()
        loads, violated, notes = [], set(), []
        seen_path, earlier = {}, {}
        for i, (op, opname) in enumerate(zip(inputs["ops"], inputs["history"])):
            if opname.startswith("edit-"):
                f = files[op // 2]
                ver[f] = (ver[f] + op % 2 + 1) % NVER
                w.write(f, ver[f], secs["t%d" % i])
            elif opname.startswith("dtype+"):
                dtype_i = (dtype_i + int(opname[6:])) % len(dtypes)
            elif opname == "newproc":
                w.start()
            else:
                dt = dtypes[dtype_i]
                libs_before = set(os.listdir(w.dll)) if os.path.isdir(w.dll) else set()
                o = w.load(dt)
                libs_after = set(os.listdir(w.dll)) if os.path.isdir(w.dll) else set()
                k = len(loads)
                want = expected_value(ver)
                state = (tuple(ver[f] for f in files), dt)
                o["expected"] = want
                o["versions"] = dict(ver)
                loads.append(o)
                if not o.get("ok"):
                    violated.add("no-exception")
                    if "worker died" in o.get("error", ""):
                        violated.add(LOAD_OBL)      # the process crashed evaluating what it was served
                        if libs_after == libs_before and libs_before and state not in earlier:
                            # no library was built for this new (texts, precision): it was
                            # served one that belongs to a different state
                            violated.add("different-source-or-precision-never-share-a-library")
                            notes.append("load %d built no library of its own" % k)
                    notes.append("load %d raises %s" % (k, o.get("error")))
                    continue
                text = " ".join(o.get("marks", []))
                got = markers(text, files)
                fs = re.findall(r"VERIF_MARK_FS_(\d+)", text)
                stale_marks = [f for f in files if got[f] != [ver[f]]]
                stale = not np.allclose(o["value"], want, rtol=1e-6)
                wrong_dtype = (np.dtype(o["dtype"]) != NPDTYPE[dt]
                               or fs != [str(NPDTYPE[dt].itemsize)])
                if stale or wrong_dtype or stale_marks:
                    violated.add(LOAD_OBL)
                    o["stale_in_library"] = stale_marks
                    notes.append("load %d (%s, texts %s) serves %s built from %s (FLOAT_SIZE %s) and evaluates "
                                 "to %s; the current sources give %s"
                                 % (k, dt, dict(ver), os.path.basename(o["dll"]),
                                    {f: got[f] for f in files}, fs, o["value"], want))
                prev = seen_path.setdefault(o["dll"], state)
                if prev != state:
                    violated.add("different-source-or-precision-never-share-a-library")
                    notes.append("load %d shares %s with the load of %s" % (k, os.path.basename(o["dll"]), prev))
                if state in earlier:
                    e = earlier[state]
                    if not np.allclose(e["value"], o["value"], rtol=1e-6) or e["dll"] != o["dll"]:
                        violated.add("revert-restores-earlier-result")
                        notes.append("load %d: same texts as an earlier load but %s/%s instead of %s/%s"
                                     % (k, o["value"], os.path.basename(o["dll"]), e["value"],
                                        os.path.basename(e["dll"])))
                else:
                    earlier[state] = o
        if not notes:
            notes.append("every real load evaluated the current sources")
        return {"violated": sorted(violated), "summary": "; ".join(notes), "loads": loads}
    finally:
        w.close()


def replay(cex):
    if cex["inputs"].get("kind") == "crc-collision":
        out = real_collision(cex["inputs"]["literal_a"], cex["inputs"]["literal_b"])
        print("real loader:", json.dumps(out)[:600])
        return 1 if out["reproduced"] else 0
    out = real_history(cex["inputs"])
    print("real filesystem / real processes:", out["summary"])
    print("violated:", out["violated"])
    return 1 if cex["inputs"]["oracle"] in out["violated"] else 0


# --------------------------------------------------------------------------
# validation of the virtual run against the real filesystem

def validate(u, shape, pool, snap):
    """The generated source and the library name computed on the virtual
    filesystem equal those the unstubbed code computes on real files."""
    real_dir = tempfile.mkdtemp(prefix="c17-val-", dir=vlib.scratch())
    try:
        rpool = Pool(generate.DATA_PATH, real_dir)
        os.makedirs(os.path.dirname(rpool.paths["c"]), exist_ok=True)
        for combo, dt in (((0, 0), "double"), ((1, 2), "single"), ((2, 1), "quad")):
            restore_state(snap)
            for f, k in zip(("py", "c"), combo):
                with open(rpool.paths[f], "w") as fh:
                    fh.write(rpool.texts[f][k])
            info = core.load_model_info(rpool.paths["py"])
            src_real = generate.make_source(info)["dll"]
            name_real = os.path.basename(kerneldll.dll_path(info.id + "_" + generate.tag_source(src_real),
                                                            NPDTYPE[dt]))
            restore_state(snap)
            # the same texts at the same paths, virtually
            vf = V.VFS(volatile=[VDLL])
            vf.add_dir(VDLL)
            for f, k in zip(("py", "c"), combo):
                vf.put(rpool.paths[f], rpool.texts[f][k], 1.0)
            for f in ("iq", "hdr"):
                vf.put(rpool.paths[f], rpool.texts[f][0], 1.0)
            os.unlink(rpool.paths["py"])
            os.unlink(rpool.paths["c"])
            patch = V.Patch()
            try:
                V.attach_custom(patch, vf, custom)
                V.attach_generate(patch, vf, generate)
                V.attach_kerneldll(patch, vf, kerneldll)
                patch.set(kerneldll, "SAS_DLL_PATH", VDLL)
                seen = []
                real_make_dll = kerneldll.make_dll

                def probe(source, model_info, dtype=generate.F64, system=False):
                    seen.append(source)
                    return real_make_dll(source, model_info, dtype=dtype, system=system)
                patch.set(kerneldll, "make_dll", probe)
                model = core.load_model(rpool.paths["py"], dtype=dt, platform="dll")
                model.make_kernel([np.array(QVAL)])
                src_virtual_ok = bool(seen) and seen[-1] == src_real
                name_virtual = os.path.basename(model.dllpath)
            finally:
                patch.restore()
                restore_state(snap)
            if src_virtual_ok:
                u.r["validated"] += 1
            else:
                u.r["validation_fail"] += 1
                u.error("validation: texts %s/%s: the source generated on the virtual filesystem (for %s) "
                        "differs from the one the unstubbed code generates from real files (%s)"
                        % (combo, dt, name_virtual, name_real))
    finally:
        shutil.rmtree(real_dir, ignore_errors=True)


# --------------------------------------------------------------------------
# thorough side query: the tag function (CRC-32) as a bit-vector term

CRC_KEY = "C17/crc32-tag-collision"


def _crc_step(crc, byte):
    """One byte of zlib's CRC-32 (reflected, polynomial 0xEDB88320) on z3 bit-vectors."""
    poly = z3.BitVecVal(0xEDB88320, 32)
    crc = crc ^ z3.ZeroExt(24, byte)
    for _ in range(8):
        crc = z3.If(z3.Extract(0, 0, crc) == 1, z3.LShR(crc, 1) ^ poly, z3.LShR(crc, 1))
    return crc


def _crc_run(state, bs):
    for b in bs:
        state = _crc_step(state, b)
    return state


def _collision_c_text(lit):
    return ("/* collision probe */\n#define VPLUG_HAVE_CFUN 1\n#ifndef VERIF_TPL_K\n#define VERIF_TPL_K 0.0\n#endif\n"
            "double vplug_cfun(double q);\n"
            "double vplug_cfun(double q) { return %s.0; }\n" % lit)


def real_collision(lit_a, lit_b):
    """Real loader: build with literal A, edit the included C file to literal B
    (mtime advanced), load again in the same and in a fresh process."""
    w = RealHistory(["py", "c", "iq"])
    try:
        base = 1500000000
        for f in ("py", "iq"):
            w.write(f, 0, base)
        cpath = w.pool.paths["c"]

        def put(lit, t):
            with open(cpath, "w") as fh:
                fh.write(_collision_c_text(lit))
            os.utime(cpath, (t, t))
        put(lit_a, base)
        w.start()
        first = w.load("double")
        put(lit_b, base + 100)
        same = w.load("double")
        w.start()
        fresh = w.load("double")
        want_a, want_b = PYCONST[0] + float(lit_a), PYCONST[0] + float(lit_b)
        ok = all(o.get("ok") for o in (first, same, fresh))
        stale = ok and (np.allclose(same["value"], want_a) or np.allclose(fresh["value"], want_a)) \
            and not np.allclose(want_a, want_b)
        shared = ok and first["dll"] == same["dll"] == fresh["dll"]
        return {"reproduced": bool(stale and shared), "first": first, "same_process": same,
                "fresh_process": fresh, "expected_after_edit": want_b}
    finally:
        w.close()


def crc_unit(cfg):
    import random
    import zlib
    u = Unit("crc32-tag/bit-vector-side-query", timeout_ms=600000)
    u.functions("sasmodels.generate.tag_source (zlib.crc32 as a z3 bit-vector term)",
                "sasmodels.kerneldll.make_dll (replay of the collision)")
    # translator validation: the bit-vector CRC is zlib's, through the real tag_source
    rnd = random.Random(17)
    for _ in range(8):
        text = "".join(chr(rnd.randrange(32, 127)) for _ in range(rnd.randrange(1, 24)))
        st = _crc_run(z3.BitVecVal(0xFFFFFFFF, 32), [z3.BitVecVal(b, 8) for b in text.encode("utf8")])
        got = z3.simplify(st ^ z3.BitVecVal(0xFFFFFFFF, 32)).as_long()
        if "%08X" % got == generate.tag_source(text) and got == (zlib.crc32(text.encode()) & 0xFFFFFFFF):
            u.r["validated"] += 1
        else:
            u.r["validation_fail"] += 1
            u.error("validation: bit-vector CRC of %r is %08X, tag_source gives %s" % (text, got, generate.tag_source(text)))
    s1, s2, s = z3.BitVecs("s1 s2 s", 32)
    c1, c2 = z3.BitVecs("c1 c2", 8)
    # (a) an edit confined to <= 4 consecutive bytes always changes the tag.  Three
    # lemmas decided by z3; their composition by induction over the bytes of the
    # common prefix (any state), the window, and the common suffix is stated here:
    #   L1  byte step is GF(2)-linear in (state, byte)
    #   L2  from the zero state a non-zero window of <= 4 bytes ends in a non-zero state
    #       (by L1 the states of two texts differing only in the window differ after it)
    #   L3  byte step is injective in the state (equal suffix bytes keep states different);
    #       the final xor with 0xFFFFFFFF is a bijection.
    u.reachable("crc lemmas", [s1 != s2])
    u.prove("crc32-byte-step-is-linear",
            _crc_step(s1 ^ s2, c1 ^ c2) == (_crc_step(s1, c1) ^ _crc_step(s2, c2)), [], axioms=False)
    for n in (1, 2, 3, 4):
        D = [z3.BitVec("d%d" % i, 8) for i in range(n)]
        u.prove("crc32-nonzero-window-of-%d-bytes-gives-nonzero-state" % n,
                _crc_run(z3.BitVecVal(0, 32), D) != 0, [z3.Or(*[d != 0 for d in D])], axioms=False)
    u.prove("crc32-byte-step-is-injective-in-state", _crc_step(s1, c1) != _crc_step(s2, c1),
            [s1 != s2], axioms=False)
    # (b) two different 8-digit numeric literals at the same place never give the same tag?
    n = 8
    A = [z3.BitVec("a%d" % i, 8) for i in range(n)]
    B = [z3.BitVec("b%d" % i, 8) for i in range(n)]
    hyps = [z3.Or(*[a != b for a, b in zip(A, B)])]
    for x in A + B:
        hyps += [z3.UGE(x, 48), z3.ULE(x, 57)]
    hyps += [A[0] != 48, B[0] != 48]

    def handler(m):
        a = bytes(m.eval(x, model_completion=True).as_long() for x in A).decode()
        b = bytes(m.eval(x, model_completion=True).as_long() for x in B).decode()
        ta = generate.tag_source("prefix " + a + " suffix")
        tb = generate.tag_source("prefix " + b + " suffix")
        out = real_collision(a, b)
        return {"reproduced": bool(out["reproduced"] and ta == tb), "key": CRC_KEY,
                "what": "included C file edited from 'return %s.0' to 'return %s.0' (mtime advanced): same "
                        "tag, library %s reused, evaluates to %s instead of %s in the same and in a fresh process"
                        % (a, b, os.path.basename(out["first"].get("dll", "?")),
                           out["fresh_process"].get("value"), out["expected_after_edit"]),
                "inputs": {"kind": "crc-collision", "literal_a": a, "literal_b": b, "oracle": "crc"},
                "detail": out, "block": z3.BoolVal(True)}
    u.prove("different-8-digit-literals-give-different-tags",
            _crc_run(s, A) != _crc_run(s, B), hyps, on_cex=handler, axioms=False)
    u.r["paths"] += 1
    u.sample({"lemmas": ["byte step linear", "non-zero window <=4 bytes -> non-zero state", "byte step injective"],
              "collision_query": "8 ASCII digits, any common prefix state"})
    return u.r


# --------------------------------------------------------------------------

def configs(chk):
    out = []
    first = True
    if not chk.quick:
        out.append({"crc": True, "tier": chk.tier})
    for variant in (["quick"] if chk.quick else ["wide", "long"]):
        shape = Shape(chk.tier, variant)
        for a in range(shape.nops):
            if a == shape.OP_NEWPROC:
                continue
            for b in range(shape.nops):
                if a in (shape.OP_DTYPE, shape.OP_DTYPE2) and b in (shape.OP_DTYPE, shape.OP_DTYPE2):
                    continue
                out.append({"tier": chk.tier, "variant": variant, "prefix": (a, b), "validate": first})
                first = False
    return out


def run(chk):
    shape = Shape(chk.tier)
    chk.explanation = (
        "The real load path (core.load_model -> custom.load_custom_kernel_module/need_reload -> "
        "make_model_info -> generate.make_source/load_template -> kerneldll.load_dll/make_dll/dll_name -> "
        "DllModel._load_dll) is executed on a virtual filesystem.  The history (op<i> in {edit .py, edit "
        "included .c, edit template: each to either other text of a 3-version pool, change precision among double / long double / single, "
        "load+evaluate, new process}) is a vector of symbolic integers and all modification times (initial "
        "stamps, clock at each step) are symbolic reals under the clock model; the explorer forks on every "
        "mtime comparison of the real code and z3 decides which outcomes are possible.  After every load "
        "on every path: the module, the generated source and the library served are those of the current "
        "texts and precision; one library path never stands for two different (source, precision); a state "
        "seen before gives the earlier library again.  Counterexamples (history + mtimes) are replayed in a "
        "real directory with os.utime, a private copy of the package for template edits, real worker "
        "processes and the real compiler.")
    chk.bounds = {"history length": ("4 operations" if chk.quick else "5 operations with both templates editable; "
                                     "6 operations with kernel_iq.c as the only editable template")
                                    + ", the last one a load (all shorter histories are prefixes)",
                  "files": "%s; 3 text versions each (constants, parameter table, included function, template body)"
                           % (shape.files if chk.quick else ["py", "c", "iq", "hdr"]),
                  "precisions": shape.dtypes,
                  "processes": "any number of process restarts within the history; one cache directory"}
    chk.outside = [
        "histories longer than the bound (the property text mentions ~12)",
        "CRC-32 collisions between different generated sources (the tag is not injective; no collision occurs in the pool)",
        "Python's own bytecode cache (.pyc keyed by whole-second mtime and size) - replays run with PYTHONDONTWRITEBYTECODE",
        "files whose mtime moves backwards or lies in the future of the clock; clock steps backwards",
        "sasview_model.load_custom_model / SasView's plugin reloading on top of core.load_model",
        "nested custom modules (a plugin importing another plugin), OpenCL/CUDA program caches",
        "concurrent loads and interrupted builds (C18)",
    ]
    chk.stubs = [
        "custom.os / custom.exists -> vfs (os.path.getmtime returns symbolic reals)",
        "custom.load_module_from_path -> vfs.load_module (executes the virtual text; linecache primed so inspect.getsource works)",
        "generate.getmtime / exists / open -> vfs",
        "kerneldll.os / tempfile / subprocess / ct / open / SAS_DLL_PATH -> vfs (scripted compiler: library = image of the C text it was given; CDLL reads it back)",
        "kerneldll.make_dll wrapped by an observation probe recording the generated source",
        "the plugin's included C file is named like a file shipped under sasmodels/models (%s): the plugin's "
        "own copy must be the one compiled" % c_include_name(),
        "'new process' = module-level containers of custom, generate, kerneldll, core, modelinfo restored to their import-time content",
    ]
    chk.assumptions = [
        "clock model: t0 <= t1 <= ...; every file's initial mtime is >= 0 and <= t0; an edit at step i stamps "
        "the file with t_i and t_i > that file's previous mtime (ties with other files and with cache times allowed)",
        "the last operation is a load (obligations are stated at loads)",
        "the build itself is atomic (C18 covers interleavings and kills)",
    ]
    chk.trusted.append("vlib.vfs (validated on every run against the unstubbed code on real files: same generated source, same library name)")
    cfgs = configs(chk)
    if getattr(chk, "only", None):
        keep = []
        for c in cfgs:
            if c.get("crc"):
                if chk.only in "crc32-tag":
                    keep.append(c)
                continue
            sh = Shape(chk.tier, c["variant"])
            nm = "%s/" % sh.variant + "/".join("op%d=%s" % (i, sh.opname(v)) for i, v in enumerate(c["prefix"]))
            if chk.only in nm:
                keep.append(c)
        cfgs = keep
        if cfgs and not cfgs[0].get("crc"):
            cfgs[0]["validate"] = True
    shutil.rmtree(os.path.join(vlib.scratch(), "c17-claims"), ignore_errors=True)
    results = pmap(unit, cfgs)
    table = {}
    for r in results:
        k = "/".join(r["unit"].split("/")[:3])
        t = table.setdefault(k, {"units": 0, "paths": 0, "obligations": 0, "discharged": 0, "unit_wall_s": 0.0})
        t["units"] += 1
        t["paths"] += r["paths"]
        t["obligations"] += r["obligations"]
        t["discharged"] += r["discharged"]
        t["unit_wall_s"] = round(t["unit_wall_s"] + r.get("wall_s", 0.0), 1)
    chk.extra["per_configuration"] = table
    chk.add(results)
