"""C07 -- P@S interaction models combine form and structure factor as documented.

The REAL ``core.load_model_info('P@S')`` / ``make_product_info``, the REAL
``core.build_model`` -> ``ProductModel.make_kernel`` -> ``ProductKernel.__init__``,
the REAL ``details.make_kernel_args`` and ``ProductKernel.Iq`` / ``results`` /
``_intermediates`` run on numpy object arrays of z3 proxies.  Only the two
leaves are abstract: P and S are recording stub kernels (real ``Kernel``
subclasses) whose ``_call_kernel`` captures its arguments and returns named
symbols for the raw accumulators; the real ``Kernel.Fq`` / ``Kernel.Iq`` run on
top of them.

Per (P, S, effective-radius mode, beta mode, 1-D/2-D, dispersed parameters)
the whole combined value vector is symbolic and z3 decides

 (a) P is handed exactly what ``make_kernel_args`` builds for P alone from the
     same named parameters (scale 1, background 0, magnetic block included);
 (b) S is handed R_eff (mode>0) or the user's value/distribution (mode 0),
     volfraction*<V_form>/<V_shell>, and its remaining parameters in order;
 (c) the documented combination formula;
 (d) ``results()`` reports the quantities actually used.

A second harness runs ``ProductKernel.__init__`` on fake infos with SYMBOLIC
integer parameter counts and shows that the slices partition the value vector.
"""
import math
from types import SimpleNamespace

import numpy as np
import z3

from vlib import symx, compose as C
from vlib.harness import Unit, pmap
from vlib.symx import Sym, term

from sasmodels import core, details, product
from sasmodels.product import RADIUS_ID, VOLFRAC_ID, RADIUS_MODE_ID, STRUCTURE_MODE_ID

S_MODELS = ["hardsphere", "hayter_msa", "squarewell", "stickyhardsphere"]
QUICK_P = ["sphere", "cylinder", "core_shell_sphere", "hollow_cylinder", "vesicle",
           "ellipsoid", "core_multi_shell", "fractal", "adsorbed_layer", "guinier",
           "lamellar", "mono_gauss_coil", "raspberry", "porod", "parallelepiped",
           "power_law"]
Q1 = [np.array([0.0125, 0.125])]
Q2 = [np.array([0.0125, 0.125]), np.array([0.03125, -0.0625])]

FUNCS = ["sasmodels.core.load_model_info ('P@S')", "sasmodels.product.make_product_info",
         "sasmodels.product.make_extra_pars", "sasmodels.product._tag_parameter",
         "sasmodels.core.build_model", "sasmodels.product.ProductModel.make_kernel",
         "sasmodels.product.ProductKernel.__init__", "sasmodels.product.ProductKernel.Iq",
         "sasmodels.product.ProductKernel.results / _intermediates",
         "sasmodels.details.make_kernel_args", "sasmodels.details.make_details",
         "sasmodels.details.convert_magnetism", "sasmodels.details.CallDetails",
         "sasmodels.kernel.Kernel.Fq", "sasmodels.kernel.Kernel.Iq",
         "sasmodels.modelinfo.ParameterTable (combined table)"]


# --------------------------------------------------------------------------
# the documented layout of the combined parameter table

def s_name_map(p_info, s_info):
    """S parameter name -> its name in P@S (``_S`` tag on collisions), per the
    module documentation of product.py; volfraction is P's when P owns one."""
    p_ids = set(p.id for p in p_info.parameters.kernel_parameters)
    out = {}
    for p in s_info.parameters.call_parameters[2:]:
        out[p.name] = p.name + "_S" if p.name in p_ids and p.name != VOLFRAC_ID else p.name
    if VOLFRAC_ID not in p_ids:
        out[VOLFRAC_ID] = VOLFRAC_ID
    return out


def expected_names(p_info, s_info):
    pp, sp = p_info.parameters, s_info.parameters
    vf_in_p = VOLFRAC_ID in pp
    smap = s_name_map(p_info, s_info)
    names = ["scale", "background"]
    names += [p.name for p in pp.call_parameters[2:2 + pp.npars]]
    names += [smap[p.name] for p in sp.call_parameters[2:2 + sp.npars]
              if not (p.name == VOLFRAC_ID and vf_in_p)]
    if p_info.have_Fq:
        names.append(STRUCTURE_MODE_ID)
    if p_info.radius_effective_modes is not None:
        names.append(RADIUS_MODE_ID)
    names += [p.name for p in pp.call_parameters[2 + pp.npars:]]
    return names


# --------------------------------------------------------------------------
# sub-configurations of one (P, S) pair

def subconfigs(p_info, s_info, quick, rng):
    pp, sp = p_info.parameters, s_info.parameters
    modes = ([None] if p_info.radius_effective_modes is None
             else list(range(len(p_info.radius_effective_modes) + 1)))
    if quick and len(modes) > 3:
        modes = [0, 1, modes[-1]]
    betas = [0, 1] if p_info.have_Fq else [None]
    re_pd = sp.call_parameters[2].polydisperse
    out = []
    for dim in ("1d", "2d"):
        pd = [p.name for p in pp.call_parameters[2:2 + pp.npars]
              if p.polydisperse and (dim == "2d" or p.type != "orientation")]
        disp = [()]
        singles = pd if not quick else ([pd[0]] if pd else [])
        disp += [((n, 3),) for n in singles]
        if re_pd:
            disp.append(((RADIUS_ID, 2),))
            both = pd if not quick else ([pd[-1]] if pd else [])
            disp += [((n, 2), (RADIUS_ID, 2)) for n in both]
        if len(pd) >= 2:
            disp.append(((pd[0], 2), (pd[-1], 3)))
        for mode in modes:
            for beta in betas:
                for d in disp:
                    out.append((mode, beta, dim, d, False))
                    if pp.nmagnetic > 0 and (len(d) == 0 or (not quick and len(d) == 1)):
                        out.append((mode, beta, dim, d, True))
    return out


def sub_name(sub):
    mode, beta, dim, disp, mag = sub
    return "%s/er_mode=%s/beta=%s/pd=%s%s" % (
        dim, mode, beta, "+".join("%s:%d" % d for d in disp) or "none", "/magnetic" if mag else "")


# --------------------------------------------------------------------------
# the harness for one sub-configuration

class Ctx:
    pass


def _arr(x):
    return [term(v) for v in np.asarray(x, dtype=object).ravel()]


def run_sub(u, ctx, sub, seen):
    mode, beta, dim, disp, mag = sub
    if C.unit_failed(u):
        return
    p_info, s_info, info = ctx.p_info, ctx.s_info, ctx.info
    pp, sp = p_info.parameters, s_info.parameters
    name = "%s@%s/%s" % (p_info.id, s_info.id, sub_name(sub))
    qv = Q1 if dim == "1d" else Q2
    nq = len(qv[0])
    vf_in_p = VOLFRAC_ID in pp
    smap = s_name_map(p_info, s_info)
    er_mode = mode or 0
    beta_on = bool(beta)

    rec, rec_ref = [], []
    kern = C.stub_build(info, [0, 1], rec).make_kernel(qv)
    pk = C.stub_build(p_info, [0], rec_ref).make_kernel(qv)
    sk = C.stub_build(s_info, [1], rec_ref).make_kernel(qv)

    concrete = {}
    if mode is not None:
        concrete[RADIUS_MODE_ID] = float(mode)
    if beta is not None:
        concrete[STRUCTURE_MODE_ID] = float(beta)
    lengths = {(smap[RADIUS_ID] if n == RADIUS_ID else n): L for n, L in disp}
    m0 = [p.name for p in info.parameters.call_parameters if p.name.endswith("_M0")]
    m0_sym = set([m0[0], m0[-1]]) if (mag and m0) else set()
    mesh, by = C.sym_mesh(info, lengths, concrete, m0_sym)
    cutoff = symx.real("cutoff")
    names = [p.name for p in info.parameters.call_parameters]

    def fn():
        del rec[:]
        del rec_ref[:]
        cd, vals, is_mag = details.make_kernel_args(kern, mesh)
        # the user's parameter values = the value block make_kernel_args builds
        val = dict(zip(names, list(vals[:len(names)])))
        vf = val[VOLFRAC_ID]
        try:
            out = kern(cd, vals, cutoff, is_mag)
        except NotImplementedError as e:
            return {"refused": str(e)}
        res = kern.results()
        calls = list(rec)
        # ---- reference: P alone from the same named parameters -------------
        mesh_p = []
        for p in pp.call_parameters:
            if p.name == "scale":
                mesh_p.append(C.const_entry(1.0))
            elif p.name == "background":
                mesh_p.append(C.const_entry(0.0))
            else:
                mesh_p.append(by[p.name])
        cdp, vp, magp = details.make_kernel_args(pk, mesh_p)
        F, Fsq, Re, Vs, ratio = pk.Fq(cdp, vp, cutoff, magp, er_mode)
        # ---- reference: S alone -------------------------------------------------
        mesh_s = []
        for p in sp.call_parameters:
            if p.name == "scale":
                mesh_s.append(C.const_entry(1.0))
            elif p.name == "background":
                mesh_s.append(C.const_entry(0.0))
            elif p.name == RADIUS_ID and er_mode > 0:
                mesh_s.append(C.const_entry(Re))
            elif p.name == VOLFRAC_ID:
                mesh_s.append(C.const_entry(vf * ratio))
            else:
                mesh_s.append(by[smap[p.name]])
        cds, vs, mags = details.make_kernel_args(sk, mesh_s)
        Sq = sk.Iq(cds, vs, cutoff, False)
        return {"out": out, "res": res, "calls": calls, "ref": list(rec_ref),
                "magp": magp, "F": F, "Fsq": Fsq, "Re": Re, "Vs": Vs, "ratio": ratio, "Sq": Sq,
                "scale": val["scale"], "bg": val["background"], "vf": vf}

    # The total_weight == 0 / shell_volume == 0 branches of the real Kernel.Fq are
    # explored in the plain sub-configuration of every (mode, beta, dim); the
    # dispersed / magnetic ones assume them away to keep the path count down.
    A = []
    if disp or mag:
        A = [z3.Real("L%d.%s" % (l, k)) != 0 for l in (0, 1) for k in ("tw", "sv")]
    ex = symx.Explorer(timeout_ms=20000, max_paths=600)
    paths = ex.explore(fn, A)
    u.absorb(ex, paths)
    if not paths:
        u.error("%s: no path" % name)
        return
    u.reachable(name, paths[0].constraints())
    u.sample({"config": name, "paths": len(paths),
              "symbols": sum(1 + 2 * len(e[1]) for e in mesh),
              "first_path_condition": [str(c)[:80] for c in paths[0].pc][:6]})

    for pi, p in enumerate(paths):
        if C.unit_failed(u):
            break
        if p.cut:
            continue
        H = p.constraints()
        if p.exc is not None:
            u.error("%s path %d: %s: %s" % (name, pi, type(p.exc).__name__, str(p.exc)[:300]))
            continue
        r = p.result
        if "refused" in r:
            if beta_on and dim == "2d":
                if "refusal-2d-beta" not in seen:
                    seen["refusal-2d-beta"] = True
                    u.note("%s: 2-D with structure_factor_mode=1 is refused explicitly "
                           "(NotImplementedError: %s) -- outside the claim" % (name, r["refused"]))
            else:
                u.error("%s: unexpected refusal %s" % (name, r["refused"]))
            continue
        if beta_on and dim == "2d":
            u.error("%s: 2-D beta is no longer refused; harness must be extended" % name)
            continue

        items = []

        def ob(oname, phi, oracle):
            items.append((oname, phi, oracle))

        def mk_handler(oname, phi, oracle, H=H):
            return lambda m: C.replayed(u, _replay_model(m, ctx, sub, by, H, phi, oracle, oname))

        def flush():
            # z3's own division is used here: the beta obligations need x*(y/x) = y
            C.prove_all(u, items, H, mk_handler, seen, sample=(pi == 0), ring_normal_form=False)

        calls, ref = r["calls"], r["ref"]
        scale, bg, vf = r["scale"], r["bg"], r["vf"]
        # exactly one call of P then one of S
        order_ok = [c.leaf for c in calls] == [0, 1] and [c.leaf for c in ref] == [0, 1]
        ob("one-call-of-P-then-S", z3.BoolVal(order_ok), "intensity")
        if not order_ok:
            flush()
            continue
        # (a) what P is handed
        got = C.kernel_view(p_info, calls[0].details, calls[0].values, C.flag(r["magp"]))
        want = C.kernel_view(p_info, ref[0].details, ref[0].values, C.flag(r["magp"]))
        phi, bad = C.views_equal(got, want)
        flags = (C.flag(calls[0].magnetic) == C.flag(r["magp"])
                 and _same(calls[0].mode, er_mode) and _same_term(calls[0].cutoff, cutoff))
        ob("a:P-arguments", z3.And(phi, z3.BoolVal(flags)), "intensity")
        # (b) what S is handed
        got_s = C.kernel_view(s_info, calls[1].details, calls[1].values)
        want_s = C.kernel_view(s_info, ref[1].details, ref[1].values)
        phi, bad = C.views_equal(got_s, want_s)
        flags = (not C.flag(calls[1].magnetic) and _same(calls[1].mode, 0)
                 and _same_term(calls[1].cutoff, cutoff))
        ob("b:S-arguments", z3.And(phi, z3.BoolVal(flags)), "intensity")
        # (b') the literal slot statement, also for slots no builtin kernel reads
        _dead_slot_notes(u, name, s_info, calls[1], r, er_mode, vf, H, seen)
        # (c) the combination formula of the statement
        out = _arr(r["out"])
        Fsq, Sq, Vs = _arr(r["Fsq"]), _arr(r["Sq"]), term(r["Vs"])
        pref = term(scale) / Vs if vf_in_p else term(scale) * (term(vf) / Vs)
        if beta_on:
            F = _arr(r["F"])
            want_I = [pref * (Fsq[i] + F[i] * F[i] * (Sq[i] - 1)) + term(bg) for i in range(nq)]
        else:
            want_I = [pref * Fsq[i] * Sq[i] + term(bg) for i in range(nq)]
        ok_len = len(out) == nq
        ob("c:combination-formula",
           z3.And(z3.BoolVal(ok_len), *[out[i] == want_I[i] for i in range(min(nq, len(out)))]),
           "intensity")
        # (d) reported intermediates are the ones used
        res = r["res"]
        need = ["P(Q)", "volume", "volume_ratio", "radius_effective", "S(Q)"]
        if beta_on:
            need += ["beta(Q)", "S_eff(Q)"]
        missing = [k for k in need if k not in res]
        ob("d:results-keys", z3.BoolVal(not missing), "results-keys")
        if missing:
            flush()
            continue
        PQ, SQ = _arr(res["P(Q)"][1]), _arr(res["S(Q)"][1])
        ob("d:results/P(Q)", z3.And(*[PQ[i] == pref * Fsq[i] for i in range(nq)]), "P(Q)")
        ob("d:results/S(Q)", z3.And(*[SQ[i] == Sq[i] for i in range(nq)]), "S(Q)")
        ob("d:results/volume", term(res["volume"]) == Vs, "volume")
        s_vals = calls[1].values
        ob("d:results/volume_ratio",
           z3.And(term(res["volume_ratio"]) == term(r["ratio"]),
                  term(s_vals[3]) == term(vf) * term(res["volume_ratio"])), "volume_ratio")
        # the effective radius reported is the one S was handed
        key = "d:results/radius_effective/" + ("mode0" if er_mode == 0 else "mode>0")
        ob(key, term(res["radius_effective"]) == term(s_vals[2]), "radius_effective")
        if beta_on:
            F = _arr(r["F"])
            BQ, SE = _arr(res["beta(Q)"][1]), _arr(res["S_eff(Q)"][1])
            ob("d:results/beta(Q)", z3.And(*[BQ[i] == F[i] * F[i] / Fsq[i] for i in range(nq)]),
               "beta(Q)")
            # beta is a ratio: the statement is made where <F^2>(q) != 0
            ob("d:results/used-in-I",
               z3.And(*[z3.And(SE[i] == 1 + BQ[i] * (SQ[i] - 1),
                               z3.Implies(Fsq[i] != 0, out[i] == PQ[i] * SE[i] + term(bg)))
                        for i in range(nq)]), "used")
        else:
            ob("d:results/used-in-I",
               z3.And(*[out[i] == PQ[i] * SQ[i] + term(bg) for i in range(nq)]), "used")
        flush()

    # translator validation: symbolic composition vs the real compiled kernels
    if ctx.validate and "validated" not in seen and not (beta_on and dim == "2d"):
        seen["validated"] = True
        try:
            _validate(u, ctx, sub, by, paths, name)
        except Exception as e:      # validation must never mask a result
            u.error("%s: translator validation crashed: %r" % (name, e))


def _same(a, b):
    if isinstance(a, Sym) or z3.is_expr(a):
        t = z3.simplify(term(a) == term(b))
        return z3.is_true(t)
    return a == b


def _same_term(a, b):
    return z3.is_true(z3.simplify(term(a) == term(b)))


def _dead_slot_notes(u, name, s_info, call, r, er_mode, vf, H, seen):
    """Obligation (b) word by word: R_eff / volfraction*ratio sit in the value
    slot AND in the distribution slot with weight 1 and length 1.  None of the
    four builtin structure factors ever reads those distribution slots when
    their length is 1 (they are not among the max_pd loop slots), so a
    difference cannot be replayed on a compiled kernel: it is decided by z3 and
    recorded as a note, not as a violation."""
    # The snapshot has no per-parameter length/offset (they are not part of
    # what a kernel is handed); the slots are found through the S value layout:
    # ProductKernel hands S the combined weight vector, in which slot 0/1 of S
    # are addressed by call_details.offset -- recorded by the stub as extras.
    extra = getattr(call.details, "extra", None)
    if extra is None:
        return
    length, offset = extra
    nv = s_info.parameters.nvalues
    nw = call.details.num_weights
    vals = call.values
    conj = []
    if er_mode > 0:
        conj += [z3.BoolVal(int(length[0]) == 1),
                 term(vals[nv + int(offset[0])]) == term(r["Re"]),
                 term(vals[nv + nw + int(offset[0])]) == 1]
    conj += [z3.BoolVal(int(length[1]) == 1),
             term(vals[nv + int(offset[1])]) == term(vf) * term(r["ratio"]),
             term(vals[nv + nw + int(offset[1])]) == 1]
    u.r["obligations"] += 1
    res, _m, _s = u.solve(H + [z3.Not(z3.And(*conj))])
    if res == "unsat":
        u.r["discharged"] += 1
    elif res == "sat":
        u.r["obligations"] -= 1
        if "dead-slot" not in seen:
            seen["dead-slot"] = True
            u.note("%s: S distribution slot of radius_effective/volfraction differs from the "
                   "documented content, in a slot no builtin S kernel reads (not replayable)" % name)
    else:
        u.r["unknown"] += 1
        u.error("%s: dead-slot obligation unknown" % name)


# --------------------------------------------------------------------------
# real code: numeric oracle, replay, translator validation

def numeric_check(pname, sname, dim, conc, cutoff=0.0):
    """Evaluate P@S with the real compiled kernels and compare with the
    documented combination of separately evaluated P (Fq) and S.  *conc*:
    name -> [value, dist, weights] for the P@S call parameters.
    Returns (set of violated oracles, detail dict)."""
    C.remove_shims()
    qv = Q1 if dim == "1d" else Q2
    info = core.load_model_info(pname + "@" + sname)
    p_info, s_info = info.composition[1]
    pp, sp = p_info.parameters, s_info.parameters
    smap = s_name_map(p_info, s_info)
    vf_in_p = VOLFRAC_ID in pp
    er_mode = int(conc[RADIUS_MODE_ID][0]) if RADIUS_MODE_ID in conc else 0
    beta_on = STRUCTURE_MODE_ID in conc and conc[STRUCTURE_MODE_ID][0] > 0
    bad, detail = set(), {}
    try:
        I, kern, val = C.real_call(C.real_model(pname + "@" + sname), qv,
                                   C.float_mesh(info, conc), cutoff, want_values=True)
        res = kern.results()
    except Exception as e:
        return {"exception"}, {"exception": repr(e)}
    scale, bg, vf = val["scale"], val["background"], val[VOLFRAC_ID]
    one = [1.0, [1.0], [1.0]]
    zero = [0.0, [0.0], [1.0]]
    pm = C.real_model(pname)
    pkern = pm.make_kernel(qv)
    mesh_p = C.float_mesh(p_info, conc, {"scale": one, "background": zero})
    cdp, vp, magp = details.make_kernel_args(pkern, mesh_p)
    F, Fsq, Re, Vs, ratio = pkern.Fq(cdp, vp, cutoff, magp, er_mode)
    F = None if F is None else np.array(F, dtype=float)
    Fsq = np.array(Fsq, dtype=float)
    ov = {"scale": one, "background": zero, VOLFRAC_ID: [vf * ratio, [vf * ratio], [1.0]]}
    sconc = {p.name: conc[smap[p.name]] for p in sp.call_parameters[2:]
             if smap.get(p.name) in conc}
    if er_mode > 0:
        ov[RADIUS_ID] = [Re, [Re], [1.0]]
    Sq, _k = C.real_call(C.real_model(sname), qv, C.float_mesh(s_info, sconc, ov), cutoff)
    pref = scale / Vs * (1.0 if vf_in_p else vf)
    if beta_on:
        Iref = pref * (Fsq + F ** 2 * (Sq - 1)) + bg
    else:
        Iref = pref * Fsq * Sq + bg
    detail.update({"I(P@S)": I.tolist(), "I(reference)": Iref.tolist(), "S": Sq.tolist(),
                   "R_eff(P)": float(Re), "V_shell": float(Vs), "ratio": float(ratio)})
    if not C.close(I, Iref):
        bad.add("intensity")
    re_used = Re if er_mode > 0 else val[smap[RADIUS_ID]]
    rep = {k: (np.array(v[1], dtype=float) if isinstance(v, tuple) else v) for k, v in res.items()
           if k != "P(Q) parts"}
    detail["reported"] = {k: (v.tolist() if isinstance(v, np.ndarray) else float(v))
                          for k, v in rep.items()}
    need = ["P(Q)", "volume", "volume_ratio", "radius_effective", "S(Q)"] + (
        ["beta(Q)", "S_eff(Q)"] if beta_on else [])
    if any(k not in rep for k in need):
        bad.add("results-keys")
        return bad, detail
    if not C.close(rep["P(Q)"], pref * Fsq):
        bad.add("P(Q)")
    if not C.close(rep["S(Q)"], Sq):
        bad.add("S(Q)")
    if not C.close(rep["volume"], Vs):
        bad.add("volume")
    if not C.close(rep["volume_ratio"], ratio):
        bad.add("volume_ratio")
    if not C.close(rep["radius_effective"], re_used):
        bad.add("radius_effective")
        detail["radius_effective used by S"] = float(re_used)
    if beta_on:
        ok = Fsq != 0          # beta is a ratio: compared where <F^2>(q) != 0
        with np.errstate(all="ignore"):
            if not C.close(rep["beta(Q)"][ok], (F ** 2 / Fsq)[ok]):
                bad.add("beta(Q)")
            used = rep["P(Q)"] * rep["S_eff(Q)"] + bg
        if not C.close(I[ok], used[ok]):
            bad.add("used")
    else:
        used = rep["P(Q)"] * rep["S(Q)"] + bg
        if not C.close(I, used):
            bad.add("used")
    return bad, detail


def _replay_model(m0, ctx, sub, by, H, phi, oracle, oname):
    mode, beta, dim, disp, mag = sub
    pname, sname = ctx.p_info.id, ctx.s_info.id
    prefs = C.default_prefs(ctx.info, by)
    m = m0
    if m is None:
        return {"reproduced": False, "key": "C07/" + oname, "what": "no robust witness", "inputs": {}}
    conc = C.robust_inputs(m, H, prefs, by)
    bad, detail = numeric_check(pname, sname, dim, conc)
    hit = oracle in bad or "exception" in bad
    if oracle == "intensity":
        hit = hit or bool(bad)
    what = ("%s@%s (%s): obligation '%s' fails; real compiled kernels: violated %s; %s" % (
        pname, sname, sub_name(sub), oname, sorted(bad),
        {k: detail[k] for k in ("I(P@S)", "I(reference)", "exception",
                                "radius_effective used by S") if k in detail}))
    if oracle == "radius_effective" and "reported" in detail:
        what += "; results()['radius_effective']=%r" % detail["reported"].get("radius_effective")
    return {"reproduced": bool(hit), "key": "C07/" + oname, "what": what,
            "inputs": {"P": pname, "S": sname, "dim": dim, "mesh": conc, "oracle": oracle},
            "detail": detail, "block": z3.BoolVal(True)}


def replay(cex):
    i = cex["inputs"]
    if i.get("oracle") == "table":
        info = core.load_model_info(i["P"] + "@" + i["S"])
        got = [p.name for p in info.parameters.call_parameters]
        want = expected_names(*info.composition[1])
        print("real make_product_info(%s, %s): %s; documented layout: %s" % (i["P"], i["S"], got, want))
        return 1 if got != want else 0
    bad, detail = numeric_check(i["P"], i["S"], i["dim"], i["mesh"])
    print("real %s@%s (%s) at the stored mesh: violated %s" % (i["P"], i["S"], i["dim"], sorted(bad)))
    for k in ("I(P@S)", "I(reference)", "reported", "radius_effective used by S", "exception"):
        if k in detail:
            print("  %s = %s" % (k, detail[k]))
    want = i.get("oracle")
    return 1 if (want in bad or (want == "intensity" and bad) or "exception" in bad) else 0


def _validate(u, ctx, sub, by, paths, name):
    """Evaluate the symbolic result terms at a concrete mesh, with the stub
    symbols bound to the raw accumulators of the REAL compiled P and S kernels,
    and compare with the real P@S kernel (translator validation)."""
    mode, beta, dim, disp, mag = sub
    pname, sname = ctx.p_info.id, ctx.s_info.id
    prefs = C.default_prefs(ctx.info, by)
    env = {}
    for c, v in prefs:
        env[c.decl().name()] = float(v)
    env["cutoff"] = 0.0
    conc = {}
    g = lambda x: env[x.t.decl().name()] if C.is_var(x) else float(x)
    for n, (v, d, w) in by.items():
        conc[n] = [g(v), [g(x) for x in d], [g(x) for x in w]]
    qv = Q1 if dim == "1d" else Q2
    C.remove_shims()
    try:
        info = core.load_model_info(pname + "@" + sname)
        I, kern = C.real_call(C.real_model(pname + "@" + sname), qv, C.float_mesh(info, conc))
        # raw accumulators of the real leaves, as left behind by the real P@S call
        for leaf, k in ((0, kern.p_kernel), (1, kern.s_kernel)):
            nout = 2 if k.info.have_Fq and k.dim == "1d" else 1
            nq = k.q_input.nq
            raw = np.array(k.result, dtype=float)
            for i in range(nq):
                env["L%d.F2[%d]" % (leaf, i)] = raw[nout * i]
                if nout == 2:
                    env["L%d.F1[%d]" % (leaf, i)] = raw[nout * i + 1]
            env["L%d.tw" % leaf], env["L%d.fv" % leaf], env["L%d.sv" % leaf] = raw[nout * nq:nout * nq + 3]
            m = (mode or 0) if leaf == 0 else 0
            env["L%d.re[m%s]" % (leaf, m)] = raw[nout * nq + 3]
    finally:
        C.install_shims()
    for p in paths:
        if p.cut or p.exc is not None or "out" not in p.result:
            continue
        try:
            if all(symx.evalf(c, env) for c in p.constraints()):
                out = [symx.evalf(t, env) for t in _arr(p.result["out"])]
                for i, (g, w) in enumerate(zip(out, I)):
                    u.check_close("%s I[%d]" % (name, i), float(g), float(w), rtol=1e-9)
                return
        except KeyError as e:
            u.error("%s: validation env lacks %s" % (name, e))
            return
    u.error("%s: no explored path matches the concrete validation point" % name)


# --------------------------------------------------------------------------
# units

def pair_unit(cfg):
    pname, sname, quick, seed, only, validate = cfg
    u = Unit("%s@%s" % (pname, sname), timeout_ms=60000)
    u.functions(*FUNCS)
    C.install_shims()
    try:
        info = core.load_model_info(pname + "@" + sname)
    except TypeError as e:
        u.note("%s@%s is not a P@S pair: real make_product_info refuses (%s)" % (pname, sname, e))
        u.r["not_encoded"].append("%s@%s (refused by make_product_info)" % (pname, sname))
        return u.r
    ctx = Ctx()
    ctx.info = info
    ctx.p_info, ctx.s_info = info.composition[1]
    ctx.validate = validate
    # structure of the combined table (concrete)
    got = [p.name for p in info.parameters.call_parameters]
    want = expected_names(ctx.p_info, ctx.s_info)
    u.r["obligations"] += 1
    if got == want and info.parameters.nvalues == len(want):
        u.r["discharged"] += 1
    else:
        u.r["cex"].append({"obligation": "parameter-table", "reproduced": True,
                           "key": "C07/parameter-table",
                           "what": "%s@%s: combined call parameters %s, documented layout %s"
                                   % (pname, sname, got, want),
                           "inputs": {"P": pname, "S": sname, "oracle": "table"}})
        return u.r
    rng = np.random.RandomState(seed)
    seen = {}
    for sub in subconfigs(ctx.p_info, ctx.s_info, quick, rng):
        if only and only not in "%s@%s/%s" % (pname, sname, sub_name(sub)):
            continue
        run_sub(u, ctx, sub, seen)
    extra = {k: v[0] - 1 for k, v in seen.items() if isinstance(v, list) and v[0] > 1}
    if extra:
        u.note("%s@%s: instances of an obligation solved with the replayed finding excluded, or skipped, after its first replayed violation: %s" % (pname, sname, extra))
    return u.r


# --------------------------------------------------------------------------
# slice arithmetic of ProductKernel.__init__ with symbolic parameter counts

class _FakeId:
    def __init__(self, k, vi):
        self.k, self.vi = k, vi

    def __eq__(self, other):
        if other == VOLFRAC_ID:
            return self.vi == self.k
        return False
    __hash__ = None


def slice_unit(cfg):
    hb, he, bound = cfg
    name = "slices/have_beta=%d/have_er=%d/counts<=%d" % (hb, he, bound)
    u = Unit(name, timeout_ms=60000)
    u.functions("sasmodels.product.ProductKernel.__init__ (symbolic parameter counts)")
    Pn, Sn, M, vi, j = (symx.integer(n) for n in ("p_npars", "s_npars", "nmagnetic", "volfrac_index", "j"))
    inP = z3.And(vi.t >= 2, vi.t < 2 + Pn.t)
    inS = vi.t == 2 + Pn.t + 1
    A = [Pn.t >= 0, Pn.t <= bound, Sn.t >= 2, Sn.t <= bound, M.t >= 0, M.t <= Pn.t,
         z3.Or(inP, inS)]
    inPi = z3.If(inP, 1, 0)
    npars = Pn.t + Sn.t - inPi + hb + he
    maglen = z3.If(M.t > 0, 4 + 3 * M.t, 0)
    nvalues = 2 + npars + maglen
    p_info = SimpleNamespace(parameters=SimpleNamespace(npars=Pn, nmagnetic=M),
                             have_Fq=bool(hb), radius_effective_modes=(["m"] if he else None))
    s_info = SimpleNamespace(parameters=SimpleNamespace(npars=Sn))
    table = SimpleNamespace(call_parameters=[SimpleNamespace(id=_FakeId(k, vi))
                                             for k in range(2 * bound + 4)])
    minfo = SimpleNamespace(parameters=table, composition=("product", [p_info, s_info]))

    def fn():
        k = product.ProductKernel(minfo, SimpleNamespace(dtype=C.OBJ), SimpleNamespace(dtype=C.OBJ), None)
        return k

    ex = symx.Explorer(timeout_ms=20000, max_paths=5000, max_forks=2000)
    paths = ex.explore(fn, A)
    u.absorb(ex, paths)
    u.reachable(name, A)
    u.sample({"config": name, "paths": len(paths)})
    T = lambda x: symx.lift(x) if not isinstance(x, bool) else z3.BoolVal(x)

    def sl(s):
        return T(s.start), (T(s.stop) if s.stop is not None else None)

    for p in paths:
        if p.cut:
            continue
        H = p.constraints()
        if p.exc is not None:
            u.prove("init-does-not-raise", z3.BoolVal(False), H, None)
            continue
        k = p.result
        p0, p1 = sl(k._p_value_slice)
        s0, s1 = sl(k._s_value_slice)
        m0, m1 = sl(k._magentic_slice)
        dp0, dp1 = sl(k._p_detail_slice)
        ds0, ds1 = sl(k._s_detail_slice)
        er, b, e, vidx = T(k._er_index), T(k._beta_mode_index), T(k._er_mode_index), T(k._volfrac_index)
        inp_code = T(k._volfrac_in_p)
        inp_code = inp_code if z3.is_bool(inp_code) else inp_code != 0
        spec_s0 = 2 + Pn.t + 2 - inPi
        spec_b = spec_s0 + Sn.t - 2
        layout = z3.And(
            vidx == vi.t, inp_code == inP,
            p0 == 2, p1 == 2 + Pn.t, er == 2 + Pn.t,
            s0 == spec_s0, s1 == spec_b,
            b == (spec_b if hb else 0), e == (spec_b + hb if he else 0),
            m0 == spec_b + hb + he, m1 == m0 + maglen, m1 == nvalues,
            dp0 == 0, dp1 == Pn.t, ds0 == Pn.t, ds1 == Pn.t + Sn.t - inPi,
            ds1 == npars - hb - he,
            T(k._s_dist_slice.start) == 2 + Sn.t)
        u.prove("slices-equal-documented-layout", layout, H, None, axioms=False)
        # in range, pairwise disjoint, covering [2, nvalues): every index j
        # belongs to exactly one of the blocks the kernel reads
        members = [z3.And(p0 <= j.t, j.t < p1), j.t == er,
                   z3.And(j.t == vidx, z3.Not(inP)),
                   z3.And(s0 <= j.t, j.t < s1), z3.And(m0 <= j.t, j.t < m1)]
        if hb:
            members.append(j.t == b)
        if he:
            members.append(j.t == e)
        cnt = z3.Sum([z3.If(c, 1, 0) for c in members])
        u.prove("slices-partition-the-value-vector",
                z3.Implies(z3.And(j.t >= 2, j.t < nvalues), cnt == 1), H, None, axioms=False)
        u.prove("slices-in-range",
                z3.And(p0 >= 2, p1 <= nvalues, s0 >= 2, s0 <= s1, s1 <= nvalues, m0 <= m1,
                       m1 <= nvalues, er < nvalues, vidx >= 2, vidx < nvalues,
                       z3.Implies(inP, z3.And(vidx - 2 >= 0, vidx - 2 < Pn.t)),
                       ds1 <= npars), H, None, axioms=False)
    return u.r


# --------------------------------------------------------------------------

def run(chk):
    quick = chk.quick
    chk.explanation = (
        "Bounded symbolic execution of the real P@S composition code (core.load_model_info, "
        "make_product_info, core.build_model, ProductModel.make_kernel, ProductKernel.__init__/Iq/"
        "results, details.make_kernel_args/make_details/convert_magnetism, Kernel.Fq/Iq) on numpy "
        "object arrays of z3 proxies; P and S are recording stub kernels returning named symbols. "
        "One unit per (P,S) pair; inside it every (effective-radius mode, beta mode, 1-D/2-D, "
        "dispersed-parameter choice) is explored; the entire combined value vector (each value, "
        "each distribution value, each weight), the cutoff and the leaf accumulators are symbolic. "
        "z3 decides on every path: (a) P's arguments = make_kernel_args(P alone), (b) S's "
        "arguments = make_kernel_args(S alone at R_eff / volfraction*ratio), (c) the documented "
        "combination formula, (d) results() reports the quantities used.  Separately "
        "ProductKernel.__init__ runs with symbolic integer parameter counts and z3 shows the "
        "slices equal the documented layout and partition the value vector.")
    chk.bounds = {
        "pairs": ("%d representative P x 4 S" % len(QUICK_P)) if quick else "all builtin P x 4 S",
        "q points": 2, "distribution lengths": "1..3, at most 2 dispersed parameters at once",
        "effective-radius modes": "0,1,last (quick) / all",
        "magnetic amplitudes": "first and last SLD symbolic in the magnetic sub-configurations, "
                               "others 0 (every mtheta/mphi/up_* symbolic)",
        "symbolic parameter counts (slice harness)": "p_npars, s_npars <= 64, nmagnetic <= p_npars",
        "solver timeout": "60 s per obligation, 20 s per fork"}
    chk.outside = [
        "the leaf kernels themselves (P's <F>,<F^2>,volumes,R_eff and S(q) are symbols)",
        "2-D with structure_factor_mode=1: the code refuses with NotImplementedError (documented limitation)",
        "content of S distribution slots that no builtin structure factor reads (decided, reported as notes)",
        "direct_model.get_mesh / weights (C10, C02): the mesh is the symbolic input",
        "rounding; vector-length control and choice parameters are fixed at their defaults",
        "custom structure factors other than the four builtin ones"]
    chk.stubs = list(C.SHIMS)
    chk.assumptions = ["doubles modelled as reals", "no assumption on values, weights, cutoff or leaf outputs "
                       "(total weight 0 and shell volume 0 branches of Kernel.Fq are explored)",
                       "only polydisperse-capable parameters carry distributions longer than 1 "
                       "(what get_mesh can produce)"]
    plist = QUICK_P if quick else core.list_models()
    only = chk.only
    slices_only = bool(only) and only.startswith("slices")
    pair_pat = only.split("/")[0] if only else None
    sub_pat = only if (only and "/" in only) else None
    vmodels = ["sphere", "cylinder", "vesicle", "hollow_cylinder", "core_shell_sphere",
               "lamellar", "ellipsoid", "fractal"]
    cfgs = []
    for pn in plist:
        for si, sn in enumerate(S_MODELS):
            nm = "%s@%s" % (pn, sn)
            if slices_only or (pair_pat and pair_pat not in nm):
                continue
            validate = pn in vmodels and si == vmodels.index(pn) % len(S_MODELS)
            cfgs.append((pn, sn, quick, chk.seed, sub_pat, validate))
    # longest units first
    cfgs.sort(key=lambda c: -_weight(c[0]))
    res = pmap(pair_unit, cfgs) if cfgs else []
    chk.add(res)
    if not only or slices_only:
        chk.add(pmap(slice_unit, [(hb, he, 64) for hb in (0, 1) for he in (0, 1)]))
    chk.extra["pairs_refused_by_make_product_info"] = sorted(
        x for r in res for x in r["not_encoded"])


def _weight(pname):
    try:
        i = core.load_model_info(pname)
        return (len(i.radius_effective_modes or []) + 1) * (2 if i.have_Fq else 1) * (
            2 + i.parameters.npars)
    except Exception:
        return 0
