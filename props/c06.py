"""C06 -- polarised magnetic scattering is the weighted sum of the four spin channels.

Same harness as C01/C05 (real Python driver on z3 proxies + symbolic execution
of the IR of the model's real generated ``<model>_Imagnetic`` kernel), with
the magnetic block of the value vector symbolic: up_frac_i, up_frac_f,
up_theta, up_phi and (M0, mtheta, mphi) of one or more SLDs.  The real
``details.convert_magnetism`` converts the polar angles and decides -- by
forking on the symbolic magnitudes -- whether the magnetic kernel is used.
The reference (vlib.kharness.Reference._spin_channels) is the documented
formula: channel SLDs rho -/+ P.M_perp, e1.M_perp, -/+ e2.M_perp with
M_perp = M - q_hat (q_hat.M), weights (1-i)(1-f), (1-i)f, i(1-f), i f over
max(f,1-f), each channel being the (uninterpreted) non-magnetic 2-D intensity.
"""
from vlib.harness import pmap
from sasmodels import core
from . import c01

POL = ("up_frac_i", "up_frac_f", "up_theta", "up_phi")


def magnetic_models():
    out = []
    for n in core.list_models():
        i = core.load_model_info(n)
        if not callable(i.Iq) and i.parameters.nmagnetic > 0:
            out.append(n)
    return out


def configs(chk):
    out = []
    for name in magnetic_models():
        info = core.load_model_info(name)
        pars = info.parameters
        slds = [p.id for p in pars.call_parameters[2:2 + pars.npars] if p.type == "sld"]
        size = [p.id for p in pars.call_parameters[2:2 + pars.npars] if p.polydisperse and p.type == "volume"]
        tri = lambda s: {s + "_M0", s + "_mtheta", s + "_mphi"}
        first = set(POL) | tri(slds[0])
        out.append((name, "2d", {}, 0, "Iq", "C06", frozenset(first)))
        if len(slds) > 1:
            out.append((name, "2d", {}, 0, "Iq", "C06", frozenset(set(POL) | tri(slds[-1]))))
        if size and (not chk.quick or len(out) % 3 == 0):
            out.append((name, "2d", {size[0]: 2}, 0, "Iq", "C06", frozenset(first)))
        if not chk.quick:
            if len(slds) == 2:      # all SLDs magnetic at once (3 SLDs: 136 paths / 7 min per model, not run)
                allm = set(POL)
                for s_ in slds:
                    allm |= tri(s_)
                out.append((name, "2d", {}, 0, "Iq", "C06", frozenset(allm), False, True))
            ori = [p.id for p in pars.orientation_parameters]
            if ori:
                # magnetism under a jitter distribution: extended (the combined rotation and
                # spin-channel identities are at the edge of what nlsat decides in the budget)
                out.append((name, "2d", {ori[0]: 2}, 0, "Iq", "C06", frozenset(first), False, True))
    return out


def replay(cex):
    return c01.replay(cex)


def run(chk):
    chk.explanation = (
        "For every magnetic-capable compiled model the real driver runs on z3 proxies (convert_magnetism decides "
        "the kernel by forking on the symbolic magnitudes) and the IR of the real generated <model>_Imagnetic kernel "
        "(set_spin_weights, mag_sld, the cross-section loop) is executed symbolically. Per path z3 shows, by "
        "argument-alignment lemmas and an accumulator obligation, that the result is w_dd I(rho-P.Mperp) + w_uu "
        "I(rho+P.Mperp) + w_du[I(e1.Mperp)+I(-e2.Mperp)] + w_ud[I(e1.Mperp)+I(e2.Mperp)] per mesh point (the "
        "statement's (w_du+w_ud)[I(e1)+I(e2)] form follows when I is even in the SLDs), with all magnitudes zero "
        "selecting the ordinary kernel, also under a size or orientation distribution.")
    chk.bounds = {"magnetic block": "polarisation parameters + the (M0,mtheta,mphi) of the first / last SLD symbolic "
                                    "(both SLDs for two-SLD models, thorough); other magnitudes 0",
                  "mesh": "mono; one size parameter x2 (subset in quick); one jitter angle x2 (thorough); nq=1"}
    chk.outside = ["contributions of channels whose weight is below the kernel's 1e-8 threshold",
                   "q = 0 (|q|^2 <= 1e-16 guard)", "evenness of I in the SLDs (needed only to fold the statement's form)",
                   "1-D data (magnetism is ignored there by design)", "rounding"]
    chk.stubs = ["as C01; details.radians/sin/cos -> elementwise shims over mixed object arrays"]
    chk.assumptions = ["qx^2+qy^2 > 1e-16", "each channel weight is 0 or > 1e-8", "weights >= 0, cutoff >= 0",
                       "circle and sqrt axioms for the angle/|q| atoms"]
    cfgs = configs(chk)
    if getattr(chk, "only", None):
        cfgs = [c for c in cfgs if chk.only in "%s/%s" % (c[0], c[1])]
    pmap(c01._prebuild, sorted({c[0] for c in cfgs}))
    chk.add(pmap(c01.unit_h1, cfgs))
