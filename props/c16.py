"""C16 -- a reparameterised model equals its base model at the translated parameters.

A fixed family of reparameterisations (affine and power-law maps, intermediate
variables, insert_after placements) of base models incl. oriented, hollow and
validity-constrained ones goes through the real ``core.reparameterize`` ->
``generate.make_source`` (TRANSLATION_VARS / VALID / CALL_* macros) -> clang IR
-> symbolic interpreter, under the real Python driver on proxies (as C01).
The base model's leaf functions are uninterpreted; the reference applies them
to ``translate(x)``, where translate is the translation text compiled as a
plain C function, independently of generate.py (vlib.kharness.make_translator).
"""
import numpy as np
import z3

from vlib import symx, kharness
from vlib.harness import Unit, pmap
from vlib.kharness import KModel, Reference, sym_mesh
from vlib.symx import term

from sasmodels import core, details as sdetails
from . import c01

inf = float("inf")

# name -> (base, new parameter rows, translation, insert_after, meshes to explore, dims)
FAMILY = {
    "ellipsoid_vol_ecc": ("ellipsoid",
        [["volume", "Ang^3", 1e5, [0, inf], "volume", "ellipsoid volume"],
         ["eccentricity", "", 1, [0, inf], "volume", "polar:equatorial radius"]],
        """
        Re = cbrt(volume/eccentricity/M_4PI_3)
        radius_polar = eccentricity*Re
        radius_equatorial = Re  # python style comments allowed
        """, None, [{}, {"volume": 2}, {"eccentricity": 2, "volume": 2}], ("1d", "2d")),
    "sphere_diameter": ("sphere",
        [["diameter", "Ang", 100, [0, inf], "volume", "sphere diameter"]],
        "radius = diameter/2", None, [{}, {"diameter": 3}], ("1d",)),
    "sphere_volume": ("sphere",
        [["vol", "Ang^3", 5e5, [0, inf], "volume", "sphere volume"]],
        "radius = cbrt(vol/M_4PI_3)", None, [{}, {"vol": 2}], ("1d", "2d")),
    "cylinder_aspect": ("cylinder",
        [["aspect", "", 8, [0, inf], "volume", "length:radius"]],
        "length = aspect*radius // c style comment", None,
        [{}, {"aspect": 2}, {"radius": 2, "aspect": 2}], ("1d", "2d")),
    "cylinder_aspect_first": ("cylinder",
        [["aspect", "", 8, [0, inf], "volume", "length:radius"]],
        "length = aspect*radius", {"": "aspect"}, [{}, {"aspect": 2}], ("1d",)),
    "cylinder_affine": ("cylinder",
        [["extra", "Ang", 10, [-inf, inf], "volume", "length excess over diameter"]],
        """
        diameter = 2*radius
        length = diameter + extra
        """, {"radius": "extra"}, [{}, {"extra": 2}, {"radius": 2}], ("1d", "2d")),
    "core_shell_sphere_outer": ("core_shell_sphere",
        [["outer_radius", "Ang", 70, [0, inf], "volume", "outer radius"]],
        "thickness = outer_radius - radius", None,
        [{}, {"outer_radius": 2}, {"radius": 2, "outer_radius": 2}], ("1d",)),
    "hollow_cylinder_outer": ("hollow_cylinder",
        [["outer", "Ang", 30, [0, inf], "volume", "outer radius"]],
        "thickness = outer - radius", None, [{}, {"outer": 2}, {"radius": 2}], ("1d", "2d")),
    "parallelepiped_ratios": ("parallelepiped",
        [["b2a", "", 2, [0, inf], "volume", "b:a"], ["c2a", "", 4, [0, inf], "volume", "c:a"]],
        """
        length_b = length_a*b2a
        bc = b2a*c2a
        length_c = length_a*bc/b2a
        """, None, [{}, {"b2a": 2}, {"length_a": 2, "c2a": 2}], ("1d", "2d")),
    "barbell_excess": ("barbell",
        [["bell_excess", "Ang", 20, [-inf, inf], "volume", "bell radius minus bar radius"]],
        "radius_bell = radius + bell_excess", None, [{}, {"bell_excess": 2}, {"radius": 2}], ("1d",)),
    # C conditional in the translation of a parameter that the base validity predicate mentions
    "barbell_conditional": ("barbell",
        [["bell_scale", "", 1.5, [-inf, inf], "volume", "bell radius over bar radius"]],
        "radius_bell = bell_scale > 0.0 ? bell_scale*radius : radius", None,
        [{}, {"bell_scale": 2}], ("1d", "2d")),
    # comparison-valued intermediate used by a constrained base model
    "cylinder_conditional": ("cylinder",
        [["stretch", "", 2, [-inf, inf], "volume", "length over radius, or minus the length"]],
        "length = stretch >= 0.0 ? stretch*radius : -stretch", None, [{}, {"stretch": 2}], ("1d",)),
    # new parameters placed after the orientation angles (legal for derived tables)
    "ellipsoid_after_phi": ("ellipsoid",
        [["volume", "Ang^3", 1e5, [0, inf], "volume", "ellipsoid volume"],
         ["eccentricity", "", 1, [0, inf], "volume", "polar:equatorial radius"]],
        """
        Re = cbrt(volume/eccentricity/M_4PI_3)
        radius_polar = eccentricity*Re
        radius_equatorial = Re
        """, {"sld_solvent": "volume", "phi": "eccentricity"}, [{}, {"eccentricity": 2}, {"theta": 2}], ("1d", "2d")),
    "parallelepiped_after_psi": ("parallelepiped",
        [["b2a", "", 2, [0, inf], "volume", "b:a"]],
        "length_b = length_a*b2a", {"psi": "b2a"}, [{}, {"b2a": 2}], ("2d",)),
    "vesicle_power": ("vesicle",
        [["area", "Ang^2", 1e4, [0, inf], "volume", "inner surface area / 4 pi"]],
        "radius = sqrt(area)", None, [{}, {"area": 2}], ("1d",)),
    "capped_cylinder_power": ("capped_cylinder",
        [["cap_factor", "", 1.5, [1, inf], "volume", "cap radius over radius"]],
        "radius_cap = pow(cap_factor, 2)*radius/cap_factor", None, [{}, {"cap_factor": 2}], ("1d",)),
}
QUICK = ["ellipsoid_vol_ecc", "sphere_diameter", "cylinder_aspect", "cylinder_aspect_first", "cylinder_affine",
         "core_shell_sphere_outer", "hollow_cylinder_outer", "parallelepiped_ratios", "barbell_excess",
         "capped_cylinder_power", "barbell_conditional", "cylinder_conditional", "ellipsoid_after_phi",
         "parallelepiped_after_psi"]

_KM = {}


def derived(key):
    if key not in _KM:
        base, pars, trans, after, _m, _d = FAMILY[key]
        info = core.reparameterize(base, pars, trans, filename="verif_" + key, insert_after=after)
        km = KModel(info)
        _KM[key] = (km, kharness.make_translator(info))
    return _KM[key]


def unit(cfg):
    key, dim, lengths, mode, want = cfg
    label = "%s/%s/%s/mode=%s/%s" % (key, dim, ",".join("%s=%d" % kv for kv in sorted(lengths.items())) or "mono", mode, want)
    u = Unit(label, timeout_ms=30000)
    try:
        km, translate = derived(key)
    except Exception as e:
        u.error("cannot build %s: %r" % (key, e))
        return u.r
    info = km.info
    base = core.load_model_info(FAMILY[key][0])
    # structural clause: untouched base parameters keep name, order, limits, units, type
    newnames = {p[0] for p in FAMILY[key][1]}
    kept = [p for p in info.parameters.kernel_parameters if p.id not in newnames]
    base_kept = [p for p in base.parameters.kernel_parameters if p.id in {q.id for q in kept}]
    same = [(a.id, a.limits, a.units, a.type, a.default) for a in kept] == \
           [(b.id, b.limits, b.units, b.type, b.default) for b in base_kept]
    u.prove("untouched-parameters-keep-name-order-limits", z3.BoolVal(bool(same)), [],
            lambda m: {"reproduced": True, "key": "C16/table/%s" % key, "what": "parameter table of %s: untouched base "
                       "parameters changed: %r vs %r" % (key, [p.id for p in kept], [p.id for p in base_kept]),
                       "inputs": {"family": key}, "block": None})
    mesh, syms = sym_mesh(info, lengths, dim)
    nq = 2 if dim == "1d" else 1
    q = symx.oarray([symx.real("q%d" % i) for i in range(nq * (1 if dim == "1d" else 2))])
    cutoff = symx.real("cutoff")
    A = kharness.mesh_constraints(syms) + [cutoff.t >= 0]
    ex = symx.Explorer(timeout_ms=20000, max_paths=3000, abstract=True)
    paths = ex.explore(lambda: c01._run(km, mesh, q, cutoff, mode, dim, want), A)
    u.absorb(ex, paths)
    u.reachable(label, A)
    ref = Reference(km, mesh, q, cutoff, mode, dim, translate=translate)
    want_buf = ref.buffer()
    scale, background = term(mesh[0][0]), term(mesh[1][0])
    u.functions("sasmodels.core.reparameterize", "sasmodels.modelinfo.derive_table",
                "sasmodels.generate.make_source/_build_translation/_build_translation_vars/_build_validity_check/_call_pars",
                "%s (IR of generated source incl. TRANSLATION_VARS, VALID, CALL_* macros)" % km.names[0 if dim == "1d" else 1],
                "translate_ref (translation text as plain C, IR)")
    for pi, p in enumerate(paths):
        if p.cut:
            u.error("path cut: %s" % p.cut)
            continue
        H = p.constraints()
        ctx = dict(key=key, dim=dim, lengths=lengths, mode=mode, syms=syms, q=q, cutoff=cutoff)
        if p.exc is not None:
            u.prove("driver-raises-nothing", z3.BoolVal(False), H, _cex(ctx, "exception", repr(p.exc)))
            continue
        r = p.result
        defs = set(d.get_id() for d in r["defs"])
        H2 = [c for c in H if c.get_id() not in defs]
        if pi < 2:
            u.sample({"config": label, "path": pi, "kernel_calls": r["calls"],
                      "path_condition": [str(c)[:100] for c in p.pc if c.get_id() not in defs][:6]})
        got = r["buffer"]
        nres = len(want_buf)
        want_al = kharness.align_leaves(u, H2, want_buf, r["defs"])
        ncex = len(u.r["cex"])
        ok = u.prove("derived-equals-base-at-translated-parameters",
                     z3.And(*[got[i] == want_al[i] for i in range(nres)]), H, _cex(ctx, "accumulators"),
                     sample=(pi == 0), abstract=True)
        if not ok and not any(c.get("reproduced") for c in u.r["cex"][ncex:]):
            kharness.search_witness(u, H2, _cex(ctx, "leaf-arguments"))
        c01._prove_side(u, r["side"], H, lambda d: _cex(ctx, "side:" + d))
        nout = 2 if ref.have_fq else 1
        W, WVf, WVs, WR = got[nout * ref.nq:nout * ref.nq + 4]
        if "Iq" in r:
            phi = [z3.Implies(z3.And(W != 0, WVs != 0), I * WVs == scale * got[nout * j] + background * WVs)
                   for j, I in enumerate(r["Iq"])]
            u.prove("Iq-formula", z3.And(*phi), H2, _cex(ctx, "Iq"), abstract=True)
        else:
            F1, F2, R, Vs, ratio = r["Fq"]
            cs = [F2[j] * W == got[nout * j] for j in range(len(F2))]
            if F1 is not None:
                cs += [F1[j] * W == got[nout * j + 1] for j in range(len(F1))]
            cs += [R * W == WR, Vs * W == WVs, ratio * WVs == WVf]
            u.prove("Fq-outputs", z3.Implies(z3.And(W != 0, WVs != 0), z3.And(*cs)), H2, _cex(ctx, "Fq"), abstract=True)
    return u.r


# ---------------------------------------------------------------------------
# replay: real DLL of the derived model versus real DLL of the base model at
# parameters translated in Python (the translation text evaluated with numpy)

def py_translate(key, x):
    import math
    base, pars, trans, after, _m, _d = FAMILY[key]
    env = {"cbrt": np.cbrt, "sqrt": math.sqrt, "pow": math.pow, "M_4PI_3": 4 * math.pi / 3, "M_PI": math.pi}
    env.update(x)
    for line in trans.split("\n"):
        code = line.split("#", 1)[0].split("//", 1)[0].strip()
        if code:
            var, expr = code.split("=", 1)
            env[var.strip()] = eval(_c_to_py(expr), {}, env)
    return env


def _c_to_py(expr):
    """C conditional  c ? a : b  ->  (a) if (c) else (b)  (top level, right associative)."""
    depth = 0
    for i, ch in enumerate(expr):
        if ch == "(":
            depth += 1
        elif ch == ")":
            depth -= 1
        elif ch == "?" and depth == 0:
            cond, rest = expr[:i], expr[i + 1:]
            d2 = 0
            nest = 0
            for j, c2 in enumerate(rest):
                if c2 == "(":
                    d2 += 1
                elif c2 == ")":
                    d2 -= 1
                elif c2 == "?" and d2 == 0:
                    nest += 1
                elif c2 == ":" and d2 == 0:
                    if nest == 0:
                        return "((%s) if (%s) else (%s))" % (_c_to_py(rest[:j]), cond, _c_to_py(rest[j + 1:]))
                    nest -= 1
    return expr


def real_defect(key, dim, mesh_d, q, cutoff):
    """Derived model on a dispersity mesh vs volume-normalised average of base evaluations."""
    import itertools
    from sasmodels import direct_model
    km, _t = derived(key)
    info = km.info
    base_info = core.load_model_info(FAMILY[key][0])
    dm = core.build_model(info, dtype="double", platform="dll")
    bm = core.build_model(base_info, dtype="double", platform="dll")
    qv = [np.array(q, float)] if dim == "1d" else [np.array(q[0::2], float), np.array(q[1::2], float)]
    kd, kb = dm.make_kernel(qv), bm.make_kernel(qv)
    cps = info.parameters.call_parameters
    mesh = [(v, np.array(d), np.array(w)) for v, d, w in mesh_d]
    cd, values, mag = sdetails.make_kernel_args(kd, mesh)
    kd.result[:] = 0.123
    Fd = kd.Fq(cd, values, cutoff, mag, 1 if info.radius_effective_modes else 0)
    nq = len(qv[0])
    nout = 2 if (info.have_Fq and dim == "1d") else 1
    real = kd.result[:nout * nq + 4].copy()
    npars = info.parameters.npars
    ref = np.zeros_like(real)
    lens = [len(mesh[2 + i][1]) for i in range(npars)]
    for multi in itertools.product(*[range(n) for n in lens]):
        w = 1.0
        x = {}
        for i in range(npars):
            p = cps[2 + i]
            w *= mesh[2 + i][2][multi[i]]
            x[p.id] = mesh[2 + i][0] if p.type == "orientation" else mesh[2 + i][1][multi[i]]
        if not w > cutoff:
            continue
        env = py_translate(key, x)
        bpars = {p.id: float(env[p.id]) for p in base_info.parameters.kernel_parameters}
        bpars["scale"], bpars["background"] = 1.0, 0.0
        bmesh = direct_model.get_mesh(base_info, bpars, dim=dim, mono=True)
        cdb, vb, mb = sdetails.make_kernel_args(kb, bmesh)
        kb.Fq(cdb, vb, -1.0, mb, 1 if base_info.radius_effective_modes else 0)
        one = kb.result[:nout * nq + 4].copy()
        if one[nout * nq] == 0:
            continue
        ref += w * one / one[nout * nq]
    den = np.maximum(np.abs(ref), np.abs(real))
    with np.errstate(all="ignore"):
        rel = np.where(den > 0, np.abs(ref - real) / np.where(den > 0, den, 1), 0)
    rel = np.where(np.isnan(real) != np.isnan(ref), np.inf, np.where(np.isnan(rel), 0.0, rel))
    return float(rel.max()), {"derived": real.tolist(), "base_at_translated": ref.tolist()}


def _cex(ctx, oracle, extra=""):
    def handler(m):
        km, _t = derived(ctx["key"])
        cut = float(symx.model_float(m, ctx["cutoff"].t))
        qq = [0.013 * (i + 1) for i in range(len(ctx["q"]))]
        best = None
        for use_model in (False, True):      # generic physical values first, then the solver's own
            mesh = c01._generic_values(km.info, ctx["syms"], m, use_model)
            mesh_d = [[float(v), [float(x) for x in d], [float(x) for x in w]] for v, d, w in mesh]
            try:
                defect, detail = real_defect(ctx["key"], ctx["dim"], mesh_d, qq, cut)
            except Exception as e:
                defect, detail = float("inf"), {"exception": repr(e)}
            if defect != defect:
                defect = float("inf")
            if best is None or defect > best[0]:
                best = (defect, detail, mesh_d)
            if defect > 1e-9:
                break
        defect, detail, mesh_d = best
        return {"reproduced": bool(defect > 1e-9), "key": "C16/%s/%s" % (ctx["key"], oracle.split(":")[0]),
                "what": "%s %s mesh %s: derived model differs from base model at translated parameters "
                        "(relative defect %.3g) %s" % (ctx["key"], ctx["dim"], ctx["lengths"], defect, extra),
                "inputs": {"family": ctx["key"], "dim": ctx["dim"], "cutoff": cut, "q": qq, "mesh": mesh_d},
                "detail": detail, "block": None}
    return handler


def replay(cex):
    i = cex["inputs"]
    defect, detail = real_defect(i["family"], i["dim"], i["mesh"], i["q"], i["cutoff"])
    print("relative defect %.3g" % defect, detail)
    return 1 if defect > 1e-9 else 0


def run(chk):
    chk.explanation = (
        "Each reparameterisation of the family is built by the real core.reparameterize; the generated kernel source "
        "(TRANSLATION_VARS, VALID, CALL_* macros inside the real loop) is compiled to IR and executed symbolically under "
        "the real driver on proxies with new-parameter values, meshes over new parameters, q and cutoff symbolic and the "
        "base model's Iq/Fq/Iqac/Iqabc/volumes/R_eff uninterpreted. z3 shows the accumulators equal the base leaves applied "
        "to translate(x) (translation text compiled as plain C, independently of generate.py), gated by the base validity "
        "predicate at translate(x), volume-normalised as in C01; and the untouched parameters keep name/order/limits.")
    keys = QUICK if chk.quick else list(FAMILY)
    chk.bounds = {"family": "%d generated reparameterisations of %d base models" % (len(keys), len({FAMILY[k][0] for k in keys})),
                  "mesh": "mono, 1-2 dispersed parameters x 2-3 points; nq=2 (1-D), 1 (2-D)"}
    chk.outside = ["reparameterisations outside the family (arbitrary C expressions)", "vector parameters in translations",
                   "rounding; numeric interior of the base leaves", "translated SLD parameters under magnetism"]
    chk.stubs = c01_stubs = ["as C01 (SymDll, leaf UFs)", "cbrt/pow/sqrt -> uninterpreted with axioms"]
    chk.assumptions = ["weights >= 0, cutoff >= 0", "get_mesh contract for one-point distributions (as C01)"]
    cfgs = []
    for k in keys:
        base, pars, trans, after, meshes, dims = FAMILY[k]
        binfo = core.load_model_info(base)
        for dim in dims:
            for i, lengths in enumerate(meshes):
                want = "Fq" if (i == 1 and dim == "1d") else "Iq"
                mode = 1 if (want == "Fq" and binfo.radius_effective_modes) else 0
                cfgs.append((k, dim, lengths, mode, want))
    if getattr(chk, "only", None):
        cfgs = [c for c in cfgs if chk.only in "%s/%s" % (c[0], c[1])]
    chk.add(pmap(unit, cfgs))
