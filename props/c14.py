"""C14 -- amplitude outputs are mutually consistent for every form factor.

Claimed for the clauses that are identities/inequalities over the reals:

(a) I = scale*<F^2>/<V_shell> + background uses the very accumulators call_Fq
    reports -- the C01 harness restricted to the 26 models with amplitude
    output (real driver on proxies + IR of the generated kernel);
(b) inside the model code (IR of the model's own Fq, special functions
    uninterpreted): for the spherically symmetric models, monodisperse
    F^2 = F1^2 as real terms at every q;
(c) every effective-radius mode named 'equivalent (outer) volume sphere'
    satisfies 4/3 pi R^3 = V_form (cbrt axiom; constants to 1e-12 relative);
(d) for every mode R_eff > 0, V_form > 0, V_shell > 0 is attempted under positive
    volume parameters and the model's validity predicate; it is an *extended*
    obligation: proved modes are counted, the others are listed as not proved
    (the physically consistent parameter domain is only encoded in the models'
    random generators), never reported as violations;
(e) under dispersity <F>^2 <= <F^2> follows from the per-point inequality by
    Cauchy-Schwarz: proved by the solver for meshes of <= 3 points;
(f) extended: the per-particle inequality F1^2 <= F2 of the orientation-averaged
    (anisotropic) models, by a Cauchy-Schwarz *certificate* over the model's own
    quadrature: Fq is interpreted from IR including its Gauss loops (special
    functions uninterpreted, libm at the concrete quadrature nodes folded), F1
    and F2 are expanded into their addends a_k, b_k in accumulation order, and
    the solver proves a_k^2 = c_k b_k for all parameters and q (c_k >= 0 a
    constant, 1e-9 relative) for every addend; with sum c_k <= 1 the inequality
    follows.  A model without a complete certificate is 'undecided' unless a
    numeric witness of <F>^2 > <F^2> is found on the real DLL (then a violation).
"""
import math
import os
from fractions import Fraction

import numpy as np
import z3

from vlib import symx, kharness
from vlib.harness import Unit, pmap
from vlib.kharness import KModel
from vlib.llsym import interp
from vlib.llsym.interp import Ptr, rat

from sasmodels import core, direct_model
from . import c01

SPHERICAL = ["sphere", "core_shell_sphere", "fuzzy_sphere", "vesicle", "multilayer_vesicle",
             "core_multi_shell", "onion", "spherical_sld"]


def fq_models():
    out = []
    for n in core.list_models():
        i = core.load_model_info(n)
        if not callable(i.Iq) and i.have_Fq:
            out.append(n)
    return out


def _special_stubs(km):
    """Library special functions (sas_*, Si, gamma...) as uninterpreted leaves."""
    st = {}
    for name in km.mod.functions:
        if name.startswith("sas_") or name in ("Si", "sas_gamma", "sas_erf", "sas_erfc", "gauss76", "tgamma"):
            st[name] = (lambda nm: (lambda it, *args: interp.uf(nm, *args)))(name)
    return st


# integer-valued parameters that drive loop trip counts are enumerated, not symbolic
CONCRETE = {"multilayer_vesicle": {"n_shells": 2}, "spherical_sld": {"n_steps": 3}}


def _limits(p, s):
    out = []
    lb, ub = p.limits
    if np.isfinite(lb):
        out.append(s >= symx.rat(lb))
    if np.isfinite(ub):
        out.append(s <= symx.rat(ub))
    return out


def _args(km, plist, it, positive, tag=""):
    """Symbolic arguments for a leaf call: scalars as symbols (inside their declared
    limits), vectors as regions."""
    args, syms, cons = [], {}, []
    fixed = CONCRETE.get(km.info.id, {})
    for p in plist:
        if p.length == 1:
            if p.id in fixed:
                args.append(Fraction(fixed[p.id]))
                syms[p.id] = symx.rat(fixed[p.id])
                continue
            s = z3.Real(tag + p.id)
            syms[p.id] = s
            args.append(s)
            cons.extend(_limits(p, s))
            if positive and p.type == "volume":
                cons.append(s > 0)
        else:
            cells = {}
            for k in range(p.length):
                s = z3.Real("%s%s%d" % (tag, p.id, k + 1))
                syms["%s%d" % (p.id, k + 1)] = s
                cells[8 * k] = s
                cons.extend(_limits(p, s))
                if positive and p.type == "volume":
                    cons.append(s > 0)
            args.append(it.region("vec_" + p.id, cells))
    return args, syms, cons


# ---------------------------------------------------------------------------

def unit_symmetric(cfg):
    name, nshell = cfg
    label = "F2=F1^2/%s%s" % (name, "/n=%d" % nshell if nshell else "")
    u = Unit(label, timeout_ms=60000)
    km = KModel.get(name)
    info = km.info
    u.functions("Fq of %s (IR of the model's C source, interpreted; sas_* special functions uninterpreted)" % name)
    q = z3.Real("q")
    state = {}

    def fn():
        it = interp.Interp(km.mod, mode="sym", decide=symx.current().decide, stubs=_special_stubs(km),
                           concretize=symx.current().concretize_int, max_steps=400000)
        args, syms, cons = _args(km, info.parameters.iq_parameters, it, False)
        # a vector-length control parameter is concrete
        ctrl = [p for p in info.parameters.kernel_parameters if getattr(p, "is_control", False)]
        for c_ in ctrl:
            idx = [p.id for p in info.parameters.iq_parameters].index(c_.id)
            args[idx] = Fraction(nshell)
        out = it.region("F", {})
        for c in cons:
            symx.current().assume(c, check=False)
        it.call("Fq", [q, Ptr("F", 0), Ptr("F", 8)] + args)
        state["steps"] = it.steps
        return rat(it.mem["F"][0]), rat(it.mem["F"][8])

    ex = symx.Explorer(timeout_ms=20000, max_paths=400, abstract=True)
    try:
        paths = ex.explore(fn, [q > 0])
    except Exception as e:
        u.r["not_encoded"].append("%s: %r" % (name, e))
        u.note("Fq of %s not encoded: %r" % (name, e))
        return u.r
    u.absorb(ex, paths)
    for pi, p in enumerate(paths):
        if p.cut or p.exc is not None:
            u.r["not_encoded"].append("%s: %s" % (name, p.cut or repr(p.exc)))
            u.note("Fq of %s: path not encoded: %s" % (name, p.cut or repr(p.exc)))
            continue
        F1, F2 = p.result
        if pi < 2:
            u.sample({"model": name, "path": pi, "F1": str(z3.simplify(F1))[:200]})
        # equality up to the round-off of the source's literal constants (1e-4 vs (1e-2)^2): 1e-12 relative
        tol = symx.rat(1e-12)
        # the amplitude sum shared by F1 and F2 is generalised to one symbol (sound)
        F1, F2 = symx.generalize_shared(z3.simplify(F1), z3.simplify(F2))
        a2 = z3.If(F2 >= 0, F2, -F2)
        u.prove("monodisperse-F2-equals-F1-squared",
                z3.And(F2 - F1 * F1 <= tol * a2, F1 * F1 - F2 <= tol * a2), p.constraints(),
                _cex_sym(name, nshell), abstract=True)
    return u.r


def _cex_sym(name, nshell):
    def handler(m):
        info = core.load_model_info(name)
        model = core.build_model(info, dtype="double", platform="dll")
        worst, arg = 0.0, None
        for q in (0.003, 0.02, 0.11, 0.37):
            kern = model.make_kernel([np.array([q])])
            pars = {}
            ctrl = [p.id for p in info.parameters.kernel_parameters if getattr(p, "is_control", False)]
            for c_ in ctrl:
                pars[c_] = nshell or 1
            F1, F2, R, Vs, ratio = direct_model.call_Fq(kern, dict(pars))
            d = abs(F2[0] - F1[0] ** 2) / max(abs(F2[0]), 1e-300)
            if d > worst:
                worst, arg = d, q
        return {"reproduced": bool(worst > 1e-9), "key": "C14/F2-vs-F1/%s" % name,
                "what": "%s: monodisperse F^2 differs from <F>^2 (relative %.3g at q=%s, default parameters)" % (name, worst, arg),
                "inputs": {"model": name, "q": arg, "n": nshell}, "block": None}
    return handler


# ---------------------------------------------------------------------------

def unit_modes(cfg):
    name, mode = cfg
    km = KModel.get(name)
    info = km.info
    mname = info.radius_effective_modes[mode - 1]
    label = "modes/%s/%d:%s" % (name, mode, mname)
    u = Unit(label, timeout_ms=30000)
    u.functions("radius_effective, form_volume, shell_volume of %s (IR, interpreted)" % name)
    is_equiv = "equivalent" in mname and "volume sphere" in mname

    def fn():
        it = interp.Interp(km.mod, mode="sym", decide=symx.current().decide, stubs=_special_stubs(km),
                           concretize=symx.current().concretize_int, max_steps=400000)
        args, syms, cons = _args(km, info.parameters.form_volume_parameters, it, True)
        ctrl = [p for p in info.parameters.form_volume_parameters if getattr(p, "is_control", False)]
        for c_ in ctrl:
            idx = [p.id for p in info.parameters.form_volume_parameters].index(c_.id)
            args[idx] = Fraction(2)
        for c in cons:
            symx.current().assume(c, check=False)
        valid = kharness.valid_ref(getattr(info, "valid", None),
                                   _ValidEnv(syms)) if getattr(info, "valid", None) else None
        if valid is not None:
            symx.current().assume(valid)
        R = rat(it.call("radius_effective", [mode] + args))
        Vf = rat(it.call("form_volume", list(args)))
        Vs = rat(it.call("shell_volume", list(args))) if km.is_hollow else Vf
        return R, Vf, Vs, syms

    ex = symx.Explorer(timeout_ms=20000, max_paths=200, abstract=True)
    try:
        paths = ex.explore(fn, [])
    except Exception as e:
        u.r["not_encoded"].append("%s mode %d: %r" % (name, mode, e))
        u.note("not encoded: %r" % (e,))
        return u.r
    u.absorb(ex, paths)
    c43 = symx.rat(4.0 * math.pi / 3.0)
    for pi, p in enumerate(paths):
        if p.cut or p.exc is not None:
            u.r["not_encoded"].append("%s mode %d: %s" % (name, mode, p.cut or repr(p.exc)))
            u.note("path not encoded: %s" % (p.cut or repr(p.exc)))
            continue
        R, Vf, Vs, syms = p.result
        H = p.constraints()
        if pi == 0:
            u.sample({"model": name, "mode": mname, "R_eff": str(z3.simplify(R))[:200]})
        if is_equiv:
            # 4/3 pi R^3 = V_form up to the round-off of the constants (1e-12 relative)
            lhs = c43 * R * R * R
            tol = symx.rat(1e-12)
            u.prove("equivalent-volume-sphere", z3.And(lhs - Vf <= tol * Vf, Vf - lhs <= tol * Vf), H + [Vf > 0],
                    _cex_mode(name, mode, "equivalent-volume-sphere"), abstract=True)
        # positivity: extended obligation.  Without the models' physical-consistency domain (only
        # encoded in their random generators) a sat answer is "not proved", never a violation.
        ax = symx.axioms_for(H + [R, Vf, Vs])
        res, _m, _s = u.solve(symx.abstract_ufs(H + ax + [z3.Not(z3.And(R > 0, Vf > 0, Vs > 0))]), timeout_ms=20000)
        if res == "unsat":
            u.r["obligations"] += 1
            u.r["discharged"] += 1
            u.note("positivity proved: %s mode %d" % (name, mode))
        else:
            u.note("positivity not proved under 'volume parameters > 0 and valid' (%s): %s mode %d" % (res, name, mode))
    return u.r


class _ValidEnv(dict):
    def __init__(self, syms):
        dict.__init__(self, syms)


def _cex_mode(name, mode, oracle):
    def handler(m):
        info = core.load_model_info(name)
        model = core.build_model(info, dtype="double", platform="dll")
        kern = model.make_kernel([np.array([0.01])])
        pars = {}
        for p in info.parameters.form_volume_parameters:
            if p.length == 1:
                try:
                    pars[p.id] = float(symx.model_float(m, z3.Real(p.id)))
                except Exception:
                    pass
        pars["radius_effective_mode"] = mode
        try:
            F1, F2, R, Vs, ratio = direct_model.call_Fq(kern, dict(pars))
        except Exception as e:
            return {"reproduced": False, "key": "C14/%s/%s/mode%d" % (oracle, name, mode), "what": repr(e),
                    "inputs": pars, "block": None}
        Vf = Vs * ratio
        bad = False
        if oracle == "equivalent-volume-sphere":
            bad = abs(4 * math.pi / 3 * R ** 3 - Vf) > 1e-9 * abs(Vf)
        elif oracle == "positivity":
            bad = not (R > 0 and Vf > 0 and Vs > 0 and np.isfinite([R, Vf, Vs]).all())
        else:
            bad = Vs > Vf * (1 + 1e-12)
        return {"reproduced": bool(bad), "key": "C14/%s/%s/mode%d" % (oracle, name, mode),
                "what": "%s mode %d at %r: R_eff=%r V_form=%r V_shell=%r violates %s" % (name, mode, pars, R, Vf, Vs, oracle),
                "inputs": {"model": name, "pars": pars}, "block": None}
    return handler


# ---------------------------------------------------------------------------

def unit_cs(n):
    u = Unit("cauchy-schwarz/n=%d" % n, timeout_ms=60000)
    w = [z3.Real("w%d" % k) for k in range(n)]
    f1 = [z3.Real("F1_%d" % k) for k in range(n)]
    f2 = [z3.Real("F2_%d" % k) for k in range(n)]
    H = [x >= 0 for x in w] + [f1[k] * f1[k] <= f2[k] for k in range(n)]
    W = z3.Sum(w)
    S1 = z3.Sum([w[k] * f1[k] for k in range(n)])
    S2 = z3.Sum([w[k] * f2[k] for k in range(n)])
    u.r["paths"] += 1
    u.functions("dispersity averages <F> = sum(w F1)/sum(w), <F^2> = sum(w F2)/sum(w) (accumulators proved in C01)")
    # <F>^2 <= <F^2>  <=>  S1^2 <= W*S2  (W > 0)
    u.prove("0<=<F>^2<=<F^2>", z3.And(S1 * S1 >= 0, S1 * S1 <= W * S2), H + [W > 0], None, sample=True)
    u.reachable("cauchy-schwarz", H + [W > 0])
    return u.r


def _dispatch(item):
    kind, cfg = item
    return {"acc": c01.unit_h1, "sym": unit_symmetric, "modes": unit_modes, "cs": unit_cs,
            "jensen": unit_jensen}[kind](cfg)


def replay(cex):
    i = cex.get("inputs", {})
    if "mesh" in i:
        return c01.replay(cex)
    key = cex.get("key", "")
    name = i.get("model")
    if key.startswith("C14/F2-vs-F1/"):
        r = _cex_sym(name, i.get("n") or 0)(None)
    else:
        oracle, _m, mode = key.split("/")[1], key.split("/")[2], int(key.rsplit("mode", 1)[1])

        class _M:       # stored concrete parameters stand in for the solver model
            pass
        pars = dict(i.get("pars", {}))
        info = core.load_model_info(name)
        model = core.build_model(info, dtype="double", platform="dll")
        kern = model.make_kernel([np.array([0.01])])
        F1, F2, R, Vs, ratio = direct_model.call_Fq(kern, dict(pars))
        Vf = Vs * ratio
        bad = abs(4 * math.pi / 3 * R ** 3 - Vf) > 1e-9 * abs(Vf) if oracle == "equivalent-volume-sphere" \
            else not (R > 0 and Vf > 0 and Vs > 0)
        print("R_eff", R, "V_form", Vf, "V_shell", Vs)
        return 1 if bad else 0
    print(r["what"])
    return 1 if r["reproduced"] else 0


def run(chk):
    chk.explanation = __doc__
    chk.bounds = {"(a)": "26 models with amplitude output; mono and one dispersed parameter x3; 1-D",
                  "(b)": "8 spherically symmetric models; vector-length control parameter n in {1,2}",
                  "(c),(d)": "every declared effective-radius mode of the 26 models", "(e)": "meshes of 1..3 points",
                  "(f)": "10 anisotropic models quick / all 18 thorough; <= 20000 addends; 300 s (quick) / 900 s (thorough) per model"}
    chk.outside = ["the per-particle inequality F1^2 <= F2 for the anisotropic models whose certificate (f) is reported as "
                   "undecided in the notes (assumed in (e))", "the q -> 0 limit clause (a limit of special functions)",
                   "finiteness under overflow (reals)", "positivity obligations that z3 returns unknown for are listed as undecided"]
    chk.stubs = ["sas_* special functions, Si, gamma -> uninterpreted", "libm -> uninterpreted with sqrt/cbrt/exp axioms", "as C01 for (a)"]
    chk.assumptions = ["(d): every volume-type parameter > 0 and the model's validity predicate", "(e): per-point F1_k^2 <= F2_k, w_k >= 0, sum w > 0",
                       "(c): 4/3 pi and M_4PI_3 agree to 1e-12 relative"]
    items = []
    for name in fq_models():
        info = core.load_model_info(name)
        pds = c01.pd_params(info, "1d")
        items.append(("acc", (name, "1d", {}, 0, "Iq", "C14")))
        if pds:
            items.append(("acc", (name, "1d", {pds[0]: 3}, 1, "Fq", "C14")))
        for mode in range(1, len(info.radius_effective_modes or []) + 1):
            items.append(("modes", (name, mode)))
    for name in SPHERICAL:
        info = core.load_model_info(name)
        ctrl = [p for p in info.parameters.kernel_parameters if getattr(p, "is_control", False)]
        for n in ((1, 2) if ctrl else (0,)):
            if chk.quick and name == "spherical_sld" and n == 2:
                continue
            items.append(("sym", (name, n)))
    items += [("cs", n) for n in (1, 2, 3)]
    # (f) extended obligation: anisotropic models with a single orientation quadrature in quick,
    # all of them in thorough
    aniso = [n for n in fq_models() if n not in SPHERICAL]
    single = ["cylinder", "ellipsoid", "core_shell_cylinder", "hollow_cylinder", "core_shell_ellipsoid", "barbell",
              "capped_cylinder", "core_shell_bicelle",
              # two double-quadrature models (5776 addends each) also in the quick tier
              "core_shell_bicelle_elliptical_belt_rough", "core_shell_bicelle_elliptical"]
    items += [("jensen", n) for n in (aniso if not chk.quick else [x for x in aniso if x in single])]
    if getattr(chk, "only", None):
        items = [it for it in items if chk.only in str(it)]
    pmap(c01._prebuild, sorted({c[0] for k, c in items if k != "cs"}))
    chk.add(pmap(_dispatch, items))


# ---------------------------------------------------------------------------
# (f) extended: <F>^2 <= <F^2> for the orientation-averaged (anisotropic) models, by a
# Cauchy-Schwarz certificate over the addends of the model's own quadrature

def _flat_sum(t):
    """Children of a (nested) sum/difference, with signs folded in."""
    out, stack = [], [(t, False)]
    while stack:
        e, neg = stack.pop()
        k = e.decl().kind() if z3.is_app(e) else None
        if k == z3.Z3_OP_ADD:
            stack.extend((c, neg) for c in reversed(e.children()))
        elif k == z3.Z3_OP_SUB:
            ch = e.children()
            stack.extend((c, not neg) for c in reversed(ch[1:]))
            stack.append((ch[0], neg))
        elif k == z3.Z3_OP_UMINUS:
            stack.append((e.arg(0), not neg))
        else:
            out.append(-e if neg else e)
    return out


QUAD_MIN = 8     # a sum with at least this many addends is a quadrature accumulation


def _expand(t, budget):
    """Addends of a term: distribute products over *quadrature* sums (sums with many
    addends, top level and nested); small sums such as (sld - sld_solvent) stay atomic."""
    if budget[0] <= 0:
        raise OverflowError("too many addends")
    if z3.is_app(t):
        k = t.decl().kind()
        if k in (z3.Z3_OP_ADD, z3.Z3_OP_SUB):
            parts = _flat_sum(t)
            if len(parts) >= QUAD_MIN:
                out = []
                for c in parts:
                    out.extend(_expand(c, budget))
                return out
        elif k == z3.Z3_OP_UMINUS:
            return [-x for x in _expand(t.arg(0), budget)]
        elif k == z3.Z3_OP_MUL:
            ch, stack = [], list(reversed(t.children()))
            while stack:                      # factors through nested products
                e = stack.pop()
                if z3.is_app(e) and e.decl().kind() == z3.Z3_OP_MUL:
                    stack.extend(reversed(e.children()))
                else:
                    ch.append(e)
            for i, c in enumerate(ch):
                if z3.is_app(c) and c.decl().kind() in (z3.Z3_OP_ADD, z3.Z3_OP_SUB) \
                        and len(_flat_sum(c)) >= QUAD_MIN:
                    rest = ch[:i] + ch[i + 1:]
                    out = []
                    for x in _expand(c, budget):
                        out.extend(_expand(z3.Product(rest + [x]) if rest else x, budget))
                    return out
        elif k == z3.Z3_OP_DIV:
            num = _expand(t.arg(0), budget)
            if len(num) > 1:
                return [x / t.arg(1) for x in num]
    budget[0] -= 1
    return [t]


def unit_jensen(name):
    """F1 = sum_k a_k, F2 = sum_k b_k (addends of the model's own orientation quadrature, in
    accumulation order).  Certificate: constants c_k >= 0 with a_k^2 = c_k b_k for all parameter
    values (solver lemma per addend, 1e-9 relative for the round-off of c_k) and sum c_k <= 1;
    then F1^2 <= (sum c_k)(sum b_k) <= F2 by Cauchy-Schwarz."""
    import time as _time
    label = "jensen/%s" % name
    u = Unit(label, timeout_ms=20000)
    deadline = _time.time() + (300 if os.environ.get("VERIF_TIER_EFFECTIVE") != "thorough" else 900)
    km = KModel.get(name)
    info = km.info
    u.functions("Fq of %s (IR, interpreted incl. its Gauss quadrature loops; special functions uninterpreted)" % name)
    q = z3.Real("q")
    hold = {}

    def fn():
        it = interp.Interp(km.mod, mode="sym", decide=symx.current().decide, stubs=_special_stubs(km),
                           concretize=symx.current().concretize_int, max_steps=6000000)
        args, syms, cons = _args(km, info.parameters.iq_parameters, it, True)
        it.region("F", {})
        for c in cons:
            symx.current().assume(c, check=False)
        it.call("Fq", [q, Ptr("F", 0), Ptr("F", 8)] + args)
        hold["syms"] = syms
        return rat(it.mem["F"][0]), rat(it.mem["F"][8])

    ex = symx.Explorer(timeout_ms=20000, max_paths=8, abstract=True)
    try:
        paths = ex.explore(fn, [q > 0])
    except Exception as e:
        u.note("jensen certificate not attempted for %s: %r" % (name, e))
        return u.r
    u.absorb(ex, paths)
    decided = True
    for p in paths:
        if p.cut or p.exc is not None:
            u.note("jensen %s: path not encoded (%s)" % (name, p.cut or repr(p.exc)))
            decided = False
            continue
        F1, F2 = p.result
        try:
            a = _expand(F1, [20000])
            b = _expand(F2, [20000])
        except OverflowError:
            u.note("jensen %s: more than 20000 addends, not attempted" % name)
            decided = False
            continue
        if len(a) != len(b) or not a:
            u.note("jensen %s: %d addends of F1 vs %d of F2: no certificate" % (name, len(a), len(b)))
            decided = False
            continue
        H = p.constraints()
        cs, failed = [], None
        habs = None
        for k, (ak, bk) in enumerate(zip(a, b)):
            if _time.time() > deadline:
                failed = (k, "time budget of the extended obligation exhausted", None)
                break
            fa, fb = kharness.fingerprint(ak), kharness.fingerprint(bk)
            if fa is None or fb is None or fb == 0:
                failed = (k, "fingerprint")
                break
            ck = fa * fa / fb
            cs.append(ck)
            c = symx.rat(ck)
            tol = symx.rat(1e-9)
            # the form-factor value shared by the two addends becomes one symbol (sound generalisation)
            ak, bk = symx.generalize_shared(z3.simplify(ak), z3.simplify(bk))
            lhs, rhs = ak * ak, c * bk
            diff = lhs - rhs
            phi = z3.And(diff <= tol * z3.If(rhs >= 0, rhs, -rhs), -diff <= tol * z3.If(rhs >= 0, rhs, -rhs))
            # exp(x)^2 = exp(2x), instantiated on the exp atoms of this addend pair
            exps = symx.apps_of([ak, bk], names={"exp"})
            ax = [z3.Implies(2 * e1.arg(0) == e2.arg(0), e1 * e1 == e2) for e1 in exps for e2 in exps
                  if e1.get_id() != e2.get_id()] + [e > 0 for e in exps]
            res, m, _s = u.solve(symx.abstract_ufs(ax + [z3.Not(phi)]), timeout_ms=10000)
            if res != "unsat":
                res, m, _s = u.solve(symx.abstract_ufs(H + ax + [z3.Not(phi)]), timeout_ms=10000)
            u.r["obligations"] += 1
            if res == "unsat":
                u.r["discharged"] += 1
                continue
            u.r["obligations"] -= 1
            failed = (k, res, m)
            break
        if failed is None and cs:
            total = sum(cs)
            ok = min(cs) >= -1e-12 and total <= 1 + 1e-9
            u.note("jensen %s: %d addends, sum of Cauchy-Schwarz constants %.12g -> %s"
                   % (name, len(cs), total, "certificate complete" if ok else "constants do not sum to <= 1"))
            if ok:
                u.r["obligations"] += 1
                u.r["discharged"] += 1
                continue
            failed = (-1, "sum", None)
        decided = False
        # no certificate: look for a real witness; only a reproduced one is reported
        info_w = _jensen_witness(name, failed[2] if len(failed) > 2 else None, hold.get("syms", {}))
        if info_w["reproduced"]:
            info_w["obligation"] = "jensen-certificate"
            u.r["cex"].append(info_w)
        else:
            u.note("jensen %s: no certificate (addend %s: %s) and no numeric witness: undecided" % (name, failed[0], failed[1]))
    return u.r


def _jensen_witness(name, m, syms):
    info = core.load_model_info(name)
    model = core.build_model(info, dtype="double", platform="dll")
    base = {}
    for pid, s in syms.items():
        if m is not None and isinstance(s, z3.ExprRef) and not z3.is_rational_value(s):
            try:
                v = float(symx.model_float(m, s))
                if np.isfinite(v) and abs(v) < 1e6:
                    base[pid] = v
            except Exception:
                pass
    qs = np.logspace(-3, 0, 120)
    kern = model.make_kernel([qs])
    worst, arg = 0.0, None
    trials = [dict(base), {}]
    for p in info.parameters.kernel_parameters:         # exercise parameters whose default is 0
        if p.default == 0 and p.type != "orientation" and p.length == 1:
            for val in (1.0, 4.0, 8.0):
                trials.append({p.id: val})
    for pars in trials:
        try:
            with np.errstate(all="ignore"):
                F1, F2, R, Vs, ratio = direct_model.call_Fq(kern, dict(pars))
        except Exception:
            continue
        ex_ = (F1 ** 2 - F2) / np.maximum(np.abs(F2), 1e-300)
        ex_ = np.where(np.isfinite(ex_), ex_, 0.0)
        if ex_.max() > worst:
            worst, arg = float(ex_.max()), (dict(pars), float(qs[int(ex_.argmax())]))
    return {"reproduced": bool(worst > 1e-9), "key": "C14/jensen/%s" % name,
            "what": "%s: <F>^2 exceeds <F^2> by a relative %.3g at %r on the real DLL" % (name, worst, arg),
            "inputs": {"model": name, "witness": arg}, "block": None}
