"""C02 -- distribution weights: values, limits, support, normalisation, density.

The real ``weights.get_weights`` (and the real ``Dispersion._weights`` of each
class, for the un-normalised density) run on z3 proxies; centre, width,
nsigmas and both limits are symbolic reals; the point count, the distribution
type and relative/absolute are enumerated.  Every completed path gives a list
of value/weight *terms*; the documented properties are obligations over them.
"""
import math

import numpy as np
import z3

from vlib import symx, npshim
from vlib.harness import Unit, pmap
from vlib.symx import Sym, term

from sasmodels import weights as W

DISTS = ["gaussian", "rectangle", "uniform", "lognormal", "schulz", "boltzmann"]
POSITIVE = ("lognormal", "schulz")
FLOOR = 1e-8   # lognormal/schulz clamp their limits to this positive floor


def _install_stubs():
    W.np = npshim.NpShim()
    W.gammaln = lambda z: symx.uf("gammaln", z) if isinstance(z, Sym) else _gammaln(z)


from scipy.special import gammaln as _gammaln


def _inputs():
    c, wd, ns, lb, ub = (symx.real(n) for n in ("c", "width", "nsigmas", "lb", "ub"))
    return c, wd, ns, lb, ub


def _limits(kind, lb, ub):
    return {"sym": (lb, ub), "inf": (-np.inf, np.inf), "pos": (0.0, np.inf),
            "lb": (lb, np.inf), "ub": (-np.inf, ub)}[kind]


def _assumptions(dist, relative, kind, c, wd, ns, lb, ub):
    A = [wd.t >= 0, ns.t > 0]
    if relative:
        A.append(c.t > 0)
    if kind == "sym":
        A.append(lb.t <= ub.t)
        if dist in POSITIVE:
            A.append(ub.t >= symx.rat(FLOOR))
    if kind == "ub" and dist in POSITIVE:
        A.append(ub.t >= symx.rat(FLOOR))
    return A


def _ref_logdensity(dist, x, c, sigma):
    """log of the documented density (up to an additive constant), or None for flat."""
    x, c, sigma = Sym(x), Sym(c), Sym(sigma)
    if dist == "gaussian":
        return term(-((x - c) ** 2) / (2.0 * sigma * sigma))
    if dist == "boltzmann":
        return term(-abs(x - c) / abs(sigma))
    if dist == "lognormal":
        pd = sigma / c
        return term(-0.5 * ((symx.uf("log", x) - symx.uf("log", c)) / pd) ** 2
                    - symx.uf("log", x))
    if dist == "schulz":
        z = (c / sigma) ** 2
        return term((z - 1) * symx.uf("log", x / c) - z * (x / c))
    return None


def _symlog(t, lemmas):
    """Symbolic logarithm of a positive term built from exp-applications,
    products, quotients and positive atoms:  log(exp(a))=a, log(a*b)=log a+log b.
    Used so that proportionality to the documented density can be stated
    additively without exp reasoning; other atoms become log(atom)."""
    t = z3.simplify(t)
    if z3.is_app(t):
        k = t.decl().kind()
        if k == z3.Z3_OP_UNINTERPRETED and t.decl().name() == "exp":
            return t.arg(0)
        if k == z3.Z3_OP_MUL:
            return z3.Sum([_symlog(ch, lemmas) for ch in t.children()])
        if k == z3.Z3_OP_DIV:
            return _symlog(t.arg(0), lemmas) - _symlog(t.arg(1), lemmas)
        if k == z3.Z3_OP_POWER and z3.is_rational_value(t.arg(1)):
            return t.arg(1) * _symlog(t.arg(0), lemmas)
        if z3.is_rational_value(t) or z3.is_int_value(t):
            return symx.rat(math.log(float(t.as_fraction())))
    lemmas.append(t)     # atom that must be positive for the rewriting to be sound
    return symx.uf_decl("log", 1)(t)


def unit(cfg):
    dist, n, relative, kind = cfg
    name = "%s/n=%d/%s/limits=%s" % (dist, n, "relative" if relative else "absolute", kind)
    u = Unit(name, timeout_ms=60000)
    u.functions("sasmodels.weights.get_weights", "sasmodels.weights.Dispersion.get_weights",
                "sasmodels.weights.Dispersion._linspace",
                "sasmodels.weights.%s._weights" % W.DISTRIBUTIONS[dist].__name__,
                "numpy.linspace (real implementation on object arrays)")
    _install_stubs()
    c, wd, ns, lb, ub = _inputs()
    lims = _limits(kind, lb, ub)
    A = _assumptions(dist, relative, kind, c, wd, ns, lb, ub)

    def fn():
        v, w = W.get_weights(dist, n, wd, ns, c, lims, relative)
        # un-normalised weights of the same path, straight from the class
        obj = W.DISTRIBUTIONS[dist](n, wd, ns)
        v2, px = obj.get_weights(c, lims[0], lims[1], relative)
        return list(v), list(w), list(px)

    ex = symx.Explorer(timeout_ms=20000, max_paths=400)
    paths = ex.explore(fn, A)
    u.absorb(ex, paths)
    u.reachable(name, A)

    centre = c.t if relative else z3.RealVal(0)
    sigma = z3.simplify(wd.t * c.t) if relative else wd.t
    lbt = term(lims[0]) if not symx._is_inf(lims[0]) else None
    ubt = term(lims[1]) if not symx._is_inf(lims[1]) else None
    if dist == "uniform":
        half = sigma
    elif dist == "rectangle":
        half = None     # two bounds apply: nsigmas*sigma and sqrt(3)*sigma
    else:
        half = z3.simplify(ns.t * sigma)
    # reference grid
    if n >= 2:
        h = sigma if dist == "uniform" else ns.t * sigma
        grid = [centre - h + (2 * h) * k / (n - 1) for k in range(n)]
    else:
        grid = [centre]

    def in_lim(g, floor=False):
        cs = []
        lo, hi = lbt, ubt
        if floor:
            fl = symx.rat(FLOOR)
            lo = fl if lo is None else z3.If(lo >= fl, lo, fl)
            hi = None if hi is None else z3.If(hi >= fl, hi, fl)
        if lo is not None:
            cs.append(g >= lo)
        if hi is not None:
            cs.append(g <= hi)
        return z3.And(*cs) if cs else z3.BoolVal(True)

    sqrt3 = symx.rat(math.sqrt(3.0))

    for pi, p in enumerate(paths):
        if p.cut:
            continue
        H = p.constraints()

        def cex(oracle):
            def handler(m, oracle=oracle):
                return _replay_model(m, cfg, oracle, (c, wd, ns, lb, ub))
            return handler

        if p.exc is not None:
            # construction must not raise for legal inputs
            u.prove("no-exception", z3.BoolVal(False), H, cex("no-exception"))
            continue
        v, w, px = p.result
        vt, wt, pxt = [term(x) for x in v], [term(x) for x in w], [term(x) for x in px]
        degenerate = z3.Or(sigma == 0, z3.BoolVal(n < 2))
        u.sample({"config": name, "path": pi, "n_returned": len(vt),
                  "path_condition": [str(x)[:120] for x in p.pc][:8]})
        # 1 strictly increasing
        if len(vt) > 1:
            u.prove("increasing", z3.And(*[vt[i] < vt[i + 1] for i in range(len(vt) - 1)]),
                    H, cex("increasing"), sample=(pi == 0))
        # 2 inside hard limits and support
        for x in vt:
            conds = [in_lim(x)]
            if dist in POSITIVE:
                conds.append(z3.Implies(z3.Not(degenerate), x > 0))
            if dist == "rectangle":
                a = z3.If(sigma >= 0, sigma, -sigma)
                conds.append(z3.And(x - centre <= sqrt3 * a, centre - x <= sqrt3 * a,
                                    x - centre <= ns.t * a, centre - x <= ns.t * a))
            else:
                a = z3.If(half >= 0, half, -half)
                conds.append(z3.And(x - centre <= a, centre - x <= a))
            u.prove("inside-limits-and-support", z3.And(*conds), H, cex("inside"))
        # 3 every grid point inside the limits (and support) is returned, nothing else
        floor = dist in POSITIVE
        sel = []
        for g in grid:
            s = in_lim(g, floor=floor)
            if dist == "rectangle":
                a = z3.If(sigma >= 0, sigma, -sigma)
                s = z3.And(s, g - centre <= sqrt3 * a, centre - g <= sqrt3 * a)
            sel.append(s)
        nd = z3.Not(degenerate)
        obl = []
        for g, s in zip(grid, sel):
            obl.append(z3.Implies(z3.And(nd, s), z3.Or(*[x == g for x in vt]) if vt else z3.BoolVal(False)))
        for x in vt:
            obl.append(z3.Implies(nd, z3.Or(*[z3.And(s, x == g) for g, s in zip(grid, sel)])))
        # degenerate: ([centre],[1]) when inside the limits, else empty
        if len(vt) == 1:
            obl.append(z3.Implies(degenerate, z3.And(vt[0] == centre, wt[0] == 1, in_lim(centre))))
        elif len(vt) == 0:
            obl.append(z3.Implies(degenerate, z3.Not(in_lim(centre))))
        else:
            obl.append(z3.Not(degenerate))
        u.prove("exact-point-set", z3.And(*obl), H, cex("point-set"))
        if not vt:
            continue
        # 4 weights non-negative, sum to one
        u.prove("weights-nonnegative", z3.And(*[x >= 0 for x in wt]), H, cex("nonneg"), abstract=True)
        u.prove("weights-sum-to-one", z3.Sum(wt) == 1, H, cex("sum"), abstract=True)
        # 5 proportional to the documented density (pairwise, against point 0)
        if len(vt) > 1:
            # normalised weights are the un-normalised ones over a common factor
            u.prove("normalisation-is-common-factor",
                    z3.And(*[wt[i] * pxt[0] == wt[0] * pxt[i] for i in range(1, len(vt))]),
                    H, cex("common-factor"), abstract=True)
            ref = [_ref_logdensity(dist, x, centre, sigma) for x in vt]
            if ref[0] is None:
                u.prove("density-flat", z3.And(*[pxt[i] == pxt[0] for i in range(1, len(vt))]),
                        H, cex("density"))
            else:
                lem = []
                lg = [_symlog(t, lem) for t in pxt]
                pos = [a > 0 for a in lem]
                if lem:
                    u.prove("density-log-rewrite-side-conditions", z3.And(*pos), H,
                            cex("density"))
                u.prove("density-proportional",
                        z3.And(*[lg[i] - ref[i] == lg[0] - ref[0] for i in range(1, len(vt))]),
                        H + pos, cex("density"))
    return u.r


# --------------------------------------------------------------------------
# replay on the real code with plain floats

def numeric_violations(dist, n, relative, lims, c, wd, ns):
    import importlib
    import sasmodels.weights as RW
    RW.np = np
    RW.gammaln = _gammaln
    bad = set()
    try:
        v, w = RW.get_weights(dist, n, wd, ns, c, lims, relative)
    except Exception as e:
        return {"no-exception"}, repr(e)
    lb, ub = lims
    centre = c if relative else 0.0
    sigma = wd * c if relative else wd
    tol = 1e-9
    if len(v) > 1 and not np.all(np.diff(v) > 0):
        bad.add("increasing")
    if np.any(v < lb) or np.any(v > ub):
        bad.add("inside")
    degenerate = (sigma == 0 or n < 2)
    if not degenerate:
        h = abs(sigma) if dist == "uniform" else abs(ns * sigma)
        if dist == "rectangle":
            h = min(h, math.sqrt(3) * abs(sigma))
        if np.any(np.abs(v - centre) > h * (1 + tol)):
            bad.add("inside")
        if dist in POSITIVE and np.any(v <= 0):
            bad.add("inside")
        hh = sigma if dist == "uniform" else ns * sigma
        grid = centre + np.linspace(-hh, hh, n)
        lo, hi = (max(lb, FLOOR), max(ub, FLOOR)) if dist in POSITIVE else (lb, ub)
        keep = (grid >= lo) & (grid <= hi)
        if dist == "rectangle":
            keep &= np.abs(grid - centre) <= abs(sigma) * math.sqrt(3.0)
        exp = grid[keep]
        if len(exp) != len(v) or not np.allclose(exp, v, rtol=1e-12, atol=0):
            bad.add("point-set")
    else:
        want = [centre] if lb <= centre <= ub else []
        if list(v) != want or (len(w) == 1 and w[0] != 1.0):
            bad.add("point-set")
    if len(v):
        if not np.all(np.isfinite(w)) or np.any(w < 0):
            bad.add("nonneg")
        if abs(np.sum(w) - 1) > 1e-9:
            bad.add("sum")
        if not degenerate and len(v) > 1:
            with np.errstate(all="ignore"):
                if dist in ("uniform", "rectangle"):
                    rho = np.ones_like(v)
                elif dist == "gaussian":
                    rho = np.exp(-(v - centre) ** 2 / (2 * sigma ** 2))
                elif dist == "boltzmann":
                    rho = np.exp(-np.abs(v - centre) / abs(sigma))
                elif dist == "lognormal":
                    rho = np.exp(-0.5 * ((np.log(v) - np.log(centre)) / (sigma / centre)) ** 2) / v
                elif dist == "schulz":
                    z = (centre / sigma) ** 2
                    lr = (z - 1) * np.log(v / centre) - z * v / centre
                    rho = np.exp(lr - lr.max())
            if rho.sum() > 0 and np.all(np.isfinite(rho)):
                rho = rho / rho.sum()
                if not np.allclose(rho, w, rtol=1e-6, atol=1e-12):
                    bad.add("density")
                    bad.add("common-factor")
    return bad, {"values": [float(x) for x in v], "weights": [float(x) for x in w]}


def _replay_model(m, cfg, oracle, syms):
    dist, n, relative, kind = cfg
    c, wd, ns, lb, ub = [symx.model_float(m, s.t) for s in syms]
    lims = {"sym": (lb, ub), "inf": (-np.inf, np.inf), "pos": (0.0, np.inf),
            "lb": (lb, np.inf), "ub": (-np.inf, ub)}[kind]
    bad, detail = numeric_violations(dist, n, relative, lims, c, wd, ns)
    inputs = {"disperser": dist, "n": n, "width": wd, "nsigmas": ns, "value": c,
              "limits": [repr(lims[0]), repr(lims[1])], "relative": relative}
    hit = oracle in bad or (oracle == "common-factor" and "density" in bad)
    return {"reproduced": hit, "key": "C02/%s/%s" % (dist, oracle),
            "what": "get_weights(%r, %d, %r, %r, %r, %r, %r) violates '%s' (real code, floats: %s)"
                    % (dist, n, wd, ns, c, lims, relative, oracle, sorted(bad)),
            "inputs": inputs, "detail": detail, "block": None}


def replay(cex):
    i = cex["inputs"]
    lims = tuple(float(x) for x in i["limits"])
    bad, detail = numeric_violations(i["disperser"], i["n"], i["relative"], lims,
                                     i["value"], i["width"], i["nsigmas"])
    print("real get_weights on", i, "->", detail, "violated:", sorted(bad))
    return 1 if bad else 0


def configs(chk):
    nmax = 5 if chk.quick else 9
    kinds = ["sym", "inf"] if chk.quick else ["sym", "inf", "pos", "lb", "ub"]
    out = []
    for dist in DISTS:
        for n in range(1, nmax + 1):
            for relative in (True, False):
                for kind in kinds:
                    if kind != "sym" and n > 4:
                        continue
                    if dist in POSITIVE and not relative:
                        continue   # density with centre 0 is undefined: outside the claim
                    out.append((dist, n, relative, kind))
    return out


def run(chk):
    chk.explanation = (
        "Bounded symbolic execution of the real sasmodels.weights code on z3 proxy values "
        "(numpy object arrays), one unit per (distribution, npts, relative/absolute, limit kind); "
        "centre, width, nsigmas, lb, ub are symbolic reals.  Each explored path yields value/weight "
        "terms; obligations (strictly increasing, inside limits and support, returned set = exactly "
        "the reference grid points inside the limits, weights >= 0, sum = 1, proportional to the "
        "documented density, degenerate case) are discharged by z3 (unsat of the negation).")
    chk.bounds = {"npts": "1..%d" % (5 if chk.quick else 9),
                  "limit kinds": "symbolic finite lb<=ub; (-inf,inf)" + ("" if chk.quick else "; (0,inf); (lb,inf); (-inf,ub)"),
                  "solver timeout per query": "60 s; fork feasibility 20 s"}
    chk.outside = ["npts beyond the bound (code is uniform in npts via numpy.linspace)",
                   "floating-point rounding of linspace endpoints against the limits",
                   "ArrayDispersion and user-loaded distributions",
                   "lognormal/schulz with an absolute width (centre 0: the documented density is undefined; the real code divides by zero)",
                   "finiteness of weights under overflow/underflow (reals have no overflow)"]
    chk.stubs = ["weights.np -> vlib.npshim (np.array(x,'d') keeps proxies; fabs elementwise)",
                 "weights.gammaln -> uninterpreted function", "exp/log -> uninterpreted functions with exp>0"]
    chk.assumptions = ["width >= 0, nsigmas > 0, lb <= ub", "centre > 0 for relative widths",
                       "lognormal/schulz: upper limit >= 1e-8 (the code's positive floor)",
                       "doubles modelled as reals"]
    cfgs = configs(chk)
    if getattr(chk, "only", None):
        cfgs = [c for c in cfgs if chk.only in "%s/n=%d/%s/limits=%s" % (c[0], c[1], "relative" if c[2] else "absolute", c[3])]
    chk.add(pmap(unit, cfgs))
