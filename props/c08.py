"""C08 -- sum and product mixtures equal the stated combination of their parts.

The REAL ``core.load_model_info`` (expression parsing), ``make_mixture_info``,
``core.build_model`` -> ``MixtureModel.make_kernel``, ``MixtureKernel.Iq``,
``_MixtureParts`` (and, for ``P@S`` components, the product code), the REAL
``details.make_kernel_args`` and ``Kernel.Iq/Fq`` run on numpy object arrays of
z3 proxies; only the leaf kernels are recording stubs returning named symbols.

Per expression the whole value vector (each value, each distribution value,
each weight), the cutoff and every leaf's raw accumulators are symbolic -- in
particular the component intensities may be exactly zero.  z3 decides on every
path

 * each leaf is handed exactly what it is handed when its component is
   evaluated alone (real kernel structure of the component, same leaves) from
   the correspondingly prefixed parameters, incl. magnetic slots, the shared
   spin state and the magnetic flag;
 * total = scale*sum_k X_scale_k*I_k + background (sums),
   total = scale*prod_k I_k + background (products), I_k = component k alone
   with scale 1 and background 0;
 * for 2-part expressions: the swapped expression at the relabelled parameters
   gives the same total.
"""
import itertools

import numpy as np
import z3

from vlib import symx, compose as C
from vlib.harness import Unit, pmap
from vlib.symx import Sym, term

from sasmodels import core, details, direct_model

Q1 = [np.array([0.0125, 0.125])]
Q2 = [np.array([0.0125, 0.125]), np.array([0.03125, -0.0625])]

# basis: vector parameters (core_multi_shell), oriented (cylinder, ellipsoid),
# magnetic-capable (sphere, cylinder, ...), python model without dispersity
# (power_law), volfraction owner (vesicle), hollow (hollow_cylinder), P@S.
BASIS = ["sphere", "cylinder", "core_multi_shell", "power_law", "sphere@hardsphere",
         "ellipsoid", "vesicle", "hollow_cylinder", "lamellar", "guinier",
         "cylinder@hayter_msa", "core_shell_sphere"]

FUNCS = ["sasmodels.core.load_model_info (expressions with +, *, @)",
         "sasmodels.direct_model.get_mesh with the kernel's dim (which dispersities are active; concrete)",
         "sasmodels.mixture.MixtureKernel.dim / ProductKernel.dim",
         "sasmodels.mixture.make_mixture_info", "sasmodels.core.build_model",
         "sasmodels.mixture.MixtureModel.make_kernel", "sasmodels.mixture.MixtureKernel.__init__",
         "sasmodels.mixture.MixtureKernel.Iq", "sasmodels.mixture._MixtureParts.__next__",
         "sasmodels.mixture._MixtureParts._part_details", "sasmodels.mixture._MixtureParts._part_values",
         "sasmodels.product.make_product_info / ProductKernel (P@S components)",
         "sasmodels.details.make_kernel_args", "sasmodels.details.make_details",
         "sasmodels.details.convert_magnetism", "sasmodels.kernel.Kernel.Iq", "sasmodels.kernel.Kernel.Fq",
         "sasmodels.modelinfo.ParameterTable (combined table)"]

SPIN = ("up_frac_i", "up_frac_f", "up_theta", "up_phi")


# --------------------------------------------------------------------------
# expression structure

def split_expr(expr):
    if "+" in expr:
        return "+", expr.split("+")
    if "*" in expr:
        return "*", expr.split("*")
    raise ValueError("not a mixture expression: " + expr)


def leaves_of(info):
    if info.composition is None:
        return [info]
    out = []
    for p in info.composition[1]:
        out += leaves_of(p)
    return out


def zeroable(leaf_info):
    """Is an input known that makes this leaf's intensity exactly zero?  (equal
    SLDs, or an all-zero weight vector in its dispersity loop)"""
    return leaf_info.parameters.nmagnetic >= 2 or leaf_info.parameters.max_pd >= 1


def part_layout(info):
    """From the real combined table: for each part (scale name or None, prefix,
    [combined name of the part's j-th call parameter, None for scale/background]);
    plus the list of departures from the documented prefix rule."""
    op = info.operation
    parts = info.composition[1]
    names = [p.name for p in info.parameters.call_parameters]
    npars = info.parameters.npars
    body, tail = names[2:2 + npars], names[2 + npars:]
    bad, lay, pos, prefixes = [], [], 0, []
    any_mag = any(p.parameters.nmagnetic for p in parts)
    if any_mag and tail[:4] != list(SPIN):
        bad.append("spin state %s" % tail[:4])
    tpos = 4
    for part in parts:
        pn = [p.name for p in part.parameters.call_parameters]
        pnp, nmag = part.parameters.npars, part.parameters.nmagnetic
        scale = None
        if op == "+":
            scale = body[pos] if pos < len(body) else None
            if scale is None or not scale.endswith("_scale"):
                bad.append("no scale parameter for part %s at %d" % (part.id, pos))
            pos += 1
        own = body[pos:pos + pnp]
        pos += pnp
        mag = tail[tpos:tpos + 3 * nmag] if nmag else []
        tpos += 3 * nmag
        nested = part.composition is not None and part.composition[0] == "mixture"
        if len(own) != pnp or len(mag) != 3 * nmag:
            bad.append("part %s: %d+%d parameters found, %d+%d expected"
                       % (part.id, len(own), len(mag), pnp, 3 * nmag))
            lay.append((scale, "", [None] * len(pn)))
            continue
        if nested:
            # sub-components keep their own letters (possibly advanced to avoid
            # a clash); everything after the letter must be unchanged
            prefix = ""
            strip = lambda n: n.split("_", 1)[1] if "_" in n else n
            if [strip(n) for n in pn[2:2 + pnp]] != [strip(n) for n in own]:
                bad.append("nested part %s: %s vs %s" % (part.id, own, pn[2:2 + pnp]))
            letters = []
            for n in own:
                if n.split("_")[0] not in letters:
                    letters.append(n.split("_")[0])
            prefixes += [l + "_" for l in letters]
            if op == "+" and scale != "".join(letters) + "_scale":
                bad.append("scale of nested part %s is %s" % (part.id, scale))
        else:
            if own:
                prefix = own[0][:len(own[0]) - len(pn[2])]
            elif scale:
                prefix = scale[:-len("scale")]
            else:
                prefix = "?_"
            if [prefix + n for n in pn[2:2 + pnp]] != own:
                bad.append("parameters of part %s are %s, not '%s'+%s" % (part.id, own, prefix, pn[2:2 + pnp]))
            if nmag and [prefix + n for n in pn[2 + pnp + 4:]] != mag:
                bad.append("magnetic parameters of part %s are %s" % (part.id, mag))
            if own or scale:
                if not (len(prefix) == 2 and prefix[0].isupper() and prefix[1] == "_"):
                    bad.append("prefix %r of part %s" % (prefix, part.id))
                prefixes.append(prefix)
            if op == "+" and scale != prefix + "scale":
                bad.append("scale of part %s is %s" % (part.id, scale))
        idx = [None, None] + own + (list(SPIN) + mag if nmag else [])
        if len(idx) != len(pn):
            bad.append("part %s: call parameter count %d vs %d" % (part.id, len(pn), len(idx)))
        lay.append((scale, prefix, idx))
    if pos != len(body):
        bad.append("combined table has %d parameters, parts account for %d" % (len(body), pos))
    if any_mag and tpos != len(tail) or (not any_mag and tail):
        bad.append("magnetic block length %d, parts account for %d" % (len(tail), tpos))
    if len(set(prefixes)) != len(prefixes):
        bad.append("prefixes not distinct: %s" % prefixes)
    return lay, bad


# --------------------------------------------------------------------------

def sub_configs(info):
    parts = info.composition[1]
    lvs = leaves_of(info)
    subs = [("1d", "first", False)]
    if any(l.parameters.has_2d or l.parameters.nmagnetic for l in lvs):
        subs.append(("2d", "last", True))
    return subs


def _arr(x):
    return [term(v) for v in np.asarray(x, dtype=object).ravel()]


def activation(info, dim_attr):
    """Which parameters the REAL direct_model.get_mesh gives a distribution when
    every polydisperse-capable parameter asks for one, for a kernel whose
    ``dim`` attribute is *dim_attr* (call_kernel passes ``calculator.dim``)."""
    pars = {}
    for p in info.parameters.call_parameters:
        if p.polydisperse:
            pars[p.name + "_pd"] = 0.125
            pars[p.name + "_pd_n"] = 3
    mesh = direct_model.get_mesh(info, pars, dim=dim_attr)
    return {p.name: len(m[1]) > 1 or not p.polydisperse
            for p, m in zip(info.parameters.call_parameters, mesh)}, pars


def check_activation(u, expr, info, parts, lay, kern, pks, dim, seen):
    """call_kernel builds the mesh with the kernel's ``dim``: the mixture must
    activate the dispersity of a component's parameter exactly when the
    component evaluated alone does (for 1-D q the orientation/magnetic
    parameters are left out: the 1-D kernels do not read them)."""
    name = "dispersity-activation"
    if name in seen:
        return
    u.r["obligations"] += 1
    act, _p = activation(info, kern.dim)
    diff = []
    part_strs = split_expr(expr)[1]
    for ps, pk, (_s, _pf, idx) in zip(part_strs, pks, lay):
        # the component alone = a freshly loaded info (make_mixture_info renames
        # the parameters of nested parts in place)
        part = core.load_model_info(ps)
        act_k, _p = activation(part, pk.dim)
        for j, p in enumerate(part.parameters.call_parameters):
            if j < 2 or idx[j] is None or not p.polydisperse:
                continue
            if dim == "1d" and p.type in ("orientation", "magnetic"):
                continue
            if act[idx[j]] != act_k[p.name]:
                diff.append((idx[j], p.type))
    if not diff:
        u.r["discharged"] += 1
        return
    pars = {}
    for cn, typ in diff:
        pars[cn + "_pd"] = 15.0 if typ == "orientation" else 0.125
        pars[cn + "_pd_n"] = 5
    bad, detail = numeric_named(expr, dim, pars)
    seen[name] = [1, None]
    u.r["cex"].append({
        "obligation": name, "reproduced": bool(bad), "key": "C08/dispersity-activation",
        "what": "%s (%s): mixture kernel dim=%r, components dim=%s: dispersity of %s is active for the "
                "component alone but not in the mixture (or vice versa); real call_kernel: violated %s; %s"
                % (expr, dim, kern.dim, [pk.dim for pk in pks], [d[0] for d in diff], sorted(bad),
                   {k: v for k, v in detail.items() if k != "I(parts alone)"}),
        "inputs": {"expr": expr, "dim": dim, "pars": pars, "oracle": "named"}, "detail": detail})


def numeric_named(expr, dim, pars):
    """Real direct_model.call_kernel (get_mesh with the kernel's dim) on the
    mixture and on every component alone, named parameters."""
    qv = Q1 if dim == "1d" else Q2
    op, part_strs = split_expr(expr)
    info = core.load_model_info(expr)
    lay, _bad = part_layout(info)
    try:
        kern = C.real_model(expr).make_kernel(qv)
        full = dict(pars)
        total = np.array(direct_model.call_kernel(kern, full), dtype=float)
        Is = []
        for part, ps, (sname, _pf, idx) in zip(info.composition[1], part_strs, lay):
            pk = C.real_model(ps).make_kernel(qv)
            pk_pars = {"scale": 1.0, "background": 0.0}
            for j, p in enumerate(pk.info.parameters.call_parameters):
                if j >= 2 and idx[j] is not None:
                    for suffix in ("", "_pd", "_pd_n", "_pd_type", "_pd_nsigma"):
                        if idx[j] + suffix in full:
                            pk_pars[p.name + suffix] = full[idx[j] + suffix]
            Is.append(np.array(direct_model.call_kernel(pk, pk_pars), dtype=float))
    except Exception as e:
        return {"exception"}, {"exception": repr(e)}
    defaults = {p.name: p.default for p in info.parameters.call_parameters}
    val = lambda n: full.get(n, defaults[n])
    if op == "+":
        acc = sum(val(l[0]) * Ik for l, Ik in zip(lay, Is))
    else:
        acc = np.prod(np.array(Is), axis=0)
    ref = val("scale") * acc + val("background")
    detail = {"I(mixture)": total.tolist(), "I(reference)": np.asarray(ref).tolist(),
              "I(parts alone)": [x.tolist() for x in Is]}
    return (set() if C.close(total, ref) else {"intensity"}), detail


def run_sub(u, expr, info, sub, seen, validate, light=False):
    dim, which, mag = sub
    name = "%s/%s/pd=%s%s" % (expr, dim, which, "/magnetic" if mag else "")
    if C.unit_failed(u):
        return
    op, part_strs = split_expr(expr)
    parts = info.composition[1]
    qv = Q1 if dim == "1d" else Q2
    nq = len(qv[0])
    lay, bad = part_layout(info)
    u.r["obligations"] += 1
    if bad:
        u.r["cex"].append({"obligation": "parameter-table", "reproduced": True,
                           "key": "C08/parameter-table",
                           "what": "%s: combined table does not follow the prefix rule: %s" % (expr, bad),
                           "inputs": {"expr": expr, "oracle": "table"}})
        return
    u.r["discharged"] += 1
    names = [p.name for p in info.parameters.call_parameters]
    nl = [C.count_leaves(p) for p in parts]
    ids, k0 = [], 0
    for n in nl:
        ids.append(list(range(k0, k0 + n)))
        k0 += n
    all_leaves = leaves_of(info)
    rec, rec_ref, rec2 = [], [], []
    kern = C.stub_build(info, sum(ids, []), rec).make_kernel(qv)
    pks = [C.stub_build(p, i, rec_ref).make_kernel(qv) for p, i in zip(parts, ids)]
    swapped = len(parts) == 2
    if swapped:
        expr2 = op.join(reversed(part_strs))
        info2 = core.load_model_info(expr2)
        lay2, bad2 = part_layout(info2)
        kern2 = C.stub_build(info2, ids[1] + ids[0], rec2).make_kernel(qv)
        names2 = [p.name for p in info2.parameters.call_parameters]
        # relabelling: part j of the swapped expression is part 1-j of this one
        ren = {"scale": "scale", "background": "background"}
        for j in (0, 1):
            if lay2[j][0]:
                ren[lay2[j][0]] = lay[1 - j][0]
            for cn2, cn1 in zip(lay2[j][2], lay[1 - j][2]):
                if cn2 is not None:
                    ren[cn2] = cn1
        if bad2 or sorted(ren) != sorted(names2):
            u.error("%s: cannot relabel swapped expression %s (%s)" % (name, expr2, bad2))
            swapped = False

    check_activation(u, expr, info, parts, lay, kern, pks, dim, seen)
    if C.unit_failed(u):
        return

    # dispersed parameters: one per component, alternating lengths
    lengths = {}
    for k, (part, (_s, prefix, idx)) in enumerate(zip(parts, lay)):
        pd = [idx[j] for j, p in enumerate(part.parameters.call_parameters)
              if 2 <= j < 2 + part.parameters.npars
              and p.polydisperse and (dim == "2d" or p.type != "orientation")]
        if pd:
            lengths[pd[0] if which == "first" else pd[-1]] = 3 if k % 2 == 0 else 2
    m0_sym = set()
    if mag:
        for part, (_s, prefix, idx) in list(zip(parts, lay)):
            m0 = [cn for cn in idx if cn is not None and cn.endswith("_M0")]
            if m0 and len(m0_sym) < (1 if light else 2):
                m0_sym.add(m0[0])
    # magnetisation angles are symbolic for the SLDs whose amplitude is symbolic;
    # the switched-off SLDs (M0 = 0) keep their default angles (keeps the number
    # of element-wise forks of `values != 0` tests bounded)
    fixed = {}
    defaults = {p.name: p.default for p in info.parameters.call_parameters}
    for n in defaults:
        if n.endswith("_M0") and n not in m0_sym:
            for suffix in ("_mtheta", "_mphi"):
                fixed[n[:-3] + suffix] = defaults[n[:-3] + suffix]
    mesh, by = C.sym_mesh(info, lengths, fixed, m0_sym)
    cutoff = symx.real("cutoff")

    # assumptions on the leaves
    A, degenerate = [], (len(all_leaves) <= 2 and not mag)
    # sin^2+cos^2=1 for the magnetisation angles: only handed to the final
    # queries of the magnetic sub-configuration (keeps the fork checks linear)
    circle = C.circle_axioms(by) if mag else []
    for l, leaf in enumerate(all_leaves):
        if not degenerate:
            A += [z3.Real("L%d.tw" % l) != 0, z3.Real("L%d.sv" % l) != 0]
        if mag or not zeroable(leaf):
            # exact zeros of a component are explored in the 1-D sub-configuration
            A += [z3.Real("L%d.F2[%d]" % (l, i)) != 0 for i in range(nq)]

    def fn():
        del rec[:]
        cd, vals, is_mag = details.make_kernel_args(kern, mesh)
        val = dict(zip(names, list(vals[:len(names)])))
        out = kern(cd, vals, cutoff, is_mag)
        calls = list(rec)
        I, refcalls, flags = [], [], []
        for part, pk, (_s, _p, idx) in zip(parts, pks, lay):
            mesh_k = [C.const_entry(1.0), C.const_entry(0.0)] + [by[cn] for cn in idx[2:]]
            del rec_ref[:]
            cdk, vk, magk = details.make_kernel_args(pk, mesh_k)
            I.append(pk(cdk, vk, cutoff, magk))
            refcalls.append(list(rec_ref))
            flags.append(magk)
        out2 = None
        if swapped:
            del rec2[:]
            mesh2 = [by[ren[n]] for n in names2]
            cd2, v2, mag2 = details.make_kernel_args(kern2, mesh2)
            out2 = kern2(cd2, v2, cutoff, mag2)
        return {"out": out, "calls": calls, "I": I, "refcalls": refcalls, "val": val, "out2": out2,
                "is_mag": is_mag, "calls2": list(rec2)}

    ex = symx.Explorer(timeout_ms=20000, max_paths=600)
    paths = ex.explore(fn, A)
    u.absorb(ex, paths)
    if not paths:
        u.error("%s: no path" % name)
        return
    u.reachable(name, paths[0].constraints())
    u.sample({"config": name, "paths": len(paths), "leaves": [l.id for l in all_leaves],
              "symbols": sum(1 + 2 * len(e[1]) for e in mesh),
              "first_path_condition": [str(c)[:80] for c in paths[0].pc][:6]})

    for pi, p in enumerate(paths):
        if C.unit_failed(u):
            break
        if p.cut:
            continue
        H = p.constraints() + circle
        if p.exc is not None:
            u.error("%s path %d: %s: %s" % (name, pi, type(p.exc).__name__, str(p.exc)[:300]))
            continue
        r = p.result
        val = r["val"]
        I = [_arr(x) for x in r["I"]]
        out = _arr(r["out"])
        zero_any = z3.Or(*[I[k][i] == 0 for k in range(len(parts)) for i in range(nq)])
        items = []

        def mk_handler(oname, phi, oracle, H=H, I=I):
            return lambda m: C.replayed(u, _replay_model(m, expr, info, sub, by, lay, H, phi, oracle,
                                                         oname, I, zero_any))

        # ---- routing: every leaf call of part k = the call when part k is alone
        def route(tag, k, all_calls):
            part, (sname, prefix, _idx) = parts[k], lay[k]
            mine = [c for c in all_calls if c.leaf in ids[k]]
            ref = r["refcalls"][k]
            same_seq = [c.leaf for c in mine] == [c.leaf for c in ref] and len(ref) == nl[k]
            items.append(("%spart-%d:leaf-calls" % (tag, k), z3.BoolVal(same_seq), "intensity"))
            if not same_seq:
                return
            direct_leaf = part.composition is None
            conj, flag_ok = [], True
            for c, cr in zip(mine, ref):
                # compared as the kernel selected by the stand-alone flag reads them
                got = C.kernel_view(c.info, c.details, c.values, C.flag(cr.magnetic))
                want = C.kernel_view(cr.info, cr.details, cr.values, C.flag(cr.magnetic))
                if op == "+" and direct_leaf:
                    # the component's own scale X_scale_k reaches the leaf's scale slot
                    conj.append(term(got["values"][0]) == term(val[sname]))
                    got["values"] = [want["values"][0]] + got["values"][1:]
                phi, _bad = C.views_equal(got, want)
                conj.append(phi)
                conj.append(z3.BoolVal(_same(c.mode, cr.mode)))
                conj.append(term(c.cutoff) == term(cr.cutoff))
                # kernel_iq.c compiles its magnetic branch only for models with SLD
                # parameters; a python leaf refuses the flag (NotImplementedError)
                matters = c.info.parameters.nmagnetic > 0 or callable(c.info.Iq)
                flag_ok = flag_ok and (C.flag(c.magnetic) == C.flag(cr.magnetic) or not matters)
            items.append(("%spart-%d:arguments" % (tag, k), z3.And(*conj),
                          "order" if tag else "intensity"))
            items.append(("%spart-%d:magnetic-flag" % (tag, k), z3.BoolVal(flag_ok),
                          "order" if tag else "intensity"))

        for k in range(len(parts)):
            route("", k, r["calls"])
        if swapped and r["out2"] is not None:
            for k in range(len(parts)):
                route("swapped/", k, r["calls2"])
        # ---- combination
        scale, bg = term(val["scale"]), term(val["background"])
        want = []
        for i in range(nq):
            if op == "+":
                acc = z3.Sum([term(val[lay[k][0]]) * I[k][i] for k in range(len(parts))])
            else:
                acc = z3.Product([I[k][i] for k in range(len(parts))])
            want.append(scale * acc + bg)
        items.append(("combination:%s" % ("sum" if op == "+" else "product"),
                      z3.And(z3.BoolVal(len(out) == nq),
                             *[out[i] == want[i] for i in range(min(nq, len(out)))]), "intensity"))
        if swapped and r["out2"] is not None:
            out2 = _arr(r["out2"])
            items.append(("order-independence",
                          z3.And(z3.BoolVal(len(out2) == nq),
                                 *[out[i] == out2[i] for i in range(min(nq, len(out2)))]), "order"))
        C.prove_all(u, items, H, mk_handler, seen, sample=(pi == 0))

    if validate and "validated" not in seen:
        seen["validated"] = True
        try:
            _validate(u, expr, info, sub, by, paths, name)
        except Exception as e:
            u.error("%s: translator validation crashed: %r" % (name, e))


def _same(a, b):
    if isinstance(a, Sym) or z3.is_expr(a) or isinstance(b, Sym) or z3.is_expr(b):
        return z3.is_true(z3.simplify(term(a) == term(b)))
    return a == b


# --------------------------------------------------------------------------
# real code: numeric oracle, replay, validation

def numeric_check(expr, dim, conc, cutoff=0.0):
    """Real compiled kernels: mixture at the concrete mesh vs the stated
    combination of separately evaluated components."""
    C.remove_shims()
    qv = Q1 if dim == "1d" else Q2
    op, part_strs = split_expr(expr)
    info = core.load_model_info(expr)
    lay, bad_t = part_layout(info)
    detail = {}
    if bad_t:
        return {"table"}, {"table": bad_t}
    try:
        total, kern, val = C.real_call(C.real_model(expr), qv, C.float_mesh(info, conc), cutoff,
                                       want_values=True)
    except Exception as e:
        return {"exception"}, {"exception": repr(e)}
    Is = []
    for ps, (sname, prefix, idx) in zip(part_strs, lay):
        Ik, _k = C.real_call(C.real_model(ps), qv, _part_mesh(conc, idx), cutoff)
        Is.append(Ik)
    if op == "+":
        acc = sum(val[l[0]] * Ik for l, Ik in zip(lay, Is))
    else:
        acc = np.prod(np.array(Is), axis=0)
    ref = val["scale"] * acc + val["background"]
    detail.update({"I(mixture)": total.tolist(), "I(reference)": np.asarray(ref).tolist(),
                   "I(parts alone)": [x.tolist() for x in Is]})
    bad = set()
    if not C.close(total, ref):
        bad.add("intensity")
    return bad, detail


def _part_mesh(conc, idx):
    """Mesh of a component evaluated alone: scale 1, background 0, then the
    correspondingly prefixed parameters in the component's own order."""
    ent = lambda e: (float(e[0]), np.asarray(e[1], dtype=float), np.asarray(e[2], dtype=float))
    return [ent([1.0, [1.0], [1.0]]), ent([0.0, [0.0], [1.0]])] + [ent(conc[cn]) for cn in idx[2:]]


def relabel(expr, conc):
    """The swapped 2-part expression and the same parameters under its labels."""
    op, part_strs = split_expr(expr)
    expr2 = op.join(reversed(part_strs))
    info, info2 = core.load_model_info(expr), core.load_model_info(expr2)
    lay, lay2 = part_layout(info)[0], part_layout(info2)[0]
    conc2 = {"scale": conc["scale"], "background": conc["background"]}
    for j in (0, 1):
        if lay2[j][0]:
            conc2[lay2[j][0]] = conc[lay[1 - j][0]]
        for cn2, cn1 in zip(lay2[j][2], lay[1 - j][2]):
            if cn2 is not None:
                conc2[cn2] = conc[cn1]
    return expr2, info2, conc2


def numeric_order(expr, dim, conc):
    """Real code: the swapped 2-part expression at the relabelled parameters."""
    C.remove_shims()
    qv = Q1 if dim == "1d" else Q2
    info = core.load_model_info(expr)
    expr2, info2, conc2 = relabel(expr, conc)
    try:
        a, _k = C.real_call(C.real_model(expr), qv, C.float_mesh(info, conc))
        b, _k = C.real_call(C.real_model(expr2), qv, C.float_mesh(info2, conc2))
    except Exception as e:
        return {"exception"}, {"exception": repr(e)}
    detail = {"I(%s)" % expr: a.tolist(), "I(%s) relabelled" % expr2: b.tolist()}
    return (set() if C.close(a, b) else {"order"}), detail


def _zero_part(expr, info, lay, dim, conc, k):
    """Concrete inputs that make component k exactly zero: (i) all its SLDs
    equal (no contrast); (ii) an all-zero weight vector.  Returns a new mesh
    dict or None.  The zero is verified on the real kernel of the component."""
    op, part_strs = split_expr(expr)
    part = info.composition[1][k]
    idx = lay[k][2]
    qv = Q1 if dim == "1d" else Q2

    def alone(c):
        Ik, _k = C.real_call(C.real_model(part_strs[k]), qv, _part_mesh(c, idx))
        return Ik

    pars = part.parameters.call_parameters
    slds = [idx[j] for j, p in enumerate(pars) if p.type == "sld" and idx[j] is not None]
    cands = []
    if len(slds) >= 2:
        c = dict(conc)
        v0 = conc[slds[0]]
        for s in slds[1:]:
            c[s] = [v0[0], [v0[1][0]] * len(conc[s][1]), list(conc[s][2])]
        cands.append(("all SLDs of component %d equal" % k, c))
    c = dict(conc)
    for j, p in enumerate(pars):
        if 2 <= j < 2 + part.parameters.npars:
            cn = idx[j]
            c[cn] = [conc[cn][0], list(conc[cn][1]), [0.0] * len(conc[cn][2])]
    cands.append(("all dispersity weights of component %d zero" % k, c))
    for how, c in cands:
        try:
            Ik = alone(c)
        except Exception:
            continue
        if np.all(Ik == 0.0):
            return how, c
    return None, None


def _replay_model(m0, expr, info, sub, by, lay, H, phi, oracle, oname, I, zero_any):
    dim, which, mag = sub
    prefs = C.default_prefs(info, by)
    m = m0
    key = "C08/" + oname.split(":")[-1] if "part-" in oname else "C08/" + oname
    if m is None:
        return {"reproduced": False, "key": key, "what": "no robust witness", "inputs": {}}
    conc = C.robust_inputs(m, H, prefs, by)
    # does the solver's witness rely on a component intensity being exactly 0?
    zeros = [(k, i) for k in range(len(I)) for i in range(len(I[k]))
             if symx.model_float(m, C.normalise(I[k][i])) == 0]
    how = None
    block = None
    if zeros and oname.startswith(("combination:product", "order-independence")):
        for k in sorted(set(k for k, _i in zeros)):
            how, c = _zero_part(expr, info, lay, dim, conc, k)
            if how:
                conc = c
                break
        key = "C08/product-accumulator-zero-test"
        block = zero_any
    rexpr = expr
    if oname.startswith("swapped/"):
        # an argument of the swapped expression: replay that expression
        C.remove_shims()
        rexpr, _i2, conc = relabel(expr, conc)
        oracle = "intensity"
        bad, detail = numeric_check(rexpr, dim, conc)
    elif oracle == "order":
        bad, detail = numeric_order(expr, dim, conc)
    else:
        bad, detail = numeric_check(expr, dim, conc)
    hit = bool(bad)
    what = "%s (%s): obligation '%s' fails" % (expr, dim, oname)
    if zeros and block is not None:
        what += "; z3 witness has component intensity exactly 0 at (component, q index) %s" % zeros[:4]
        if how:
            what += ", realised on the real kernels by: %s" % how
    what += "; real compiled kernels: violated %s; %s" % (
        sorted(bad), {k: v for k, v in detail.items() if k != "I(parts alone)"})
    return {"reproduced": hit, "key": key, "what": what,
            "inputs": {"expr": rexpr, "dim": dim, "mesh": conc, "oracle": oracle},
            "detail": detail, "block": block}


def replay(cex):
    i = cex["inputs"]
    if i.get("oracle") == "build":
        try:
            core.load_model_info(i["expr"])
        except Exception as e:
            print("real core.load_model_info(%r) raises %r" % (i["expr"], e))
            return 1
        print("real core.load_model_info(%r) succeeds" % i["expr"])
        return 0
    if i.get("oracle") == "named":
        bad, detail = numeric_named(i["expr"], i["dim"], i["pars"])
        print("real call_kernel on %s (%s) with %s: violated %s" % (i["expr"], i["dim"], i["pars"], sorted(bad)))
        for k, v in detail.items():
            print("  %s = %s" % (k, v))
        return 1 if bad else 0
    if i.get("oracle") == "table":
        info = core.load_model_info(i["expr"])
        bad = part_layout(info)[1]
        print("real make_mixture_info(%s): %s" % (i["expr"], bad))
        return 1 if bad else 0
    if i.get("oracle") == "order":
        bad, detail = numeric_order(i["expr"], i["dim"], i["mesh"])
    else:
        bad, detail = numeric_check(i["expr"], i["dim"], i["mesh"])
    print("real %s (%s) at the stored mesh: violated %s" % (i["expr"], i["dim"], sorted(bad)))
    for k, v in detail.items():
        print("  %s = %s" % (k, v))
    return 1 if bad else 0


def _real_leaf_kernels(k):
    if hasattr(k, "kernels"):
        out = []
        for x in k.kernels:
            out += _real_leaf_kernels(x)
        return out
    if hasattr(k, "p_kernel"):
        return _real_leaf_kernels(k.p_kernel) + _real_leaf_kernels(k.s_kernel)
    return [k]


def _validate(u, expr, info, sub, by, paths, name):
    """Symbolic total evaluated at a concrete mesh, stub symbols bound to the raw
    accumulators of the real compiled leaves, vs the real mixture kernel."""
    dim, which, mag = sub
    prefs = C.default_prefs(info, by)
    env = {c.decl().name(): float(v) for c, v in prefs}
    env["cutoff"] = 0.0
    g = lambda x: env[x.t.decl().name()] if C.is_var(x) else float(x)
    conc = {n: [g(v), [g(x) for x in d], [g(x) for x in w]] for n, (v, d, w) in by.items()}
    qv = Q1 if dim == "1d" else Q2
    C.remove_shims()
    try:
        total, kern = C.real_call(C.real_model(expr), qv, C.float_mesh(info, conc))
        for leaf, k in enumerate(_real_leaf_kernels(kern)):
            nout = 2 if k.info.have_Fq and k.dim == "1d" else 1
            nq = k.q_input.nq
            raw = np.array(k.result, dtype=float)
            for i in range(nq):
                env["L%d.F2[%d]" % (leaf, i)] = raw[nout * i]
                if nout == 2:
                    env["L%d.F1[%d]" % (leaf, i)] = raw[nout * i + 1]
            env["L%d.tw" % leaf], env["L%d.fv" % leaf], env["L%d.sv" % leaf] = raw[nout * nq:nout * nq + 3]
            for mode in range(0, 12):
                env["L%d.re[m%d]" % (leaf, mode)] = raw[nout * nq + 3]
    finally:
        C.install_shims()
    for p in paths:
        if p.cut or p.exc is not None:
            continue
        try:
            if all(symx.evalf(c, env) for c in p.constraints()):
                out = [symx.evalf(t, env) for t in _arr(p.result["out"])]
                for i, (a, b) in enumerate(zip(out, total)):
                    u.check_close("%s I[%d]" % (name, i), float(a), float(b), rtol=1e-9)
                return
        except KeyError as e:
            u.error("%s: validation env lacks %s" % (name, e))
            return
    u.note("%s: no explored path matches the concrete validation point" % name)


# --------------------------------------------------------------------------

def unit(cfg):
    expr, only, validate, light = cfg
    u = Unit(expr, timeout_ms=60000)
    u.functions(*FUNCS)
    C.install_shims()
    try:
        info = core.load_model_info(expr)
    except Exception as e:
        # every component is a builtin model: the expression must be buildable
        u.r["obligations"] += 1
        u.r["cex"].append({
            "obligation": "expression-can-be-built", "reproduced": True,
            "key": "C08/expression-cannot-be-built/%s" % type(e).__name__,
            "what": "core.load_model_info(%r) raises %s: %s" % (expr, type(e).__name__, e),
            "inputs": {"expr": expr, "oracle": "build"}})
        return u.r
    seen = {}
    for sub in sub_configs(info):
        nm = "%s/%s/pd=%s%s" % (expr, sub[0], sub[1], "/magnetic" if sub[2] else "")
        if only and only not in nm:
            continue
        run_sub(u, expr, info, sub, seen, validate, light)
    extra = {k: v[0] - 1 for k, v in seen.items() if isinstance(v, list) and v[0] > 1}
    if extra:
        u.note("%s: instances of an obligation solved with the replayed finding excluded, or skipped, after its first replayed violation: %s" % (expr, extra))
    return u.r


def expressions(quick, seed, light=None):
    """Expressions explored in full; *light* collects the thorough-tier sweep
    (one symbolic magnetisation instead of two in the 2-D sub-configuration)."""
    exprs = []
    light = light if light is not None else []
    if quick:
        two = BASIS[:5]
        for a, b in itertools.product(two, two):
            exprs += [a + "+" + b, a + "*" + b]
        exprs += ["sphere+cylinder@hayter_msa", "cylinder@hayter_msa+sphere",
                  "sphere*cylinder+ellipsoid", "ellipsoid+sphere*cylinder",
                  "vesicle+hollow_cylinder", "hollow_cylinder*vesicle",
                  "lamellar+guinier", "guinier*core_shell_sphere",
                  "sphere+cylinder+ellipsoid", "sphere*cylinder*ellipsoid",
                  "sphere*power_law+cylinder*guinier",
                  "sphere+cylinder+power_law+core_shell_sphere",
                  "sphere*cylinder*guinier*lamellar",
                  "core_multi_shell*sphere@hardsphere+vesicle",
                  "sphere+porod", "porod*sphere", "sphere+guinier*porod",
                  # every component a P@S product (no part carries a dimension), oriented
                  "cylinder@hardsphere+ellipsoid@hardsphere", "ellipsoid@hayter_msa*cylinder@hardsphere",
                  "cylinder@hardsphere*sphere@hardsphere+ellipsoid@hardsphere"]
    else:
        exprs = expressions(True, seed)
        allm = list(core.list_models())
        rng = np.random.RandomState(seed)
        # every 2-part expression over all builtin models, both operators; the unit
        # of a+b also runs b+a (arguments of every leaf, total), so unordered pairs
        for i, a in enumerate(allm):
            for b in allm[i:]:
                light += [a + "+" + b, a + "*" + b]
        pool = allm + ["sphere@hardsphere", "cylinder@hayter_msa", "vesicle@squarewell",
                       "core_shell_sphere@stickyhardsphere"]
        small = [m for m in pool if core.load_model_info(m).parameters.npars <= 14]
        for _ in range(300):
            n = int(rng.choice([3, 4]))
            ms = [str(x) for x in rng.choice(small, n)]
            kind = int(rng.randint(3))
            if kind == 0:
                light.append("+".join(ms))
            elif kind == 1:
                light.append("*".join(ms))
            else:
                cut = int(rng.randint(1, n))
                light.append("*".join(ms[:cut]) + "+" + "*".join(ms[cut:]))
        for b in BASIS:
            if "@" in b:
                exprs += ["sphere+" + b, b + "+sphere", "cylinder*" + b, b + "*cylinder"]
    seen, out = set(), []
    for e in exprs:
        if e not in seen:
            seen.add(e)
            out.append(e)
    return out


def run(chk):
    quick = chk.quick
    chk.explanation = (
        "Bounded symbolic execution of the real mixture code (core.load_model_info expression "
        "parsing, make_mixture_info, core.build_model, MixtureModel.make_kernel, MixtureKernel.Iq, "
        "_MixtureParts, the product code for P@S components, details.make_kernel_args/make_details/"
        "convert_magnetism, Kernel.Iq/Fq) on numpy object arrays of z3 proxies; leaf kernels are "
        "recording stubs returning named symbols (no assumption that intensities are non-zero for "
        "leaves that can be driven to zero).  One unit per expression, explored 1-D with one "
        "dispersed parameter per component and, when a component is oriented or magnetic, 2-D with "
        "symbolic magnetisation.  z3 decides on every path: every leaf is handed what it is handed "
        "when its component runs alone from the prefixed parameters (values, distributions, "
        "magnetic slots, spin state, magnetic flag); total = scale*sum X_scale_k*I_k + bg resp. "
        "scale*prod I_k + bg; swapped 2-part expression gives the same total.")
    chk.bounds = {
        "expressions": "quick: 2-part over 5 basis models (both orders, both operators) + nested/3/4-part; "
                       "thorough: all 2-part over all builtin models + 300 sampled 3/4-part/nested (seed %d)" % chk.seed,
        "q points": 2, "distribution lengths": "2 or 3, one dispersed parameter per component",
        "magnetic amplitudes": "first SLD of the first two components symbolic (with its angles) in the 2-D "
                               "sub-configuration; the other SLDs have M0 = 0 and default angles; spin state symbolic",
        "solver timeout": "60 s per obligation, 20 s per fork"}
    chk.outside = [
        "leaf kernels (their accumulators are symbols)", "rounding",
        "direct_model.get_mesh / weights (the mesh is the symbolic input)",
        "vector-length control and choice parameters fixed at their defaults",
        "parenthesised expressions (the parser has none): sums of products only",
        "results()/intermediates of mixtures (not part of the statement)"]
    chk.stubs = list(C.SHIMS)
    chk.assumptions = [
        "doubles modelled as reals",
        "leaves that have neither a dispersity loop nor two SLD parameters (e.g. power_law, guinier) "
        "are assumed to return non-zero <F^2>(q): no input is known that would make them exactly 0, "
        "so such a counterexample could not be replayed; every other leaf may return exact zeros",
        "the 2-D magnetic sub-configuration assumes non-zero <F^2>(q) in every leaf (exact zeros are "
        "explored in the 1-D sub-configuration of the same expression)",
        "expressions with more than two leaves, and the 2-D magnetic sub-configuration: total weight "
        "!= 0 and shell volume != 0 in every leaf (the degenerate branches of Kernel.Fq are explored "
        "in the 1-D sub-configuration of all expressions with <= 2 leaves)",
        "only polydisperse-capable parameters carry distributions longer than 1",
        "sin^2+cos^2 = 1 for the magnetisation angles (instantiated axiom)",
        "a compiled leaf without SLD parameters ignores the magnetic flag (kernel_iq.c has no "
        "magnetic branch when the model has no magnetic SLDs)"]
    light = []
    exprs = expressions(quick, chk.seed, light)
    light = [e for e in dict.fromkeys(light) if e not in set(exprs)]
    pat = chk.only.split("/")[0] if chk.only else None
    if pat:
        exprs = [e for e in exprs if pat in e]
        light = [e for e in light if pat in e]
    vset = {"sphere+cylinder", "cylinder*sphere", "sphere+cylinder@hayter_msa",
            "sphere*cylinder+ellipsoid", "core_multi_shell+sphere", "power_law*sphere"}
    sub_pat = chk.only if (chk.only and "/" in chk.only) else None
    cfgs = [(e, sub_pat, e in vset, False) for e in exprs] + [(e, sub_pat, False, True) for e in light]
    cfgs.sort(key=lambda c: -(c[0].count("+") + c[0].count("*") + c[0].count("@")))
    chk.extra["expressions_full"] = len(exprs)
    chk.extra["expressions_sweep"] = len(light)
    chk.add(pmap(unit, cfgs))
