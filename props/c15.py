"""C15 -- precision conversion changes only floating types and literals.

Solver part: the three live regular expressions of ``generate.convert_type``
(captured from the running code, never copied) are translated by
``vlib.rx2smt`` to z3 regex terms; source text is symbolic (z3 strings).  Each
obligation is an unsat query relating "the pattern matches here" to "the
reference C99 lexer (vlib.clex) says this is a token of class X"; re.sub's
leftmost non-overlapping scan enters through (a) uniqueness of the match end
for a given start, (b) absence of an earlier candidate match straddling the
start of a token that must be rewritten, (c) the replacement templates.
Counterexamples are replayed through the real ``convert_type`` and compared
with the reference token semantics (``clex.expected_tokens``).

Enumeration part (reported separately, as translator validation / concrete
evidence): python ``re`` vs the translated patterns on every line of every
builtin C model source and on the repository's own ``test_tag_float`` cases;
token streams before/after conversion for all C models x {F32,F64,F128};
``core.parse_dtype`` on all spellings x platforms.
"""
import re
import types

import numpy as np
import z3

from vlib import rx2smt as R, clex
from vlib.harness import Unit, pmap
from vlib.rx2smt import cat, alt, both, neg, star, opt, lit, cset, ALL

from sasmodels import generate, core

DTYPES = {"F32": (generate.F32, 4), "F64": (generate.F64, 8), "F128": (generate.F128, 16),
          "F16": (generate.F16, 2)}


# --------------------------------------------------------------------------
# live patterns

def live(dtname):
    """(ordered list of (role, Rx, template)) captured from a real convert_type run."""
    log, _out = R.capture_live(generate, DTYPES[dtname][0])
    out = {}
    for nm, pat, flags, repl in log:
        role = {"TGMATH_INT_RE": "tgmath", "FLOAT_RE": "float", "re.sub": "keyword"}[nm]
        if role in out:
            raise R.Unsupported("pattern role %s used twice in convert_type" % role)
        rx = R.Rx(pat, flags, role)
        if any(R.nullable(c) for _p, c, _q in rx.alts):
            raise R.Unsupported("%s pattern can match the empty string" % role)
        out[role] = (rx, rx.template(repl), repl)
    return out


def model_sources():
    out = {}
    for name in core.list_models():
        info = core.load_model_info(name)
        if callable(info.Iq):
            continue
        out[name] = generate.make_source(info)["dll"]
    return out


def tag_float_cases():
    """The input/output tables of the repository's own test_tag_float."""
    consts = [c for c in generate.test_tag_float.__code__.co_consts
              if isinstance(c, str) and "ZPFE" in c]
    if len(consts) != 2:
        raise R.Unsupported("cannot locate the case tables of generate.test_tag_float")
    return consts[0].split("\n"), consts[1].split("\n")


# --------------------------------------------------------------------------
# enumeration units (translator validation and concrete evidence)

def _ok(u, cond, what):
    if cond:
        u.r["validated"] += 1
    else:
        u.r["validation_fail"] += 1
        u.error("validation: " + what)
    return cond


def _z3_spans(enc, rx, s):
    """Leftmost scan computed with the z3 back end on a concrete string."""
    out, p, n = [], 0, len(s)
    sv = z3.StringVal
    while p <= n:
        if z3.is_true(z3.simplify(enc.starts(rx, sv(s[:p]), sv(s[p:])))):
            ends = [j for j in range(p + 1, n + 1)
                    if z3.is_true(z3.simplify(enc.match(rx, sv(s[:p]), sv(s[p:j]), sv(s[j:]))))]
            if not ends:
                raise AssertionError("starts() true but no end at %d in %r" % (p, s))
            out.append((p, ends))
            p = max(ends)
        else:
            p += 1
    return out


def unit_validate(cfg):
    """python re  vs  derivative back end (all lines)  vs  z3 back end (sample)."""
    idx, lines, z3_every = cfg
    u = Unit("validate/lines-%02d" % idx)
    u.functions("re (CPython) on the live patterns", "vlib.rx2smt.Rx (translation)",
                "vlib.rx2smt.PyMatcher", "vlib.rx2smt.Z3Backend")
    pats = live("F32")
    enc = R.Enc()
    nmatch = amb = nz3 = 0
    for role, (rx, _tpl, _repl) in pats.items():
        comp = re.compile(rx.pattern, rx.flags)
        pm = R.PyMatcher(rx)
        for k, ln in enumerate(lines):
            real = [m.span() for m in comp.finditer(ln)]
            mine = pm.scan(ln, prefer=real)
            nmatch += len(real)
            amb += sum(1 for _a, _b, c in mine if c > 1)
            _ok(u, [(a, b) for a, b, _ in mine] == real,
                "%s on %r: re %s, translation %s" % (role, ln, real, mine))
            if z3_every and (k % z3_every == 0 or (real and k % (7 if z3_every > 10 else 2) == 0)) and len(ln) <= 200:
                zs = _z3_spans(enc, rx, ln)
                nz3 += 1
                _ok(u, [a for a, _ in zs] == [a for a, _ in real]
                    and all(b in ends for (_, b), (_, ends) in zip(real, zs)),
                    "%s (z3 back end) on %r: re %s, z3 %s" % (role, ln, real, zs))
    u.note("lines=%d re-matches=%d ambiguous-end=%d z3-checked-lines=%d"
           % (len(lines), nmatch, amb, nz3))
    u.r["paths"] = 1
    return u.r


def unit_tagfloat(_cfg):
    """The repository's own test_tag_float tables through re, the derivative
    back end and the z3 back end (every line, every position)."""
    u = Unit("validate/test_tag_float")
    u.functions("sasmodels.generate.test_tag_float (case tables)", "sasmodels.generate._tag_float")
    cases, wanted = tag_float_cases()
    rx, tpl, _ = live("F32")["float"]
    enc, pm = R.Enc(), R.PyMatcher(rx)
    comp = re.compile(rx.pattern, rx.flags)
    for ln, want in zip(cases, wanted):
        real = [m.span() for m in comp.finditer(ln)]
        _ok(u, [(a, b) for a, b, _ in pm.scan(ln, prefer=real)] == real,
            "derivative back end on %r" % ln)
        zs = _z3_spans(enc, rx, ln)
        _ok(u, [(a, ends) for a, ends in zs] == [(a, [b]) for a, b in real],
            "z3 back end on %r: %s vs %s" % (ln, zs, real))
        # substitution computed from the translated matches and template
        out, pos = [], 0
        for a, b in real:
            out.append(ln[pos:a])
            out.extend(ln[a:b] if part == 0 else part for part in tpl)
            pos = b
        out.append(ln[pos:])
        got = generate._tag_float(ln, "f")
        _ok(u, "".join(out) == got, "tagging of %r: translation %r, real %r" % (ln, "".join(out), got))
        if got == want:
            u.r["validated"] += 1
        else:    # the real code disagrees with the repository's own expected table
            u.r["cex"].append({"obligation": "test_tag_float/%r" % ln, "reproduced": True,
                               "key": "C15/test_tag_float-table", "inputs": {"source": ln, "dtype": "F32"},
                               "what": "_tag_float(%r, 'f') -> %r, test_tag_float expects %r" % (ln, got, want)})
    u.r["paths"] = 1
    return u.r


def _finding(src, dtname, diffs, where):
    kind, want, got = diffs[0]
    return {"reproduced": True, "key": "C15/" + classify(diffs), "block": None,
            "what": "convert_type(%r, %s): reference lexer expects token %r, real code gives %r (%s)"
                    % (src if len(src) < 200 else src[:80] + "...", dtname, want, got, where),
            "inputs": {"source": src if len(src) < 4000 else None, "where": where,
                       "dtype": dtname}}


def classify(diffs):
    """Stable class of the first discrepancy (expected kind, expected, got)."""
    kind, want, got = diffs[0]
    if kind == "str" or kind == "chr":
        return "text-inside-string-literal-changed"
    if kind == "hexfloat+s":
        return "hex-float-constant-not-tagged"
    if kind == "float+s":
        core_ = want[:-1]
        if got != core_:
            return "float-constant-mangled"
        if re.match(r"0\d", core_):
            return "decimal-float-with-leading-zero-not-tagged"
        return "decimal-float-constant-not-tagged"
    if kind == "id" and got in clex.KEYWORDS:
        return "type-keyword-%s-not-rewritten" % ("cdouble" if got == "cdouble" else "double")
    if kind == "id":
        return "identifier-changed"
    if kind in ("int", "float", "hexfloat", "badnum"):
        return "numeric-token-changed"
    return "token-stream-changed-%s" % kind


def unit_tokens(cfg):
    """Concrete: token stream of every builtin C model before/after conversion."""
    idx, items = cfg
    u = Unit("tokens/models-%02d" % idx)
    u.functions("sasmodels.generate.make_source", "sasmodels.generate.convert_type",
                "vlib.clex.tokenize / expected_tokens (reference)")
    for name, src in items:
        for dtname in ("F32", "F64", "F128"):
            dt, fb = DTYPES[dtname]
            out = generate.convert_type(src, dt)
            d = clex.diff_tokens(src, out, fb)
            if d:
                f = dict(_finding(src, dtname, d, "model " + name),
                         obligation="token-stream/%s/%s" % (name, dtname))
                f["inputs"] = {"model": name, "dtype": dtname}
                u.r["cex"].append(f)
            else:
                u.r["validated"] += 1
    u.sample({"models": [n for n, _ in items], "dtypes": ["F32", "F64", "F128"]})
    u.r["paths"] = 1
    return u.r


# --------------------------------------------------------------------------
# dtype request strings (finite enumeration, reported separately)

SPELLINGS = {  # documented spelling -> (numpy dtype, fast flag)
    "half": ("float16", False), "single": ("float32", False), "double": ("float64", False),
    "quad": ("longdouble", False), "fast": ("float32", True),
    "float16": ("float16", False), "float32": ("float32", False), "float64": ("float64", False),
    "longdouble": ("longdouble", False), "f2": ("float16", False), "f4": ("float32", False),
    "f8": ("float64", False), "f": ("float32", False), "d": ("float64", False),
    "g": ("longdouble", False), "float": ("float64", False),
}


class _FakeEnv:
    def __init__(self, types):
        self.types = types

    def has_type(self, dtype):
        return np.dtype(dtype).name in self.types


def unit_dtype(_cfg):
    u = Unit("dtype/parse_dtype")
    u.functions("sasmodels.core.parse_dtype")
    from sasmodels import kernelcl, kernelcuda
    saved = (kernelcl.use_opencl, kernelcl.environment, kernelcuda.use_cuda, kernelcuda.environment)
    n = 0
    try:
        for gpu in ("none", "ocl", "cuda"):
            for gpu_types in (("float32",), ("float32", "float64"), ("float16", "float32", "float64")):
                env = _FakeEnv(set(gpu_types))
                kernelcl.use_opencl = lambda gpu=gpu: gpu == "ocl"
                kernelcuda.use_cuda = lambda gpu=gpu: gpu == "cuda"
                kernelcl.environment = kernelcuda.environment = lambda env=env: env
                for opencl in (True, False):
                    for single in (True, False):
                        info = types.SimpleNamespace(opencl=opencl, single=single)
                        for platform in (None, "ocl", "cuda", "dll"):
                            for sp in list(SPELLINGS) + [None, "default"]:
                                for bang in ("", "!"):
                                    if sp is None and bang:
                                        continue
                                    n += 1
                                    req = None if sp is None else sp + bang
                                    try:
                                        got = core.parse_dtype(info, req, platform)
                                    except Exception as exc:    # a documented spelling must not be refused
                                        got = ("raised", type(exc).__name__, str(exc)[:80])
                                    want = _want_dtype(sp, bang, platform, gpu, env, opencl, single)
                                    if (got[0], got[1], got[2]) == want:
                                        u.r["validated"] += 1
                                        continue
                                    u.r["cex"].append({
                                        "obligation": "parse_dtype/%s" % req, "reproduced": True,
                                        "key": "C15/parse_dtype/%s" % sp,
                                        "inputs": {"dtype_request": req, "platform": platform,
                                                   "opencl": opencl, "single": single, "gpu": gpu,
                                                   "gpu_types": list(gpu_types)},
                                        "what": "parse_dtype(opencl=%s,single=%s, %r, %r) [gpu=%s %s] -> %s, documented %s"
                                                % (opencl, single, req, platform, gpu, gpu_types, got, want)})
    finally:
        kernelcl.use_opencl, kernelcl.environment, kernelcuda.use_cuda, kernelcuda.environment = saved
    u.note("parse_dtype configurations enumerated: %d" % n)
    u.r["paths"] = 1
    return u.r


def _want_dtype(sp, bang, platform, gpu, env, opencl, single):
    """Documented behaviour (parse_dtype docstring), written independently."""
    plat = platform or "ocl"
    if bang or not opencl:
        plat = "dll"
    if plat == "ocl" and gpu != "ocl":
        plat = "cuda" if gpu == "cuda" else "dll"
    # an explicit request for cuda is taken at its word by parse_dtype
    if sp is None or sp == "default":
        dt, fast = (generate.F32 if single and plat in ("ocl", "cuda") else generate.F64), False
    else:
        dt, fast = np.dtype(SPELLINGS[sp][0]), SPELLINGS[sp][1]
    if plat in ("ocl", "cuda") and not env.has_type(dt):
        plat = "dll"
        if sp is None:
            dt = generate.F64
    return dt, fast, plat


# --------------------------------------------------------------------------
# solver units: one symbolic marked text per obligation (rx2smt.Marked)

def zstr(model, term):
    v = model.eval(term, model_completion=True)
    txt = v.as_string()
    return re.sub(r"\\u\{([0-9a-fA-F]+)\}", lambda g: chr(int(g.group(1), 16)), txt)


def replay_source(src, dtname):
    """Real convert_type on a concrete source versus the reference semantics."""
    dt, fb = DTYPES[dtname]
    out = generate.convert_type(src, dt)
    return clex.diff_tokens(src, out, fb), out


class Ob:
    """Obligation over one Marked text: hypotheses and claim are regular
    languages of w; discharged by ONE query  w in (H & ~Phi)  being unsat."""

    def __init__(self, u, M, dtname):
        self.u, self.M, self.dtname = u, M, dtname
        self.base = [M.struct, M.whole(clex.WF), M.whole(clex.NO_COMMENT)]

    def prove(self, name, hyps, phi, judge, blocks=None, base=None, sample=False):
        """judge(segments) -> None (real code is right: witness does not
        reproduce) or dict(key=..., what=..., detail=...)."""
        M, u = self.M, self.u
        H = R.r_and(*((self.base if base is None else base) + list(hyps)))
        u.reachable(name + "/hypotheses", [z3.InRe(M.w, H)])
        bad = R.r_and(H, R.r_not(phi))

        def handler(model):
            segs = M.split(zstr(model, M.w))
            src = "".join(segs)
            v = judge(segs)
            if v is None:
                return {"reproduced": False, "key": None, "block": None,
                        "what": "%s: witness %r (segments %r) is handled correctly by the real code"
                                % (name, src, segs), "inputs": {"source": src, "segments": segs}}
            blk = (blocks or {}).get(v["key"])
            return {"reproduced": True, "key": "C15/" + v["key"], "what": v["what"],
                    "inputs": {"source": src, "segments": segs, "dtype": self.dtname},
                    "detail": v.get("detail"),
                    "block": None if blk is None else z3.InRe(M.w, blk)}
        # short witnesses first (readability only; the verdict is the unbounded query)
        # The bound is a regex, not a length term, so z3 stays in its regex solver.
        small = []
        short = z3.Loop(z3.AllChar(R._RE), 0, 14 + M.n)
        r, _m, _s = u.solve([z3.InRe(M.w, z3.Intersect(bad, short))], timeout_ms=5000)
        u.r["solver_checks"] -= 1
        if r == "sat":
            small = [z3.InRe(M.w, short)]
        return u.prove(name, z3.Not(z3.InRe(M.w, bad)), small, handler, axioms=[], sample=sample)


def judge_conversion(dtname, where):
    """Witness reproduces when the real convert_type output differs from the
    reference token semantics on the concrete source."""
    def judge(segs):
        src = "".join(segs)
        diffs, out = replay_source(src, dtname)
        if not diffs:
            return None
        kind, want, got = diffs[0]
        return {"key": classify(diffs),
                "what": "convert_type(%r, %s) -> %r: reference lexer expects token %r, real code "
                        "gives %r (%s)" % (src, dtname, out, want, got, where),
                "detail": {"converted": out, "discrepancies": diffs[:5]}}
    return judge


def _enclosing(toks, pos):
    for kind, text, start in toks:
        if start <= pos < start + len(text):
            return kind, text, start
    return None


def judge_scan_match(rx, M, ij, verdict, role, dtname):
    """Replay for 'every match of the scan is a ...': run the live pattern with
    the real re module on the concrete source; the witness reproduces when the
    marked segment is a real scan match and ``verdict(src, a, b, tokens)``
    (reference tokenizer) returns a finding class for it."""
    comp = re.compile(rx.pattern, rx.flags)

    def judge(segs):
        src = "".join(segs)
        a, b = span_of(M, segs, *ij)
        spans = [m.span() for m in comp.finditer(src)]
        if (a, b) not in spans:
            return None
        v = verdict(src, a, b, clex.tokenize(src))
        if v is None:
            return None
        out = generate.convert_type(src, DTYPES[dtname][0])
        return {"key": v, "what": "%s pattern matches %r at %s in %r, which the reference lexer does "
                                  "not confirm (%s); converted text %r" % (role, src[a:b], (a, b), src, v, out),
                "detail": {"re_spans": spans, "converted": out}}
    return judge


def scan_contexts(rx, kmax, inner=0, u=None):
    """Marked texts in which one marked region is a match of the real leftmost
    scan.  Yields (label, Marked, (i, j) markers around that match, hypotheses);
    ``inner`` extra markers lie inside that match (i+1 .. j-1).
    'unstraddled': candidate match whose start no candidate match runs across
    (then the scan reaches it; any number of earlier matches);
    'K=k': the region is exactly the k-th match of the scan,
    w = u0 <m1> u1 ... <mk> post, no match start inside any u."""
    if u is not None and kmax > 1:
        # lemma: no candidate match runs across the start of another candidate
        # match (any text).  Then every match of the scan is 'unstraddled' and
        # the first context below is exact for ANY number of matches.
        L = R.Marked(2, nonempty=(1,))
        lemma = R.r_and(L.struct, L.whole(star(clex.SIGMA)), L.match_between(rx, 0, 1),
                        L.straddles(rx, 0))
        r, _m, _s = u.solve([z3.InRe(L.w, lemma)], timeout_ms=60000)
        u.r["obligations"] += 1
        if r == "unsat":
            u.r["discharged"] += 1
            u.note("%s: candidate matches never overlap (lemma unsat): the 'unstraddled' "
                   "obligation covers every match of the scan, K unbounded" % rx.name)
            kmax = 1
        else:
            u.r["obligations"] -= 1
            u.note("%s: candidate matches can overlap (lemma %s): exact decomposition used "
                   "for K <= %d" % (rx.name, r, kmax))
    for k in range(1, kmax + 1):
        n = 2 * k + inner
        i, j = 2 * k - 2, n - 1
        M = R.Marked(n, nonempty=tuple(range(1, 2 * k - 2, 2)))
        nonempty = R.r_and(M.struct, z3.Concat(M.ALLM, M.mre[i], M.mk0, M.P, M.ALLM))
        if k == 1:
            yield "unstraddled", M, (i, j), [nonempty, M.match_between(rx, i, j),
                                              R.r_not(M.straddles(rx, i))]
            continue
        hyps = [nonempty, M.match_between(rx, i, j)]
        for t in range(k - 1):
            hyps.append(M.match_between(rx, 2 * t, 2 * t + 1))
        for t in range(k):
            hyps.append(R.r_not(M.starts_in(rx, None if t == 0 else 2 * t - 1, 2 * t)))
        yield "K=%d" % k, M, (i, j), hyps


def seg_between(M, i, j, before, lang, after):
    """the text between markers i and j is in lang, all text before marker i
    is in ``before`` and all text after marker j in ``after`` (other markers
    are ignored inside each part)."""
    pre = z3.Intersect(M.whole(before), M.lacks(i))
    mid = z3.Intersect(M.whole(lang), M.lacks(i), M.lacks(j))
    post = z3.Intersect(M.whole(after), M.lacks(j))
    return z3.Concat(pre, M.mre[i], mid, M.mre[j], post)


def seg_at(M, index, before, lang, after):
    return seg_between(M, index - 1, index, before, lang, after)


def span_of(M, segs, i, j):
    a = sum(len(x) for x in segs[:i + 1])
    return a, a + sum(len(x) for x in segs[i + 1:j + 1])


def same_as_primary(u, role, dtname, primary, rx):
    """The patterns do not depend on the dtype; the regular obligations are
    proved once (primary dtype) when the live pattern is literally the same."""
    if dtname == primary:
        return False
    prx = live(primary)[role][0]
    if (prx.pattern, prx.flags) == (rx.pattern, rx.flags):
        u.note("%s/%s: live pattern identical to %s; regular obligations proved there, "
               "template obligation proved here" % (role, dtname, primary))
        u.r["validated"] += 1
        return True
    return False


def verdict_float(src, a, b, toks):
    t = _enclosing(toks, a)
    if t and t[0] == "float" and (t[2], t[2] + len(t[1])) == (a, b):
        return None
    if t and t[0] in ("float", "badnum", "float+s") and re.match(r"0\d", t[1]):
        return "decimal-float-with-leading-zero-not-tagged"
    return "float-match-is-not-a-constant-token(%s)" % (t[0] if t else "none")


LEAD0 = cat(cset("0"), clex.DIGIT, ALL)


def unit_float(cfg):
    _role, dtname, timeout, kmax = cfg
    u = Unit("solver/float/%s" % dtname, timeout_ms=timeout)
    u.functions("sasmodels.generate.FLOAT_RE (live pattern)", "sasmodels.generate._tag_float (template)")
    rx, tpl, repl = live(dtname)["float"]
    flag = clex.TYPE_NAME[DTYPES[dtname][1]][1]
    u.sample({"pattern": rx.pattern[:300], "template": repl, "alternatives": len(rx.alts)})
    if same_as_primary(u, "float", dtname, "F32", rx):
        kmax = 0
    # (1a) every match of the scan is a complete unsuffixed decimal floating constant
    for label, M, (i, j), hyps in scan_contexts(rx, kmax, u=u):
        ob = Ob(u, M, dtname)
        phi = seg_between(M, i, j, clex.PRE_CONST, clex.DECFLOAT, clex.POST_CONST)
        # finding class: the match is the tail of a constant written with leading zeros
        blk = {"decimal-float-with-leading-zero-not-tagged":
               seg_between(M, i, j, cat(ALL, cset("0"), star(clex.DIGIT), opt(clex.DOT),
                                        star(clex.DIGIT)), ALL, ALL)}
        ob.prove("float/scan-match-is-complete-decimal-constant/" + label, hyps, phi,
                 judge_scan_match(rx, M, (i, j), verdict_float, "float", dtname), blk,
                 sample=(label == "unstraddled"))
    if kmax == 0:
        unit_tail(u, rx, tpl, "float", dtname, lambda m, xs: z3.Concat(m, z3.StringVal(flag)))
        u.r["paths"] = 1
        return u.r
    # (1b) every unsuffixed floating constant token is matched by the scan
    M = R.Marked(2, nonempty=(1,))
    ob = Ob(u, M, dtname)
    tok = seg_at(M, 1, clex.PRE_CONST, alt(clex.DECFLOAT, clex.HEXFLOAT), clex.POST_CONST)
    covered = R.r_and(M.match_between(rx, 0, 1), R.r_not(M.straddles(rx, 0)))
    blocks = {"hex-float-constant-not-tagged": M.seg([ALL, clex.HEXFLOAT, ALL]),
              "decimal-float-with-leading-zero-not-tagged": M.seg([ALL, LEAD0, ALL])}
    ob.prove("float/every-floating-constant-is-matched", [tok], covered,
             judge_conversion(dtname, "float/complete"), blocks)
    # no candidate match shares a character with any other kind of token
    for what, lang, before, after in (
            ("integer-or-suffixed-constant",
             alt(clex.INTCONST, cat(alt(clex.DECFLOAT, clex.HEXFLOAT), clex.FSUF)),
             clex.PRE_CONST, clex.POST_CONST),
            ("identifier", clex.IDENT, clex.PRE_IDENT, clex.POST_IDENT)):
        ob.prove("float/no-match-touches-" + what, [seg_at(M, 1, before, lang, after)],
                 R.r_not(M.touches(rx, 0, 1)), judge_conversion(dtname, "float/other-token"), blocks)
    unit_tail(u, rx, tpl, "float", dtname, lambda m, xs: z3.Concat(m, z3.StringVal(flag)))
    u.r["paths"] = 1
    return u.r


def unit_tail(u, rx, tpl, role, dtname, want_out):
    """Obligations that are not regular: uniqueness of the match end for a
    given start (so backtracking priority is irrelevant) and the replacement
    template (equalities between z3 string terms)."""
    enc = R.Enc()
    pre, m, x, post = z3.Strings("pre m x post")
    sig = enc.z(star(clex.SIGMA))
    hyp = [z3.InRe(z3.Concat(pre, m, x, post), sig), z3.Length(m) > 0, z3.Length(x) > 0,
           enc.match(rx, pre, m, z3.Concat(x, post)), enc.match(rx, pre, z3.Concat(m, x), post)]
    # exception: '$' before a final newline versus consuming that newline; both
    # choices rewrite the same characters (checked by the template obligation)
    final_nl = z3.And(x == z3.StringVal("\n"), z3.Length(post) == 0)
    # Not a property of the code under test but of the encoding: when it fails the other
    # obligations still quantify over EVERY admissible end (a superset of Python's choice).
    r, mdl, _s = u.solve(hyp + [z3.Not(final_nl)])
    if r == "unsat":
        u.r["obligations"] += 1
        u.r["discharged"] += 1
    elif r == "sat":
        u.note("%s/%s: match end not unique for a given start, e.g. %r | %r + %r | %r; obligations hold "
               "for every admissible end (over-approximation of Python's priority)"
               % (role, dtname, zstr(mdl, pre), zstr(mdl, m), zstr(mdl, x), zstr(mdl, post)))
    else:
        u.note("%s/%s: uniqueness of the match end undecided" % (role, dtname))
    xs = [z3.String("x_%d" % i) for i in range(len(rx.items))]
    cons = [m == (z3.Concat(*xs) if len(xs) > 1 else xs[0]), enc.match(rx, pre, m, post),
            z3.InRe(z3.Concat(pre, m, post), sig)]
    groups = {0: m}
    for xv, (g, lang) in zip(xs, rx.items):
        cons.append(enc.isin(xv, lang))
        if g is not None:
            groups[g] = xv
    parts = []
    for p in tpl:
        if isinstance(p, int) and p not in groups:
            raise R.Unsupported("template refers to nested group %d" % p)
        parts.append(groups[p] if isinstance(p, int) else z3.StringVal(p))
    out = z3.Concat(*parts) if len(parts) > 1 else (parts[0] if parts else z3.StringVal(""))

    def handler(model):
        src = zstr(model, pre) + zstr(model, m) + zstr(model, post)
        v = judge_conversion(dtname, role + "/template")([src])
        if v is None:
            return {"reproduced": False, "key": None, "block": None, "inputs": {"source": src},
                    "what": "%s/template witness %r converted correctly" % (role, src)}
        return {"reproduced": True, "key": "C15/" + v["key"], "what": v["what"], "block": None,
                "inputs": {"source": src, "dtype": dtname}, "detail": v["detail"]}
    u.prove("%s/replacement-template" % role, out == want_out(m, xs), cons, handler, axioms=[])


# --------------------------------------------------------------------------
# keyword rewrite

def split_items(rx):
    """(number of items before, literal text, first item index after) of the
    single run of top-level literal items of the keyword pattern."""
    import re._constants as sc
    ops = [op for op, _av in rx.tree]
    lits = [i for i, op in enumerate(ops) if op is sc.LITERAL]
    if not lits or lits != list(range(lits[0], lits[-1] + 1)):
        raise R.Unsupported("keyword pattern has no single run of top-level literals")
    text = "".join(chr(av) for op, av in rx.tree if op is sc.LITERAL)
    return lits[0], text, lits[-1] + 1


VEC = alt(lit("2"), lit("4"), lit("8"), lit("16"))
KWTOK = cat(opt(lit("c")), lit("double"), opt(VEC))     # double, doubleN, cdouble(N)


def verdict_keyword(litspan):
    def verdict(src, a, b, toks):
        # the literal region of the match must be the 'double' of a keyword token
        for (la, lb) in litspan(src, a, b):
            t = _enclosing(toks, la)
            if t and t[0] == "id" and accepts_kw(t[1]) and t[2] + (1 if t[1][0] == "c" else 0) == la:
                return None
            return "keyword-match-inside-%s-token" % (t[0] if t else "no")
        return "keyword-match-without-literal"
    return verdict


def accepts_kw(text):
    return R.accepts(KWTOK, text)


def unit_keyword(cfg):
    _role, dtname, timeout, kmax = cfg
    u = Unit("solver/keyword/%s" % dtname, timeout_ms=timeout)
    u.functions("sasmodels.generate._convert_type (pattern and template passed to re.sub, traced)")
    rx, tpl, repl = live(dtname)["keyword"]
    type_name = clex.TYPE_NAME[DTYPES[dtname][1]][0]
    nb, word, na = split_items(rx)
    A = R.prefix_lang(rx, nb)
    u.sample({"pattern": rx.pattern, "template": repl, "literal": word,
              "prefix lengths": sorted(R.lengths(A) or [])})
    if word != "double":
        u.error("keyword pattern rewrites the literal %r, not 'double'" % word)
    comp = re.compile(rx.pattern, rx.flags)
    skip = same_as_primary(u, "keyword", dtname, "F32", rx)
    if skip:
        kmax = 0

    def litspan(src, a, b):
        # position of the literal inside the real match: the text of the items before it
        off = src.find(word, a, b)
        while off >= 0:
            if R.accepts(A, src[a:off]):
                yield off, off + len(word)
                return
            off = src.find(word, off + 1, b)

    # (2a) every match of the scan rewrites the 'double' of a keyword token:
    # w = ... <i  a  <i+1 double i+2>  b  j> ...
    for label, M, (i, j), hyps in scan_contexts(rx, kmax, inner=2, u=u):
        ob = Ob(u, M, dtname)
        shape = seg_between(M, i + 1, i + 2, ALL, lit(word), ALL)
        a_part = z3.Concat(M.ALLM, M.mre[i], z3.Intersect(M.whole(A), M.PS), M.mre[i + 1], M.ALLM)
        phi = seg_between(M, i + 1, i + 2, cat(clex.PRE_IDENT, opt(lit("c"))), lit(word),
                          cat(opt(VEC), clex.POST_IDENT))
        ob.prove("keyword/scan-match-rewrites-a-keyword-token/" + label,
                 hyps + [shape, a_part], phi,
                 judge_scan_match(rx, M, (i, j), verdict_keyword(litspan), "keyword", dtname),
                 sample=(label == "unstraddled"))
    if not skip:
        keyword_complete(u, rx, nb, A, word, dtname)
    # (other identifiers and constants are not rewritten: consequence of (2a) --
    # every match of the scan rewrites the 'double' of a keyword token -- and of
    # the template obligation below, which re-emits everything else of the match)
    def want(m, xs):
        return z3.Concat(*(xs[:nb] + [z3.StringVal(type_name)] + xs[na:])) \
            if nb or na < len(xs) else z3.StringVal(type_name)
    unit_tail(u, rx, tpl, "keyword", dtname, want)
    u.r["paths"] = 1
    return u.r


def keyword_complete(u, rx, nb, A, word, dtname):
    """(2b) every keyword token is rewritten: for the 'double' of a token
    double / doubleN / cdouble(N) there is a candidate match whose literal is
    exactly that 'double' and whose start no candidate match runs across.
    Markers S_D .. S_1 sit 1..D characters before the literal (D = longest
    text the pattern can consume before it), S_0 at its start, E at its end."""
    ds = R.lengths(A)
    if ds is None:
        raise R.Unsupported("unbounded text before the keyword literal")
    D = max(max(ds), 1)
    n = D + 2
    M = R.Marked(n)
    S = lambda d: D - d          # marker index of S_d
    E = D + 1
    P, PS = M.P, M.PS
    prefixes = []
    for nx in range(D):          # exactly nx characters before the literal
        parts = [M.mre[S(d)] for d in range(D, nx - 1, -1)]
        for d in range(nx - 1, -1, -1):
            parts += [P, M.mre[S(d)]]
        prefixes.append(z3.Concat(*parts) if len(parts) > 1 else parts[0])
    parts = [PS, M.mre[S(D)]]
    for d in range(D - 1, -1, -1):
        parts += [P, M.mre[S(d)]]
    prefixes.append(z3.Concat(*parts))
    M.struct = z3.Concat(R.r_or(*prefixes), PS, M.mre[E], PS)
    ob = Ob(u, M, dtname)
    tail = cat(opt(VEC), clex.POST_IDENT)
    tok_plain = seg_between(M, S(0), E, clex.PRE_IDENT, lit(word), tail)
    tok_c = R.r_and(seg_between(M, S(1), S(0), clex.PRE_IDENT, lit("c"), ALL),
                    seg_between(M, S(0), E, ALL, lit(word), tail))
    covered = []
    for d in sorted(ds):
        # the literal (marker S_0) begins exactly d characters after the match start S_d
        shape = M.ALLM if d == 0 else z3.Concat(
            z3.Intersect(M.whole(R.loop(R.ANY, d, d)), M.lacks(S(0))), M.mre[S(0)], M.ALLM)
        for p, c, q in R.restrict_prefix(rx, nb, R.loop(R.ANY, d, d)):
            here = z3.Concat(z3.Intersect(M.whole(p), M.lacks(S(d))), M.mre[S(d)],
                             z3.Intersect(M.whole(c), shape), M.whole(q))
            covered.append(R.r_and(here, R.r_not(M.straddles(rx, S(d)))))
    ob.prove("keyword/every-keyword-token-is-rewritten", [R.r_or(tok_plain, tok_c)],
             R.r_or(*covered), judge_conversion(dtname, "keyword/complete"))


# --------------------------------------------------------------------------
# integer promotion for type-generic math calls

WS = star(clex.SPACE)
TG_SHAPE = cat(clex.MATHFN, WS, lit("("), WS, opt(clex.SIGN), clex.DECINT)
TG_AFTER = cat(WS, cset(",)"), ALL)


def verdict_tgmath(src, a, b, toks):
    """src[a:b] must be  FN ( [sign] INT  with FN a listed function (whole
    identifier token), INT a whole decimal integer token followed by , or )"""
    inside = [t for t in toks if a <= t[2] < b]
    texts = [t[1] for t in inside]
    nxt = [t for t in toks if t[2] >= b]
    ok = (len(inside) in (3, 4) and inside[0][0] == "id" and inside[0][1] in clex.MATH_FUNCS
          and inside[0][2] == a and texts[1] == "("
          and (len(inside) == 3 or texts[2] in "+-")
          and inside[-1][0] == "int" and R.accepts(clex.DECINT, inside[-1][1])
          and inside[-1][2] + len(inside[-1][1]) == b
          and nxt and nxt[0][1] in (",", ")"))
    return None if ok else "tgmath-match-is-not-an-integer-first-argument"


def unit_tgmath(cfg):
    _role, dtname, timeout, kmax = cfg
    u = Unit("solver/tgmath/%s" % dtname, timeout_ms=timeout)
    u.functions("sasmodels.generate.TGMATH_INT_RE (live pattern)", "sasmodels.generate._fix_tgmath_int (template)")
    pats = live(dtname)
    rx, tpl, repl = pats["tgmath"]
    u.sample({"pattern": rx.pattern[:300], "template": repl, "alternatives": len(rx.alts),
              "passes run for this dtype": sorted(pats)})
    _ok(u, (sorted(pats) == ["tgmath"]) == (dtname == "F64"),
        "passes run for %s: %s" % (dtname, sorted(pats)))
    if same_as_primary(u, "tgmath", dtname, "F64", rx):
        kmax = 0
    # (3) every match of the scan is  FN ( [sign] INT  before , or )
    for label, M, (i, j), hyps in scan_contexts(rx, kmax, u=u):
        ob = Ob(u, M, dtname)
        phi = seg_between(M, i, j, clex.PRE_IDENT, TG_SHAPE, TG_AFTER)
        ob.prove("tgmath/scan-match-is-integer-first-argument-of-math-function/" + label,
                 hyps, phi, judge_scan_match(rx, M, (i, j), verdict_tgmath, "tgmath", dtname),
                 sample=(label == "unstraddled"))
    unit_tail(u, rx, tpl, "tgmath", dtname, lambda m, xs: z3.Concat(m, z3.StringVal(".")))
    u.r["paths"] = 1
    return u.r


# --------------------------------------------------------------------------
# string literals: the patterns must not rewrite text inside them

STRLIT = cat(lit('"'), star(clex.STRCH), lit('"'))
WFQ = cat(clex.PRE_CONST, STRLIT, opt(cat(clex.GS, clex.WF)))      # one literal in a well-formed context
IN_STR_BEFORE = cat(clex.PRE_CONST, lit('"'), star(clex.STRCH))
IN_STR_AFTER = cat(star(clex.STRCH), lit('"'), ALL)


def unit_strings(cfg):
    _role, dtname, timeout, _kmax = cfg
    u = Unit("solver/strings/%s" % dtname, timeout_ms=timeout)
    u.functions("generate.FLOAT_RE / keyword pattern / TGMATH_INT_RE inside a string literal")
    pats = live(dtname)
    key = "text-inside-string-literal-changed"
    for role, (rx, _tpl, _repl) in sorted(pats.items()):
        if same_as_primary(u, role, dtname, "F32", rx):
            continue
        if role == "keyword":
            nb, word, _na = split_items(rx)
            M = R.Marked(4)
            first, last, (li, lj) = 0, 3, (1, 2)
            extra = [seg_between(M, 1, 2, ALL, lit(word), ALL),
                     z3.Concat(M.ALLM, M.mre[0], z3.Intersect(M.whole(R.prefix_lang(rx, nb)), M.PS),
                               M.mre[1], M.ALLM)]
            where = seg_between(M, li, lj, IN_STR_BEFORE, ALL, IN_STR_AFTER)
        else:
            M = R.Marked(2, nonempty=(1,))
            first, last, extra = 0, 1, []
            if role == "float":       # the tagged text lies inside the literal
                where = seg_between(M, 0, 1, IN_STR_BEFORE, ALL, IN_STR_AFTER)
            else:                     # the '.' is appended inside the literal
                where = z3.Concat(z3.Intersect(M.whole(IN_STR_BEFORE), M.lacks(1)), M.mre[1],
                                  M.whole(IN_STR_AFTER))
        ob = Ob(u, M, dtname)
        base = [M.struct, M.whole(WFQ), M.whole(clex.NO_COMMENT)]
        hyps = [M.match_between(rx, first, last), R.r_not(M.starts_in(rx, None, first)), where] + extra
        ob.prove("strings/%s-pattern-never-rewrites-inside-a-string-literal" % role, hyps,
                 z3.Empty(R._RE), judge_conversion(dtname, "strings/" + role),
                 {key: M.ALLM}, base=base)
    u.r["paths"] = 1
    return u.r


# --------------------------------------------------------------------------
# driver

UNITS = {"float": unit_float, "keyword": unit_keyword, "tgmath": unit_tgmath,
         "strings": unit_strings, "validate": unit_validate, "tokens": unit_tokens,
         "tagfloat": unit_tagfloat, "dtype": unit_dtype}


def unit(cfg):
    return UNITS[cfg[0]](cfg[1:] if cfg[0] in ("validate", "tokens", "tagfloat", "dtype") else cfg)


def unit_name(cfg):
    if cfg[0] in ("float", "keyword", "tgmath", "strings"):
        return "solver/%s/%s" % (cfg[0], cfg[1])
    return {"validate": "validate/lines-%02d", "tokens": "tokens/models-%02d"}.get(
        cfg[0], "%s")% (cfg[1] if cfg[0] in ("validate", "tokens") else
                         {"tagfloat": "validate/test_tag_float", "dtype": "dtype/parse_dtype"}[cfg[0]])


def configs(chk):
    kmax = 2 if chk.quick else 3
    timeout = 150000 if chk.quick else 900000
    out = []
    dts = ["F32", "F128"] if chk.quick else ["F32", "F128", "F16"]
    for dt in dts:
        for role in ("keyword", "float", "strings"):
            out.append((role, dt, timeout, kmax))
    for dt in ["F64"] + dts:
        out.append(("tgmath", dt, timeout, kmax))
    srcs = model_sources()
    names = sorted(srcs)
    lines = sorted({ln for s in srcs.values() for ln in s.splitlines(True)})
    nchunk = 16
    z3_every = 100 if chk.quick else 1
    for i in range(nchunk):
        out.append(("validate", i, lines[i::nchunk], z3_every))
    for i in range(nchunk):
        part = [(n, srcs[n]) for n in names[i::nchunk]]
        if part:
            out.append(("tokens", i, part))
    out.append(("tagfloat", None))
    out.append(("dtype", None))
    return out, len(names), len(lines)


def run(chk):
    chk.explanation = (
        "The three live regular expressions of generate.convert_type (FLOAT_RE, TGMATH_INT_RE and the "
        "'double' pattern, captured together with their replacement templates by tracing one real "
        "convert_type call) are translated node by node (re._parser parse tree) into z3 regex terms; "
        "look-behind/look-ahead/^/$/\\b become languages of the text before/after a match.  The source "
        "text is ONE symbolic z3 string with marker characters at segment boundaries; 'is a token of "
        "class X' comes from a reference C99 lexer written as regexes (vlib.clex).  Each obligation is one "
        "unsat query  w in (hypotheses & not claim): (1) every match of the leftmost scan by FLOAT_RE is a "
        "complete unsuffixed decimal floating constant and every unsuffixed floating constant token is "
        "matched; no candidate match touches an identifier, integer or suffixed constant; (2) every scan "
        "match of the keyword pattern rewrites the 'double' of a token double/doubleN/cdouble(N) and every "
        "such token is rewritten whatever its neighbours; (3) every scan match of TGMATH_INT_RE is "
        "FN([sign]INT before ',' or ')' with FN a listed math function; (4) the replacement templates "
        "re-emit everything but the rewritten text (string equalities), the match end is unique for a "
        "given start, and no pattern rewrites inside a string literal.  re.sub's scan is encoded as: a "
        "candidate match whose start no candidate match runs across is a scan match (any number of "
        "earlier matches), plus the exact decomposition u0 m1 u1 .. mK for K <= bound.  Counterexamples "
        "are replayed through the real convert_type / the real re module and the reference tokenizer.  "
        "Separately (enumeration, not the solver claim): python re vs both back ends of the translation "
        "on every distinct line of all builtin C model sources and on test_tag_float's tables; token "
        "streams before/after conversion of all C models x {F32,F64,F128}; parse_dtype on all spellings.")
    cfgs, nmodels, nlines = configs(chk)
    chk.bounds = {
        "segment lengths": "unbounded (regular-language formulation, no length cap)",
        "exact scan decomposition": "K <= %d matches before/including the one examined; beyond that only "
                                    "matches whose start no candidate match runs across" % (2 if chk.quick else 3),
        "alphabet": "printable ASCII, tab, newline; quotes/backslash only in the string-literal obligations",
        "dtypes": "F32, F128 (+F16 thorough) for keyword/float/strings; F64 additionally for tgmath",
        "solver timeout per query": "%d s" % (150 if chk.quick else 900),
        "enumeration": "%d C models x 3 dtypes token streams; %d distinct source lines x 3 patterns" % (nmodels, nlines)}
    chk.outside = [
        "comments: not tokens; rewriting inside a comment does not change the token stream (concrete part covers real sources with comments)",
        "string/char literals with escapes, line continuations, trigraphs, non-ASCII text",
        "ill-formed input (identifier adjacent to a constant, invalid pp-numbers such as 1.0.8 or 0x1e+1 outside comments)",
        "completeness of the integer promotion (only 'promotes nothing else' is claimed); hex/octal/suffixed integer arguments stay integers",
        "scan matches beyond the K-th that are run across by a candidate which is itself not a scan match",
        "that the converted kernels build and agree numerically with double precision (numerical clause, not a solver claim)",
        "cdoubleN is treated as a floating type keyword like cdouble (the pattern rewrites it; the property lists only cdouble)"]
    chk.stubs = ["re.sub and the module globals FLOAT_RE/TGMATH_INT_RE are wrapped for ONE traced convert_type "
                 "call to capture the live patterns and templates (restored afterwards)",
                 "kernelcl/kernelcuda use_opencl/use_cuda/environment replaced by finite fakes in the parse_dtype enumeration only"]
    chk.assumptions = [
        "CPython re.sub semantics: leftmost non-overlapping scan, text outside matches copied, template expansion",
        "well-formed input = vlib.clex.WF: identifiers/constants separated by at least one non-word character, "
        "constants valid C99 and not adjacent to '.', no string literals or comment openers (main obligations)",
        "an integer literal that is the first argument of a listed math function legitimately becomes 'N.' (documented deviation from 'integers unchanged')",
        "the three passes compose: each is proved for arbitrary well-formed input and maps well-formed text to well-formed text"]
    chk.trusted = ["z3 %s (sequence/regex theory)" % z3.get_version_string(),
                   "vlib.rx2smt translation (validated against re on all model sources)",
                   "vlib.clex reference lexer (C99 6.4)", "CPython re.sub scan semantics"]
    if getattr(chk, "only", None):
        cfgs = [c for c in cfgs if chk.only in unit_name(c)]
    chk.add(pmap(unit, cfgs))


def replay(cex):
    if "dtype_request" in cex["inputs"]:
        i = cex["inputs"]
        r = unit_dtype(None)
        hits = [c for c in r["cex"] if c["inputs"] == i]
        print(hits[0]["what"] if hits else "parse_dtype agrees with the documentation for %r" % i)
        return 1 if hits else 0
    if "model" in cex["inputs"]:
        src = generate.make_source(core.load_model_info(cex["inputs"]["model"]))["dll"]
    else:
        src = cex["inputs"]["source"]
    dtname = cex["inputs"].get("dtype", "F32")
    diffs, out = replay_source(src, dtname)
    print("convert_type(%r, %s) -> %r" % (src[:300], dtname, out[:300]))
    print("token discrepancies vs reference lexer:", diffs)
    hit = bool(diffs)
    for role, (rx, _t, _r) in live(dtname).items():
        verdict = {"float": verdict_float, "tgmath": verdict_tgmath}.get(role)
        if verdict is None:
            continue
        toks = clex.tokenize(src)
        for m in re.finditer(rx.pattern, src, rx.flags):
            v = verdict(src, m.start(), m.end(), toks)
            if v:
                print("%s pattern matches %r at %s: %s" % (role, m.group(0), m.span(), v))
                hit = True
    return 1 if hit else 0
