"""C19 -- the SESANS transform is the Hankel transform G(xi)-G(0) of I(q).

The real chain

    data.empty_sesans -> DataMixin._interpret_data -> _make_sesans_transform
      -> SesansTransform.__init__/_set_hankel -> DataMixin._calc_theory -> apply

runs on z3 proxies.  Spin-echo lengths, wavelength(s), acceptance angle, the
kernel output I(q_calc) (one symbol per grid point), the caller's background
and the linear-combination coefficients are symbolic; the number of spin-echo
points, monochromatic/time-of-flight and the (enlarged) log spacing of the q
grid are enumerated.  The grid length is whatever the real ``arange`` gives
(forked over, bounded).  The reference value is written from the property
text / documentation in `_reference` and `numeric_reference` below.
"""
import contextlib
import copy
import fractions
import math

import numpy as np
import z3

from vlib import symx, npshim
from vlib.harness import Unit, pmap, _known_keys
from vlib.symx import Sym, SymBool, term

from scipy.special import j0 as _real_j0

from sasmodels import sesans as SES
from sasmodels import direct_model as DM
from sasmodels import data as SD

TWO_PI = 2 * math.pi          # the double 2*pi (exact doubling of the double pi)
PI_HI = fractions.Fraction(math.pi) * (1 + fractions.Fraction(1, 10**15))   # > true pi
PI_LO = fractions.Fraction(math.pi) * (1 - fractions.Fraction(1, 10**15))   # < true pi
_REAL_CALL_KERNEL = DM.call_kernel
_REAL_DEFAULTS = SES.SesansTransform.__init__.__defaults__


def _q(fr):
    return z3.RealVal(str(fractions.Fraction(fr)))


# --------------------------------------------------------------------------
# carriers: ndarray subclass with symbolic comparisons / symbolic boolean-mask
# assignment, and a "maybe NaN" proxy for arcsin outside [-1, 1]

class SymArray(np.ndarray):
    """Object array of proxies.  Comparisons give object arrays of SymBool
    (numpy's default object loop would call bool() on every element, i.e. fork
    2^n ways); ``a[mask] = scalar`` with a symbolic mask is an elementwise
    if-then-else."""

    def _cmp(self, other, ufunc):
        return ufunc(np.asarray(self), np.asarray(other) if isinstance(other, np.ndarray) else other,
                     dtype=object).view(SymArray)

    def __le__(self, o): return self._cmp(o, np.less_equal)
    def __lt__(self, o): return self._cmp(o, np.less)
    def __ge__(self, o): return self._cmp(o, np.greater_equal)
    def __gt__(self, o): return self._cmp(o, np.greater)

    def __setitem__(self, key, value):
        if isinstance(key, np.ndarray) and key.dtype == object and key.size and \
                all(isinstance(b, (SymBool, bool, np.bool_)) for b in key.ravel()):
            base = np.asarray(self)
            if key.ndim > base.ndim or key.shape != base.shape[:key.ndim]:
                raise IndexError("boolean index did not match indexed array: %r vs %r"
                                 % (key.shape, base.shape))
            if isinstance(value, np.ndarray):
                raise NotImplementedError("symbolic mask assignment of an array")
            for idx in np.ndindex(key.shape):
                b = key[idx]
                sub = base[idx]
                if isinstance(sub, np.ndarray):
                    for jdx in np.ndindex(sub.shape):
                        sub[jdx] = _ite(b, value, sub[jdx])
                else:
                    base[idx] = _ite(b, value, sub)
            return
        np.ndarray.__setitem__(self, key, value)


def _ite(b, x, y):
    if isinstance(b, (bool, np.bool_)):
        return x if b else y
    return Sym(z3.If(b.t, term(x), term(y)))


class SymNaN(Sym):
    """Value that is NaN unless *valid*: every ordered comparison is False
    when it is NaN (IEEE), which is what the real code's ``~(theta <= z)``
    relies on."""
    __slots__ = ("valid",)

    def __init__(self, t, valid):
        Sym.__init__(self, t)
        self.valid = valid

    def _cmp(self, o, op):
        r = Sym._cmp(self, o, op)
        if isinstance(r, SymBool):
            if op == "ne":
                return SymBool(z3.Or(z3.Not(self.valid), r.t))
            return SymBool(z3.And(self.valid, r.t))
        return r


def _sa(items_or_array):
    a = items_or_array if isinstance(items_or_array, np.ndarray) else symx.oarray(items_or_array)
    return a.view(SymArray)


# --------------------------------------------------------------------------
# stubs installed into sasmodels.sesans / sasmodels.direct_model

_CFG = {"spacing": 2.0, "nmax": 8}
_STATE = {"I": None, "calls": []}


def _sym_j0(x, out=None):
    a = np.asarray(x, dtype=object)
    res = out if out is not None else np.empty(a.shape, dtype=object).view(SymArray)
    for idx in np.ndindex(a.shape):
        res[idx] = symx.uf("j0", a[idx])
    return res


def _sym_arcsin(x, out=None, **kw):
    if not npshim._has_sym(x):
        return np.arcsin(x, out=out, **kw) if out is not None else np.arcsin(x, **kw)
    if isinstance(x, Sym):
        return SymNaN(symx.uf("asin", x).t, z3.And(x.t >= -1, x.t <= 1))
    a = np.asarray(x, dtype=object)
    res = out if out is not None else np.empty(a.shape, dtype=object).view(SymArray)
    for idx in np.ndindex(a.shape):
        v = a[idx]
        t = term(v)
        res[idx] = SymNaN(symx.uf("asin", v).t, z3.And(t >= -1, t <= 1))
    return res


def _sym_exp(x, *a, **kw):
    if not npshim._has_sym(x):
        return np.exp(x, *a, **kw)
    if isinstance(x, Sym):
        return x.exp()
    arr = np.asarray(x, dtype=object)
    return _sa([v.exp() if isinstance(v, Sym) else Sym(symx.rat(math.exp(v))) for v in arr.ravel()]
               ).reshape(arr.shape)


def _sym_outer(a, b, *args, **kw):
    r = np.outer(a, b, *args, **kw)
    return r.view(SymArray) if r.dtype == object else r


def _sym_arange(start, stop=None, step=1, *a, **kw):
    """``np.arange(log(qmin), log(qmax), log(spacing))`` on proxies.

    Length n = ceil((stop-start)/step) as in numpy, concretised by forking
    (bounded by nmax); values start + k*step.  When start/stop are log-atoms
    the following *instantiated* facts about the real exp/log are assumed on
    the path (r = the rational spacing, s = the double log(r); idealisation
    exp(k*s) = r**k, true to 1e-15 relative):
        stop-start <= k*s  <=>  qmax <= qmin*r**k          (k = 0..nmax)
        exp(start + k*s) = qmin * r**k                     (k = 0..n-1)
    """
    if not (isinstance(start, Sym) or isinstance(stop, Sym)):
        return np.arange(start, stop, step, *a, **kw)
    ex = symx.current()
    nmax = _CFG["nmax"]
    s = float(step)
    r = fractions.Fraction(_CFG["spacing"])
    if not (s > 0 and abs(math.exp(s) / float(r) - 1) < 1e-12):
        raise RuntimeError("arange step %r is not log(spacing=%r)" % (s, float(r)))
    A, B = term(start), term(stop)
    srat = symx.rat(s)
    calls = ex._path.notes.setdefault("arange_calls", [0])
    n = z3.Int("nq" if calls[0] == 0 else "nq_%d" % calls[0])   # one length per transform built
    calls[0] += 1
    heavy = []

    def assume(c):
        heavy.append(c)
        ex.assume(c)
    assume(z3.And(z3.ToReal(n - 1) * srat < B - A, B - A <= z3.ToReal(n) * srat))
    logs = []
    for t in (A, B):
        if z3.is_app(t) and t.decl().name() == "log" and t.num_args() == 1:
            logs.append(t.arg(0))
    if len(logs) == 2:
        qa, qb = logs
        assume(z3.And(qa > 0, qb > 0))
        ex._path.notes.setdefault("grid", []).append((qa, qb, r))
        assume(z3.And(*[(B - A <= k * srat) == (qb <= qa * _q(r ** k)) for k in range(0, nmax + 1)]))
    assume(n <= nmax)           # bound
    nval = ex.concretize_int(n)
    if nval <= 0:
        return np.empty(0, dtype=object).view(SymArray)
    items = [start + k * s for k in range(nval)]
    if len(logs) == 2:
        assume(z3.And(*[symx.uf("exp", it).t == qa * _q(r ** k) for k, it in enumerate(items)]))
    ex._path.notes.setdefault("grid_facts", []).extend(heavy)
    return _sa(items)


class _SesansNp(npshim.NpShim):
    arcsin = staticmethod(_sym_arcsin)
    exp = staticmethod(_sym_exp)
    outer = staticmethod(_sym_outer)
    arange = staticmethod(_sym_arange)


class _FakeKernel(object):
    def __init__(self, q_vectors):
        self.q_input = q_vectors
        self.results = None


class _FakeModel(object):
    """Stands for the compiled model: the scattering kernel is not part of
    C19; I(q_calc) is a vector of free symbols returned by `call_kernel`."""
    _info = None

    def __init__(self):
        if _FakeModel._info is None:
            from sasmodels.core import load_model_info
            _FakeModel._info = load_model_info("sphere")
        self.info = _FakeModel._info
        self.kernels = []

    def make_kernel(self, q_vectors):
        k = _FakeKernel(q_vectors)
        self.kernels.append(k)
        return k


def _fake_call_kernel(kernel, pars, cutoff=0., mono=False):
    _STATE["calls"].append((kernel, dict(pars)))
    return _STATE["I"]


class _Calc(DM.DataMixin):
    pass


def _const_hash(self):
    return 0


def _snapshot(owners):
    snap = []
    for owner in owners:
        for k, v in list(vars(owner).items()):
            if isinstance(v, (dict, list, set)) and not k.startswith("__"):
                try:
                    snap.append((owner, k, copy.deepcopy(v)))
                except Exception:
                    pass
    return snap


# mutable module-/class-level state of the code under test as it is in a fresh
# process (taken at import, before any transform exists)
_OWNERS = (SES, SES.SesansTransform, DM.DataMixin)
_SNAP = _snapshot(_OWNERS)


def _fresh_state():
    """Put the mutable class-/module-level containers of sasmodels.sesans back
    to their state in a fresh process, so that every explored path and every
    replay is a call sequence that starts in a fresh process (the property
    quantifies over call sequences, not over what the harness ran before)."""
    names = {(id(o), k) for o, k, _v in _SNAP}
    for owner in _OWNERS:
        for k, v in list(vars(owner).items()):
            if isinstance(v, (dict, list, set)) and not k.startswith("__") \
                    and (id(owner), k) not in names:
                delattr(owner, k)
    for owner, k, v in _SNAP:
        setattr(owner, k, copy.deepcopy(v))


@contextlib.contextmanager
def _mode(symbolic):
    """Install (symbolic) or remove (concrete replay) the stubs.  The enlarged
    log spacing (a bound of the claim) and the kernel stand-in stay in force
    in both modes."""
    SES.SesansTransform.__init__.__defaults__ = (float(_CFG["spacing"]),)
    DM.call_kernel = _fake_call_kernel
    _fresh_state()
    if symbolic:
        SES.np = _SesansNp()
        SES.j0 = _sym_j0
        # proxies as dict keys / set members (memo tables keyed by input values):
        # a constant hash sends every lookup to ==, which forks symbolically
        symx.Sym.__hash__ = _const_hash
    else:
        SES.np = np
        SES.j0 = _real_j0
    try:
        yield
    finally:
        SES.np = np
        SES.j0 = _real_j0
        symx.Sym.__hash__ = None
        _fresh_state()


def _chain(xi, lam, theta, bg, Ivectors):
    """The real code path from a data object to the value returned for SESANS
    data; works on proxies and on floats alike."""
    data = SD.empty_sesans(z=xi, wavelength=lam, zacceptance=(theta, "radians"))
    model = _FakeModel()
    calc = _Calc()
    calc._interpret_data(data, model)
    tr = calc.resolution
    q = tr.q_calc
    vectors = Ivectors(len(q)) if callable(Ivectors) else Ivectors
    outs = []
    _STATE["calls"] = []
    for I in vectors:
        _STATE["I"] = I
        outs.append(calc._calc_theory({"scale": 1.0, "background": bg}))
    kq = model.kernels[0].q_input[0] if model.kernels else None
    bgs = [c[1].get("background") for c in _STATE["calls"]]
    return {"q": q, "outs": outs, "kernel_q": kq, "kernel_bg": bgs,
            "n_kernels": len(model.kernels), "tr": tr, "calc": calc}


# --------------------------------------------------------------------------
# reference, written from the property text:
#   value[j] = (1/2pi) * sum_k [ m_kj * J0(q_k xi_j) - 1 ] * I_k * q_k * dq_k
# dq_k: width of the interval that ends at q_k (q_k - q_{k-1}); the first
# point has no predecessor and takes the width of the first interval.
# m_kj ("masked by the instrument acceptance", doc/guide/sesans: "Q_max ...
# calculated from the wavelength and the instrument's maximum acceptance
# angle"; SesansTransform docstring: "maximum acceptance of scattering vector
# ... (for ToF: ... max(lam))"):  q_k <= Q_max = (2 pi / lambda) sin(theta_max),
# with lambda = the wavelength of point j (reading a) or max(lambda) (reading
# b); the two coincide for monochromatic data and either is accepted.

def _reference(q, xi, lam, S, I, reading, strict=False):
    two_pi = symx.rat(TWO_PI)
    lam_max = lam[0]
    for l in lam[1:]:
        lam_max = z3.If(l >= lam_max, l, lam_max)
    J0 = symx.uf_decl("j0", 1)
    out = []
    for j in range(len(xi)):
        L = lam[j] if reading == "a" else lam_max
        tot = z3.RealVal(0)
        for k in range(len(q)):
            dq = q[1] - q[0] if k == 0 else q[k] - q[k - 1]
            # whether a point exactly on the acceptance limit counts is not
            # specified: both are accepted (strict = the alternative)
            m = (q[k] * L < two_pi * S) if strict else (q[k] * L <= two_pi * S)
            tot = tot + (z3.If(m, J0(q[k] * xi[j]), z3.RealVal(0)) - 1) * I[k] * q[k] * dq
        out.append(tot / two_pi)
    return out


def _defect_masks(q, xi, lam, S, theta):
    """Characterisation of the finding C19/formula/acceptance-mask/angle-compared-with-Qmax
    (used only to block it when it is listed as known): the comparison of the
    scattering *angle* asin(q lambda/2pi) with Q_max differs from the documented
    mask for some (k, j).  The asin arguments are built with the same proxy
    operations as np.outer(q, lam/(2*pi)) so that they are the atoms occurring
    in the value."""
    two_pi = symx.rat(TWO_PI)
    asin = symx.uf_decl("asin", 1)
    lam_max = lam[0]
    for l in lam[1:]:
        lam_max = z3.If(l >= lam_max, l, lam_max)
    diffs = []
    for j in range(len(xi)):
        for k in range(len(q)):
            x = (Sym(q[k]) * (Sym(lam[j]) / TWO_PI)).t
            code = z3.And(x >= -1, x <= 1, asin(x) <= two_pi / lam_max * S)
            a = q[k] * lam[j] <= two_pi * S
            b = q[k] * lam_max <= two_pi * S
            diffs.append(z3.And(code != a, code != b))
    return z3.Or(*diffs)


def _trans_axioms(ts):
    """Instantiated facts about sin on [0, pi/2] and asin on [0, 1]."""
    ax = []
    sins = symx.apps_of(ts, {"sin"})
    asins = symx.apps_of(ts, {"asin"})
    half_hi, half_lo = _q(PI_HI / 2), _q(PI_LO / 2)
    for s in sins:
        u = s.arg(0)
        ax.append(z3.Implies(z3.And(u >= 0, u <= half_lo),
                             z3.And(s >= u * _q(2 / PI_HI), s <= u, s <= 1, s >= 0)))
        ax.append(z3.Implies(z3.And(u > 0, u <= half_lo), s > 0))
    for a in asins:
        t = a.arg(0)
        ax.append(z3.Implies(z3.And(t >= 0, t <= 1), z3.And(a >= t, a <= t * half_hi, a >= 0)))
        for s in sins:
            u = s.arg(0)
            ax.append(z3.Implies(z3.And(t >= 0, t <= 1, u >= 0, u <= half_lo), (a <= u) == (t <= s)))
    return ax


_SEED = {"asin": [0.02, 0.05, 0.1, 0.2, 0.3, 0.4, 0.5, 0.6, 0.7, 0.8, 0.9, 0.95, 0.99, 1.0],
         "sin": [0.01, 0.02, 0.05, 0.1, 0.2, 0.3, 0.45, 0.6, 0.8, 1.0, 1.2, 1.4, 1.55]}
_FN = {"asin": (math.asin, 0.0, 1.0), "sin": (math.sin, 0.0, math.pi / 2)}


def _point_lemmas(ts, points):
    """True facts about sin on [0, pi/2] (increasing, concave, slope <= 1) and
    asin on [0, 1] (increasing, convex, slope >= 1, asin 0 = 0, asin 1 = pi/2)
    through a known point (x0, v = f(x0)), instantiated for every occurring
    atom f(t): monotonicity, the slope bound, and the chords to the end points.
    Used to pull solver models of the uninterpreted sin/asin to the real
    functions (counterexample-guided, in the manner of incremental
    linearisation).  v is bracketed with relative slack 1e-12."""
    out = []
    F = fractions.Fraction
    for name, xs in points.items():
        f, lo, hi = _FN[name]
        atoms = symx.apps_of(ts, {name})
        for x0 in xs:
            if not (lo < x0 <= hi):
                continue
            v = F(f(x0))
            vhi = _q(v * (1 + F(1, 10**12)) + F(1, 10**300))
            vlo = _q(v * (1 - F(1, 10**12)))
            shi = _q(v / F(x0) * (1 + F(1, 10**12)))     # chord slope from the origin
            slo = _q(v / F(x0) * (1 - F(1, 10**12)))
            x0r = symx.rat(x0)
            for a in atoms:
                t = a.arg(0)
                dom = z3.And(t >= symx.rat(lo), t <= symx.rat(hi))
                below, above = z3.And(dom, t <= x0r), z3.And(dom, t >= x0r)
                if name == "sin":
                    out.append(z3.Implies(below, z3.And(a <= vhi, a >= vlo - (x0r - t), a >= slo * t)))
                    out.append(z3.Implies(above, z3.And(a >= vlo, a <= vhi + (t - x0r), a <= shi * t)))
                else:
                    out.append(z3.Implies(below, z3.And(a <= vhi, a <= vhi - (x0r - t), a <= shi * t)))
                    up = [a >= vlo, a >= vlo + (t - x0r), a >= slo * t]
                    if x0 < 1:
                        chord = (PI_HI / 2 - v * (1 - F(1, 10**12))) / (1 - F(x0))
                        up.append(a <= vhi + (t - x0r) * _q(chord))
                    out.append(z3.Implies(above, z3.And(*up)))
    return out


def _model_points(m, ts):
    pts = {}
    for name in ("asin", "sin"):
        for a in symx.apps_of(ts, {name}):
            try:
                x = float(symx.model_float(m, a.arg(0)))
            except Exception:
                continue
            if math.isfinite(x):
                pts.setdefault(name, set()).add(x)
    return {k: sorted(v) for k, v in pts.items()}


def _abstract_ufs(ts):
    """Replace every uninterpreted application by a fresh real constant (the
    same application -> the same constant).  Drops congruence, so the result
    is implied by the original: unsat of the abstraction => unsat."""
    cache = {}

    def ab(e):
        k = e.get_id()
        if k in cache:
            return cache[k]
        r = e
        if z3.is_app(e) and e.num_args() > 0:
            if e.decl().kind() == z3.Z3_OP_UNINTERPRETED:
                r = z3.Real("uf!%d" % k)
            else:
                r = e.decl()(*[ab(c) for c in e.children()])
        cache[k] = r
        return r
    return [ab(t) for t in ts]


def solve_abstract(u, constraints, timeout_ms=30000):
    import time
    s = z3.Tactic("qfnra-nlsat").solver()
    s.set("timeout", timeout_ms)
    t = time.time()
    try:
        s.add(*_abstract_ufs(constraints))
        r = str(s.check())
    except z3.Z3Exception:
        r = "unknown"
    u.r["solver_s"] += time.time() - t
    u.r["solver_checks"] += 1
    return r


def prove_refined(u, name, phi, hyps, on_cex, ax, atom_terms, robust=(), max_findings=6,
                  max_refine=6, light=None):
    """`Unit.prove` with counterexample-guided refinement of the uninterpreted
    sin/asin: a model that does not reproduce on the real code is used to add
    monotonicity lemmas through the real function values at the model's
    argument points and the query is solved again.  unsat (with the lemmas,
    all true facts) = discharged; a model that reproduces = counterexample."""
    u.r["obligations"] += 1
    neg = z3.Not(phi)
    lem, extra = [], []
    seen = {}
    findings = refines = 0
    while True:
        if light is not None:
            # a subset of the hypotheses with every uninterpreted application replaced
            # by a fresh real (both weaken the hypotheses): if that is already unsat
            # (z3's complete nlsat procedure for nonlinear real arithmetic) the
            # obligation holds a fortiori; otherwise the full query is used.
            if solve_abstract(u, list(light) + list(ax) + lem + extra + [neg]) == "unsat":
                u.r["discharged"] += 1
                if refines:
                    u.note("%s: discharged after %d sin/asin refinement round(s)" % (name, refines))
                return True
        base = list(hyps) + list(ax) + lem + extra + [neg]
        r, m, _s = u.solve(base)
        if r == "unsat":
            u.r["discharged"] += 1
            if refines:
                u.note("%s: discharged after %d sin/asin refinement round(s)" % (name, refines))
            return True
        if r == "unknown":
            u.r["unknown"] += 1
            u.error("obligation %s: solver returned unknown" % name)
            return False
        if robust:
            r2, m2, _s = u.solve(base + list(robust), timeout_ms=20000)
            if r2 == "sat":
                m = m2
        try:
            info = dict(on_cex(m))
        except Exception:
            import traceback
            u.error("replay of %s crashed: %s" % (name, traceback.format_exc()[-1500:]))
            return False
        block = info.pop("block", None)
        info["obligation"] = name
        if not info.get("reproduced") and refines < max_refine:
            pts = _model_points(m, atom_terms)
            new = {k: [x for x in v if x not in seen.setdefault(k, set())] for k, v in pts.items()}
            if any(new.values()):
                for k, v in new.items():
                    seen[k].update(v)
                lem += _point_lemmas(atom_terms, new)
                refines += 1
                continue
        info["refinement_rounds"] = refines
        u.r["cex"].append(info)
        if info.get("reproduced") and block is not None and info.get("key") in _known_keys():
            findings += 1
            if findings >= max_findings:
                u.error("obligation %s: more than %d distinct findings" % (name, max_findings))
                return False
            extra.append(z3.Not(block))
            continue
        return False


# --------------------------------------------------------------------------
# one unit = (number of spin-echo points, monochromatic | tof, spacing, nmax)

def _name(cfg):
    n, mode, spacing, nmax = cfg
    return "nxi=%d/%s/spacing=%g/nq<=%d" % (n, mode, spacing, nmax)


def unit(cfg):
    nxi, mode, spacing, nmax = cfg
    name = _name(cfg)
    u = Unit(name, timeout_ms=120000)
    u.functions("sasmodels.data.empty_sesans", "sasmodels.data.SesansData.__init__",
                "sasmodels.direct_model.DataMixin._interpret_data (sesans branch)",
                "sasmodels.direct_model._make_sesans_transform",
                "sasmodels.sesans.SesansTransform.__init__",
                "sasmodels.sesans.SesansTransform._set_hankel",
                "sasmodels.direct_model.DataMixin._calc_theory",
                "sasmodels.sesans.SesansTransform.apply",
                "numpy diff/insert/outer/dot/reshape (real implementation on object arrays)")
    _CFG["spacing"], _CFG["nmax"] = spacing, nmax

    seq = mode == "seq"
    xi = symx.reals("xi", nxi)
    if mode in ("mono", "seq", "perm"):
        l0 = symx.real("lam")
        lam = [l0] * nxi
    else:
        lam = symx.reals("lam", nxi)
    # seq: a transform for xi is built first, then (same process, same wavelength and
    # acceptance) one for a grid with the same length and end points but independent
    # interior points; every obligation below is stated on the SECOND one
    xi2 = [xi[0]] + symx.reals("eta", nxi)[1:-1] + [xi[-1]] if seq else xi
    theta, bg, ca, cb = (symx.real(n) for n in ("theta", "bg", "a", "b"))
    A = [xi[0].t > 0] + [xi[i].t < xi[i + 1].t for i in range(nxi - 1)]
    if mode == "perm":
        # spin-echo lengths NOT in ascending order (merged / interleaved scans): the value
        # returned for data point j belongs to xi[j].  One non-monotone arrangement,
        # xi0 < xi2 < xi1 with xi2 >= xi1/2 (the real code takes q_max from xi1 - xi0 and
        # q_min from the LAST element; this keeps q_max/q_min = 30 xi2/(xi1-xi0) > 15)
        assert nxi == 3
        A = [xi[0].t > 0, xi[0].t < xi[2].t, xi[2].t < xi[1].t, 2 * xi[2].t >= xi[1].t]
    if seq:
        A += [xi2[i].t < xi2[i + 1].t for i in range(nxi - 1)]
    A += [l.t > 0 for l in (lam if mode == "tof" else lam[:1])]
    A += [theta.t > 0, theta.t <= symx.rat(math.pi / 2)]
    # (the instantiated sin/asin facts constrain no fork; they are added at the obligations)

    def vectors(nq):
        I1 = symx.oarray(symx.reals("I1_", nq))
        I2 = symx.oarray(symx.reals("I2_", nq))
        I3 = symx.oarray([ca * x + cb * y for x, y in zip(I1, I2)])
        return [I1, I2, I3]

    def fn():
        with _mode(True):
            if seq:
                _chain(symx.oarray(xi), symx.oarray(lam), theta, bg, vectors)
            r = _chain(symx.oarray(xi2), symx.oarray(lam), theta, bg, vectors)
        return {"q": [term(x) for x in r["q"]],
                "outs": [[term(x) for x in o] for o in r["outs"]],
                "kernel_q": None if r["kernel_q"] is None else [term(x) for x in r["kernel_q"]],
                "kernel_bg": [term(x) for x in r["kernel_bg"]],
                "n_kernels": r["n_kernels"],
                "data_x": [term(x) for x in r["tr"].q]}

    ex = symx.Explorer(timeout_ms=30000, max_paths=200, int_range=nmax + 4)
    paths = ex.explore(fn, A)
    u.absorb(ex, paths)
    u.reachable(name, A)

    xit = [x.t for x in xi2]
    lamt = [l.t for l in lam]
    S = symx.uf_decl("sin", 1)(theta.t)
    done = 0
    for pi, p in enumerate(paths):
        if p.cut:
            u.note("path %d cut: %s" % (pi, p.cut))
            continue
        H = p.constraints()
        heavy = {c.get_id() for c in p.notes.get("grid_facts", [])}
        light = [c for c in H if c.get_id() not in heavy]   # without the exp/log grid facts
        syms = {"xi": xit, "lam": lamt, "theta": theta.t, "bg": bg.t, "a": ca.t, "b": cb.t}
        if seq:
            syms["xi_first"] = [x.t for x in xi]

        def handler(oracle, nq=None, block=None):
            def h(m):
                return _replay_model(m, cfg, oracle, syms, nq, block)
            return h

        if p.exc is not None:
            u.sample({"config": name, "path": pi, "exception": repr(p.exc)[:300]})
            prove_refined(u, "no-exception", z3.BoolVal(False), H, handler("no-exception"),
                          _trans_axioms(H), H)
            continue
        res = p.result
        q, outs = res["q"], res["outs"]
        nq = len(q)
        done += 1
        I1 = [z3.Real("I1_%d" % k) for k in range(nq)]
        I2 = [z3.Real("I2_%d" % k) for k in range(nq)]
        u.sample({"config": name, "path": pi, "nq": nq,
                  "path_condition": [str(x)[:160] for x in p.pc][:6],
                  "value[0]": str(outs[0][0])[:600]})
        u.reachable(name + "/path%d" % pi, H)
        # the acceptance limit can fall inside the grid on this path (mask not vacuous)
        two_pi = symx.rat(TWO_PI)
        u.reachable(name + "/path%d/limit-inside-grid" % pi,
                    H + _trans_axioms(H + [S]) + [q[0] * lamt[0] <= two_pi * S,
                                                  q[-1] * lamt[0] > two_pi * S])
        hq = handler("grid", nq)
        # 1. q_calc positive, strictly increasing
        prove_refined(u, "q_calc-positive-increasing",
                      z3.And(q[0] > 0, *[q[k] < q[k + 1] for k in range(nq - 1)]),
                      H, hq, [], [])
        # 2. the kernel is evaluated on q_calc with background 0, once
        struct = [z3.BoolVal(res["kernel_q"] is not None and len(res["kernel_q"]) == nq
                             and res["n_kernels"] == 1)]
        if res["kernel_q"] is not None and len(res["kernel_q"]) == nq:
            struct += [a == b for a, b in zip(res["kernel_q"], q)]
        struct += [b == 0 for b in res["kernel_bg"]]
        struct += [a == b for a, b in zip(res["data_x"], xit)]
        prove_refined(u, "kernel-called-on-q_calc-with-background-0", z3.And(*struct), H,
                      handler("kernel-call", nq), [], [])
        # 3. value = documented formula (prefactor, -G(0), weights, mask); no background added.
        # Decomposed for the solver: (3a) the value is the linear form sum_k C_kj I_k, with
        # C_kj the value at the unit vector e_k (substitution in the term the real code
        # produced); (3b) every coefficient C_kj equals the documented one.
        if len(outs[0]) != nxi:
            prove_refined(u, "value-has-one-entry-per-spin-echo-length", z3.BoolVal(False), H,
                          handler("formula"), [], [])
            continue

        def coeff(t, k):
            return z3.simplify(z3.substitute(
                t, *[(I1[i], z3.RealVal(1 if i == k else 0)) for i in range(nq)]))
        Cm = [[coeff(outs[0][j], k) for k in range(nq)] for j in range(nxi)]
        ok3a = prove_refined(u, "value=sum_k C_kj*I_k (no constant term, no background)",
                      z3.And(*[outs[0][j] == z3.Sum([Cm[j][k] * I1[k] for k in range(nq)])
                               for j in range(nxi)]),
                      H, handler("formula", nq), [], [],
                      robust=[z3.And(v >= 0.5, v <= 2) for v in I1 + [bg.t]], light=light)
        if not ok3a:
            u.note("path %d: coefficient and linearity obligations skipped (the value is not the "
                   "linear form they are stated on)" % pi)
            continue
        nice = [z3.And(t >= 10, t <= 100000) for t in xit] + \
               [z3.And(t >= 1, t <= 20) for t in lamt] + [theta.t >= symx.rat(0.005)]
        block = _defect_masks(q, xit, lamt, S, theta.t)

        def ref_coeff(reading, j, k, strict=False):
            # the documented value at I = e_k, i.e. the k-th summand of _reference with I_k = 1
            e = [z3.RealVal(1 if i == k else 0) for i in range(nq)]
            return z3.simplify(_reference(q, xit, lamt, S, e, reading, strict)[j])

        def coeff_ok(reading, j, k):
            return z3.Or(Cm[j][k] == ref_coeff(reading, j, k),
                         Cm[j][k] == ref_coeff(reading, j, k, strict=True))

        readings = ["a"] if mode in ("mono", "perm") else ["b", "a"]
        chosen = readings[0]
        if len(readings) > 1:
            # which reading does this tree follow?  (screening only; the obligations
            # below are what is counted)
            for rd in readings:
                ok = True
                for j in range(nxi):
                    for k in range(nq):
                        phi = coeff_ok(rd, j, k)
                        at = H + [phi]
                        r = solve_abstract(u, light + _trans_axioms(at) + _point_lemmas(at, _SEED)
                                           + [z3.Not(phi)])
                        if r != "unsat":
                            ok = False
                            break
                    if not ok:
                        break
                if ok:
                    chosen = rd
                    break
        u.note("path %d: acceptance reading '%s' (%s)" % (
            pi, chosen, "wavelength of the point" if chosen == "a" else "max(wavelength)"))
        stop = False
        for j in range(nxi):
            for k in range(nq):
                phi = coeff_ok(chosen, j, k)
                at = H + [phi]
                if j == 0 and k == 1 and pi == 0:
                    sv = z3.Solver()
                    sv.add(*(H + _trans_axioms(at) + [z3.Not(phi)]))
                    txt = sv.to_smt2()
                    u.sample({"obligation": "coefficient[k=1,j=0] on path 0", "smt2_bytes": len(txt),
                              "smt2_head": txt[:1500]})
                ok = prove_refined(u, "coefficient[k=%d,j=%d]=(m*J0(q_k*xi_j)-1)*q_k*dq_k/2pi" % (k, j),
                                   phi, H, handler("formula", 0, block),
                                   _trans_axioms(at) + _point_lemmas(at, _SEED), at, robust=nice,
                                   light=light)
                if not ok:
                    u.note("path %d: remaining coefficient obligations skipped after the "
                           "failed one at k=%d j=%d" % (pi, k, j))
                    stop = True
                    break
            if stop:
                break
        # 4. linear in I, on the three real calls value(I1), value(I2), value(a*I1+b*I2):
        # each is the same linear form (4a, 4b), and a linear form is linear (4c).
        if any(len(o) != nxi for o in outs[1:]):
            prove_refined(u, "value-has-one-entry-per-spin-echo-length", z3.BoolVal(False), H,
                          handler("linear", nq), [], [])
            continue
        rob = [z3.And(v >= 0.5, v <= 2) for v in I1 + I2 + [ca.t, cb.t]]
        prove_refined(u, "value(I2)=sum_k C_kj*I2_k",
                      z3.And(*[outs[1][j] == z3.Sum([Cm[j][k] * I2[k] for k in range(nq)])
                               for j in range(nxi)]),
                      H, handler("linear", nq), [], [], robust=rob, light=light)
        prove_refined(u, "value(a*I1+b*I2)=sum_k C_kj*(a*I1_k+b*I2_k)",
                      z3.And(*[outs[2][j] == z3.Sum([Cm[j][k] * (ca.t * I1[k] + cb.t * I2[k])
                                                     for k in range(nq)]) for j in range(nxi)]),
                      H, handler("linear", nq), [], [], robust=rob, light=light)
        cc = [z3.Real("c_%d" % k) for k in range(nq)]
        prove_refined(u, "sum_k c_k*(a*x_k+b*y_k)=a*sum_k c_k*x_k+b*sum_k c_k*y_k",
                      z3.Sum([cc[k] * (ca.t * I1[k] + cb.t * I2[k]) for k in range(nq)])
                      == ca.t * z3.Sum([cc[k] * I1[k] for k in range(nq)])
                      + cb.t * z3.Sum([cc[k] * I2[k] for k in range(nq)]),
                      [], handler("linear", nq), [], [])
        # translator validation on this path
        _validate(u, cfg, p, res, syms)
    if not done:
        u.error("no completed path")
    return u.r


def _float_inputs(m, syms, nq):
    g = lambda t: float(symx.model_float(m, t))
    inp = {"xi": [g(t) for t in syms["xi"]], "lam": [g(t) for t in syms["lam"]],
           "theta": g(syms["theta"]), "bg": g(syms["bg"]), "a": g(syms["a"]), "b": g(syms["b"])}
    if "xi_first" in syms:
        inp["xi_first"] = [g(t) for t in syms["xi_first"]]
    n = nq or 0
    inp["I1"] = [g(z3.Real("I1_%d" % k)) for k in range(n)]
    inp["I2"] = [g(z3.Real("I2_%d" % k)) for k in range(n)]
    return inp


def _validate(u, cfg, p, res, syms):
    """Evaluate the path's result terms in floats at a point of the path and
    compare with the real code run on the same floats (real numpy, scipy j0)."""
    nq = len(res["q"])
    soft = [z3.And(t >= 10, t <= 1000) for t in syms["xi"]] + \
           [z3.And(t >= 1, t <= 10) for t in syms["lam"]] + \
           [z3.And(z3.Real("I1_%d" % k) >= 0.5, z3.Real("I1_%d" % k) <= 2) for k in range(nq)] + \
           [z3.And(z3.Real("I2_%d" % k) >= 0.5, z3.Real("I2_%d" % k) <= 2) for k in range(nq)] + \
           [syms["theta"] >= 0.01]
    if "grid" in p.notes:      # stay away from the rounding boundary of ceil()
        for qa, qb, rr in p.notes["grid"]:
            soft += [z3.Or(qb <= qa * _q(rr ** k) * _q(fractions.Fraction(97, 100)),
                           qb >= qa * _q(rr ** k) * _q(fractions.Fraction(103, 100)))
                     for k in range(0, cfg[3] + 1)]
    r, m, _s = u.solve(p.constraints() + soft, timeout_ms=20000)
    if r != "sat":
        r, m, _s = u.solve(p.constraints(), timeout_ms=20000)
    if r != "sat":
        u.note("validation skipped (no model of the path: %s)" % r)
        return
    inp = _float_inputs(m, syms, nq)
    try:
        real = run_real(cfg, inp)
    except Exception as e:
        u.note("validation skipped: real code raised %r at %s" % (e, inp))
        return
    if len(real["q"]) != nq:
        u.note("validation skipped: real grid has %d points, path has %d (boundary of ceil)"
               % (len(real["q"]), nq))
        return
    env = {"theta": inp["theta"], "bg": inp["bg"], "a": inp["a"], "b": inp["b"]}
    for key in ("xi", "lam", "xi_first"):
        for t, v in zip(syms.get(key, []), inp.get(key, [])):
            env[str(t)] = v
    for k in range(nq):
        env["I1_%d" % k], env["I2_%d" % k] = inp["I1"][k], inp["I2"][k]
    funcs = {"j0": lambda x: float(_real_j0(x)),
             "asin": lambda x: math.asin(x) if -1 <= x <= 1 else float("nan")}
    scale = max(1e-300, max(abs(x) for x in real["outs"][0]))
    for k in range(nq):
        u.check_close("q_calc[%d]" % k, symx.evalf(res["q"][k], env, funcs), real["q"][k], rtol=1e-9)
    for j in range(len(real["outs"][0])):
        got = symx.evalf(res["outs"][0][j], env, funcs)
        u.check_close("value[%d]" % j, got, real["outs"][0][j], rtol=1e-8, atol=1e-10 * scale)


# --------------------------------------------------------------------------
# replay on the real code with plain floats, real numpy and scipy j0

def run_real(cfg, inp):
    nxi, mode, spacing, nmax = cfg
    _CFG["spacing"], _CFG["nmax"] = spacing, nmax
    xi = np.array(inp["xi"], dtype=float)
    lam = np.array(inp["lam"], dtype=float)

    def vectors(nq):
        def fit(v):
            v = list(v)
            while len(v) < nq:
                v.append(1.0 + 0.25 * len(v))
            return np.array(v[:nq], dtype=float)
        I1, I2 = fit(inp.get("I1", [])), fit(inp.get("I2", []))
        return [I1, I2, inp["a"] * I1 + inp["b"] * I2]

    with _mode(False):       # starts from the class/module state of a fresh process
        with np.errstate(all="ignore"):
            if inp.get("xi_first"):
                _chain(np.array(inp["xi_first"], dtype=float), lam, float(inp["theta"]),
                       float(inp["bg"]), vectors)
            r = _chain(xi, lam, float(inp["theta"]), float(inp["bg"]), vectors)
    tr = r["tr"]
    I = vectors(len(r["q"]))
    return {"q": [float(x) for x in r["q"]], "outs": [[float(x) for x in o] for o in r["outs"]],
            "I": [[float(x) for x in v] for v in I],
            "kernel_q": None if r["kernel_q"] is None else [float(x) for x in r["kernel_q"]],
            "kernel_bg": [float(b) for b in r["kernel_bg"]], "n_kernels": r["n_kernels"],
            "H": np.array(tr._H, dtype=float), "data_x": [float(x) for x in np.atleast_1d(tr.q)]}


def numeric_reference(xi, lam, theta, q, I, reading, code_H=None, slack=0.0):
    """The documented value in floats (independent of sasmodels).  With
    *code_H* the mask is taken from the zero pattern of the real transform
    matrix instead (used only to classify a discrepancy)."""
    S = math.sin(theta)
    out = []
    for j in range(len(xi)):
        L = lam[j] if reading == "a" else max(lam)
        qmax = TWO_PI / L * S * (1 + slack)
        tot = 0.0
        for k in range(len(q)):
            dq = q[1] - q[0] if k == 0 else q[k] - q[k - 1]
            keep = (code_H[k, j] != 0) if code_H is not None else (q[k] <= qmax)
            tot += ((float(_real_j0(q[k] * xi[j])) if keep else 0.0) - 1.0) * I[k] * q[k] * dq
        out.append(tot / TWO_PI)
    return out


def _close(a, b, scale, rtol=1e-9):
    return len(a) == len(b) and all(
        math.isfinite(x) and abs(x - y) <= rtol * max(scale, abs(x), abs(y)) for x, y in zip(a, b))


def numeric_violations(cfg, inp):
    """Which clauses does the real code violate at these inputs?"""
    bad, detail = set(), {}
    try:
        real = run_real(cfg, inp)
    except Exception as e:
        return {"no-exception"}, {"exception": repr(e)}
    q, outs, I = real["q"], real["outs"], real["I"]
    xi, lam, theta = inp["xi"], inp["lam"], inp["theta"]
    detail["q_calc"] = q
    detail["value"] = outs[0]
    if not (len(q) >= 1 and q[0] > 0 and all(q[k] < q[k + 1] for k in range(len(q) - 1))):
        bad.add("grid")
    if real["n_kernels"] != 1 or real["kernel_q"] != q or any(b != 0 for b in real["kernel_bg"]) \
            or real["data_x"] != [float(x) for x in xi]:
        bad.add("kernel-call")
    if len(q) >= 2:
        scale = sum(abs(I[0][k]) * q[k] * (q[k] - q[k - 1] if k else q[1] - q[0])
                    for k in range(len(q))) / TWO_PI
        refs = [numeric_reference(xi, lam, theta, q, I[0], rd, slack=s)
                for rd in ("a", "b") for s in (0.0, 1e-9, -1e-9)]
        detail["reference_a"], detail["reference_b"] = refs[0], refs[3]
        if not any(_close(outs[0], r, scale) for r in refs):
            own = numeric_reference(xi, lam, theta, q, I[0], "a", code_H=real["H"])
            bad.add("formula")
            detail["class"] = "acceptance-mask" if _close(outs[0], own, scale) else "value"
            if detail["class"] == "acceptance-mask":
                S = math.sin(theta)
                # is it the known pattern "scattering angle (radians) compared with Q_max (1/A)"?
                with np.errstate(all="ignore"):
                    ang = np.arcsin(np.outer(q, np.asarray(lam) / TWO_PI))
                    pat = ~(ang <= TWO_PI / max(lam) * S)
                if np.array_equal(pat, real["H"] == 0):
                    detail["class"] = "acceptance-mask/angle-compared-with-Qmax"
                detail["masked_by_code"] = [[int(real["H"][k, j] == 0) for k in range(len(q))]
                                            for j in range(len(xi))]
                detail["masked_by_documented_Qmax"] = [[int(not q[k] <= TWO_PI / lam[j] * S)
                                                        for k in range(len(q))] for j in range(len(xi))]
        lin = [inp["a"] * x + inp["b"] * y for x, y in zip(outs[0], outs[1])]
        s2 = max([abs(inp["a"] * x) + abs(inp["b"] * y) for x, y in zip(outs[0], outs[1])] + [1e-300])
        if not _close(outs[2], lin, s2, rtol=1e-8):
            bad.add("linear")
    if inp.get("xi_first"):
        # the same data set evaluated alone, from the state of a fresh process
        alone = run_real(cfg, {k: v for k, v in inp.items() if k != "xi_first"})
        sc = max([abs(x) for x in alone["outs"][0]] + [1e-300])
        same = alone["q"] == q and _close(outs[0], alone["outs"][0], sc)
        detail["value_alone_in_fresh_state"] = alone["outs"][0]
        detail["q_calc_alone_in_fresh_state"] = alone["q"]
        if not same:
            detail["history_dependent"] = True
            if "formula" in bad:
                detail["class"] = "history-dependence"
    return bad, detail


def _replay_model(m, cfg, oracle, syms, nq, mask_block=None):
    inp = _float_inputs(m, syms, nq)
    bad, detail = numeric_violations(cfg, inp)
    hit = oracle in bad
    key = "C19/%s" % oracle
    block = None
    what_extra = ""
    if oracle == "formula" and hit:
        key = "C19/formula/%s" % detail.get("class")
        if detail.get("class") == "history-dependence":
            what_extra = (" -- the transform built after one for xi=%r returns %s, the same data set "
                          "alone in a fresh process returns %s"
                          % (inp.get("xi_first"), detail.get("value"),
                             detail.get("value_alone_in_fresh_state")))
        if str(detail.get("class")).startswith("acceptance-mask"):
            what_extra = (" -- only the acceptance mask differs: code masks %s, documented "
                          "q<=2pi/lambda*sin(theta_max) masks %s"
                          % (detail.get("masked_by_code"), detail.get("masked_by_documented_Qmax")))
            block = mask_block
    what = ("SESANS value for xi=%r lambda=%r theta_max=%r (log spacing %g, I=%r) violates '%s' "
            "(real code: %s; documented: %s)%s"
            % (inp["xi"], inp["lam"], inp["theta"], cfg[2], inp["I1"], oracle,
               detail.get("value", detail.get("exception")), detail.get("reference_a"), what_extra))
    return {"reproduced": hit, "key": key, "what": what,
            "inputs": dict(inp, cfg=list(cfg)), "detail": _jsonable(detail), "block": block}


def _jsonable(d):
    out = {}
    for k, v in d.items():
        out[k] = v.tolist() if isinstance(v, np.ndarray) else v
    return out


def replay(cex):
    inp = cex["inputs"]
    cfg = tuple(inp["cfg"])
    bad, detail = numeric_violations(cfg, inp)
    print("real sasmodels SESANS chain on", {k: v for k, v in inp.items() if k != "cfg"},
          "cfg", cfg)
    for k, v in detail.items():
        print("  %s: %s" % (k, v))
    print("violated:", sorted(bad))
    return 1 if bad else 0


# --------------------------------------------------------------------------
# numerical clauses (outside the solver claim): concrete runs, reported only

def numeric_side_checks():
    out = {}
    SES.SesansTransform.__init__.__defaults__ = _REAL_DEFAULTS
    try:
        xi = np.logspace(1, 3, 100)
        lam = np.full_like(xi, 5.0)
        tr = SES.SesansTransform(xi, xi, lam, TWO_PI / 5.0, 1e7)
        q = tr.q_calc
        rows = []
        for s in (30.0, 100.0, 300.0):
            got = tr.apply(np.exp(-0.5 * (q * s) ** 2))
            want = (np.exp(-0.5 * (xi / s) ** 2) - 1) / (2 * math.pi * s * s)
            rows.append({"s": s, "1/s": 1 / s, "q_range": [float(q[0]), float(q[-1])],
                         "max_rel_err": float(np.max(np.abs(got - want) / np.abs(want)))})
        out["gaussian_pair_real_spacing_1.0003"] = rows
        s = 100.0
        single = []
        for k in (0, 20, 50, 99):
            t1 = SES.SesansTransform(xi[k:k + 1], xi[k:k + 1], lam[k:k + 1], TWO_PI / 5.0, 1e7)
            g1 = t1.apply(np.exp(-0.5 * (t1.q_calc * s) ** 2))[0]
            gv = tr.apply(np.exp(-0.5 * (q * s) ** 2))[k]
            single.append({"xi": float(xi[k]), "single": float(g1), "vector": float(gv),
                           "rel_diff": float(abs(g1 - gv) / abs(gv))})
        out["single_point_vs_vector_gaussian_s=100"] = single
    except Exception as e:   # reported, never decides
        out["error"] = repr(e)
    return out


# --------------------------------------------------------------------------

def configs(chk):
    """(spin-echo points, mono|tof, log spacing r, bound on the grid length).
    The grid has ceil(log_r(qmax/qmin)) points; qmax/qmin = 1000 for one
    point and 10*n*xi_n/(xi_2-xi_1) > 10*n otherwise, hence the spacings."""
    if chk.quick:
        return [(1, "mono", 4.0, 8), (1, "mono", 3.0, 8),
                (2, "mono", 2.0, 8), (2, "mono", 1.5, 8), (2, "tof", 2.0, 8), (2, "tof", 1.5, 8),
                (3, "mono", 2.0, 8), (3, "mono", 3.0, 8), (3, "tof", 2.0, 6), (3, "tof", 3.0, 6),
                (3, "seq", 3.0, 5), (3, "seq", 2.0, 6), (3, "perm", 3.0, 6)]
    out = [(1, "mono", 4.0, 12), (1, "mono", 3.0, 12), (1, "mono", 2.0, 12)]
    out += [(3, "seq", 3.0, 6), (3, "seq", 2.0, 7), (4, "seq", 3.0, 6), (3, "perm", 3.0, 8), (3, "perm", 2.0, 8)]
    for n in (2, 3, 4):
        for mode in ("mono", "tof"):
            for sp in (2.0, 1.5, 3.0):
                nm = 12 if mode == "mono" or n < 4 else 8
                if sp ** nm > 10 * n * 1.5:      # otherwise no grid fits under the bound
                    out.append((n, mode, sp, nm))
    return out


def run(chk):
    chk.explanation = (
        "Bounded symbolic execution of the real SESANS path (data.empty_sesans -> "
        "DataMixin._interpret_data -> _make_sesans_transform -> SesansTransform.__init__/_set_hankel "
        "-> DataMixin._calc_theory -> SesansTransform.apply) on z3 proxy values carried by numpy object "
        "arrays.  Symbolic: spin-echo lengths, wavelength (one symbol, or one per point), acceptance "
        "angle, the kernel output I(q_calc) (one symbol per grid point), the caller's background, the "
        "coefficients of the linear combination.  The length of the q grid is what the real arange "
        "gives and is forked over.  Obligations per path, decided by z3 (unsat of the negation): "
        "q_calc positive and strictly increasing; the kernel is evaluated on q_calc with background 0 "
        "and nothing is added afterwards; value[j] = (1/2pi) sum_k [m_kj J0(q_k xi_j) - 1] I_k q_k dq_k "
        "with dq_k = q_k - q_(k-1) (first point: q_1 - q_0) and m_kj = [q_k <= 2pi/lambda sin(theta_max)] "
        "(lambda of the point or max(lambda): either accepted); value(a I1 + b I2) = a value(I1) + "
        "b value(I2).  J0, exp, log, sin, asin are uninterpreted functions with instantiated true facts; "
        "a model of sin/asin that does not reproduce on the real code is refined by monotonicity lemmas "
        "through the real function values (counterexample-guided) before a verdict is given.  "
        "'seq' units: in one path a transform for a grid xi is built and used first, then one for a grid "
        "with the same length, end points, wavelength and acceptance but independent symbolic interior "
        "points; all obligations are stated on the second, i.e. its value is a function of its own grid "
        "only (no dependence on what was evaluated before).  Every path and every replay starts from "
        "the class-/module-level state of a fresh process (mutable containers of sasmodels.sesans, "
        "SesansTransform and DataMixin are restored from a snapshot taken at import); the replay runs "
        "the real call sequence in one process and also the second data set alone.")
    cfgs = configs(chk)
    chk.bounds = {
        "spin-echo points": "1..%d" % max(c[0] for c in cfgs),
        "wavelength": "one symbol for all points (mono, seq) or one symbol per point (tof)",
        "call history": "seq units: one earlier transform (same length/end points/wavelength/acceptance, "
                        "different interior points); otherwise none",
        "q grid": "2..%d points (tof with >= %d points: <= %d): log spacing raised from 1.0003 to %s by "
                  "replacing the default of SesansTransform.__init__(log_spacing=...); inputs whose grid "
                  "would be longer are outside the claim" % (
                      max(c[3] for c in cfgs), max(c[0] for c in cfgs), min(c[3] for c in cfgs),
                      sorted({c[2] for c in cfgs})),
        "configurations": [_name(c) for c in cfgs],
        "units": "SE length in A, wavelength in A, acceptance in radians (other units need sasdata's "
                 "Converter, which is not installed)",
        "solver timeout per query": "120 s (30 s for the UF-abstracted nlsat stage); fork feasibility 30 s",
        "sin/asin refinement rounds per obligation": 6,
    }
    chk.outside = [
        "accuracy of the quadrature (Gaussian-pair clause) and the 10 % single-point clause: numerical, "
        "reported as concrete runs under numeric_side_checks, not decided by the solver",
        "grids longer than the bound (the real spacing 1.0003 gives ~10^4 points; the code is uniform in the length)",
        "floating-point rounding, NaN other than arcsin outside [-1,1]",
        "the scattering kernel itself (call_kernel is replaced by free symbols)",
        "alternative reading 'mask applies to the -1 (G(0)) term too': ambiguous in the statement, not demanded",
        "Rmax: fixed to 1e7 by _make_sesans_transform and not used by _set_hankel; nothing to vary",
        "SesansTransform called directly with a scalar wavelength and several spin-echo lengths "
        "(boolean mask of shape (nq,1) against H of shape (nq,n))",
    ]
    chk.stubs = [
        "sesans.j0 -> uninterpreted function j0 (elementwise, honours out=)",
        "sesans.np -> vlib.npshim subclass: log/exp -> uninterpreted log/exp; arcsin(out=) -> uninterpreted "
        "asin with an explicit NaN flag for arguments outside [-1,1] (ordered comparisons false); outer/exp "
        "return an ndarray subclass whose comparisons give symbolic booleans and whose boolean-mask "
        "assignment is an if-then-else; arange(log qmin, log qmax, log r) -> start + k*step with the "
        "length ceil((stop-start)/step) forked over",
        "SesansTransform.__init__ default log_spacing -> 2, 1.5, 3 or 4 (bound on the grid length)",
        "symx.Sym.__hash__ -> constant while the code runs symbolically, so that proxies can be dict keys / "
        "set members (memo tables keyed by input values): lookups fall through to ==, which forks",
        "direct_model.call_kernel -> returns the symbolic vector I(q_calc) and records its arguments; "
        "model object -> stand-in with the real sphere ModelInfo and a recording make_kernel",
    ]
    chk.assumptions = [
        "spin-echo lengths positive and strictly increasing (units 'perm': three lengths in the non-monotone "
        "order xi0 < xi2 < xi1, xi2 >= xi1/2); wavelengths > 0; 0 < theta_max <= pi/2",
        "exp/log: exp(log(qmin) + k*log(r)) = qmin*r^k and log(qmax)-log(qmin) <= k*log(r) <=> qmax <= qmin*r^k "
        "(instantiated for k <= bound; the double log(r) is identified with ln r)",
        "sin on [0,pi/2]: 2t/pi <= sin t <= t; asin on [0,1]: x <= asin x <= x*pi/2; asin(x) <= t <=> x <= sin t; "
        "monotone, slope bound 1 and chords (concave sin / convex asin) through finitely many tabulated points "
        "(true values, relative slack 1e-12)",
        "doubles modelled as reals; pi is the double pi on both sides",
    ]
    chk.trusted.append("z3 tactic qfnra-nlsat on the UF-abstracted queries (an unsat there implies unsat of the query)")
    chk.trusted.append("scipy.special.j0 / math.sin / math.asin in the numeric replay reference")
    if getattr(chk, "only", None):
        cfgs = [c for c in cfgs if chk.only in _name(c)]
    chk.add(pmap(unit, cfgs))
    # after the pool: BLAS threads started here must not exist when the workers are forked
    chk.extra["numeric_side_checks"] = numeric_side_checks()
