"""C13 -- particle models are dimensionally consistent with their declared units.

Deciding step: a homogeneity-degree constraint system (vlib.hdeg) over the
LLVM IR of each model's real generated C source, solved by z3 (QF_LRA).
Inputs of the leaf functions (form_volume, shell_volume, radius_effective,
Iq/Fq/Iqac/Iqabc/Iqxy) are bound to ParameterTable slots exactly as the real
generated dispatch code (<id>_Iq, <id>_Iqxy) binds them; each slot carries the
degree of its DECLARED unit string, q carries (-1, 0).
  Query 1: the system is satisfiable (a typing exists).
  Query 2: system /\\ not(expected output degrees) is unsat, i.e. every typing
           gives deg F^2 - deg V_shell = (3,2), deg F - deg V_shell = (0,1),
           deg V_form = deg V_shell, deg R_eff = (1,0) and V:(3,0) when
           form_volume is not a constant.
A solution of Query 1 is a scaling certificate: by induction over executed
instructions (see vlib.hdeg docstring) scaling the inputs by lambda^l mu^m
scales every value by its own lambda^l mu^m and leaves every branch unchanged,
so Query 2 unsat proves the relation of C13 for ALL q and parameter values of
the leaf functions; the dispersity loop is linear in these outputs (C01).
When a query fails, the unsat core names instructions and parameters, and a
numeric witness is sought on the real compiled DLL; only a witness with
relative defect > 1e-6 is a VIOLATION; otherwise the model is 'undecided'.
"""
import math
import random
import zlib

import numpy as np
import z3

from vlib import hdeg
from vlib.harness import Unit, pmap
from vlib.llsym import build, irparse

from sasmodels import core, direct_model

UNITS = {"Ang": (1, 0), "Ang^2": (2, 0), "Ang^3": (3, 0), "1/Ang": (-1, 0),
         "1/Ang^2": (-2, 0), "1e-6/Ang^2": (0, 1), "degrees": (0, 0), "": (0, 0),
         "None": (0, 0), "none": (0, 0), None: (0, 0)}
LAMBDAS = (0.5, 1.7)
TOL = 1e-6
Q1D = np.array([0.0031, 0.02, 0.11, 0.27])
QX = np.array([0.012, 0.05, -0.08, 0.15])
QY = np.array([0.03, -0.02, 0.11, 0.04])


def declared_degree(p):
    """Degree pair of a parameter from its declared unit string (None: not in table)."""
    if p.type == "sld" and p.units == "1e-6/Ang^2":
        return (0, 1)
    if p.units == "1e-6/Ang^2":
        return None                     # SLD unit on a non-SLD parameter: not claimed
    return UNITS.get(p.units)


def select_models():
    """(claimed, outside) among category shape:*."""
    claimed, outside = [], []
    for name in core.list_models():
        info = core.load_model_info(name)
        if not (info.category or "").startswith("shape:"):
            continue
        if callable(info.Iq):
            outside.append("%s (pure Python model: no C source)" % name)
            continue
        odd = sorted({str(p.units) for p in info.parameters.kernel_parameters
                      if declared_degree(p) is None})
        if odd:
            outside.append("%s (units outside the table: %s)" % (name, ", ".join(odd)))
            continue
        claimed.append(name)
    return claimed, outside


# ---------------------------------------------------------------------------
# numeric scaling relation on the real compiled model

def par_degrees(info):
    """call-parameter id -> (l, m), including the expanded vector entries."""
    deg = {}
    for p in info.parameters.call_parameters:
        d = declared_degree(p)
        deg[p.id] = d if d is not None else (0, 0)
    deg["scale"] = deg["background"] = (0, 0)
    return deg


def scale_pars(info, pars, lam, mu, deg=None):
    deg = deg or par_degrees(info)
    out = dict(pars)
    for k, v in pars.items():
        l, m = deg.get(k, (0, 0))
        if l or m:
            out[k] = v * lam ** l * mu ** m
    return out


_MODELS = {}


def real_model(name):
    if name not in _MODELS:
        info = core.load_model_info(name)
        _MODELS[name] = core.build_model(info, dtype="double", platform="dll")
    return _MODELS[name]


def observe(name, pars, q=Q1D, qxy=(QX, QY)):
    """Observable name -> numpy vector, from the real compiled model."""
    model = real_model(name)
    info = model.info
    pars = dict(pars, background=0.0)
    out = {}
    k1 = model.make_kernel([np.asarray(q, dtype=float)])
    out["I"] = np.asarray(direct_model.call_kernel(k1, dict(pars)), dtype=float)
    if info.parameters.has_2d:
        k2 = model.make_kernel([np.asarray(qxy[0], dtype=float), np.asarray(qxy[1], dtype=float)])
        out["I2d"] = np.asarray(direct_model.call_kernel(k2, dict(pars)), dtype=float)
    nmodes = len(info.radius_effective_modes or ())
    for mode in range(1, nmodes + 1) if nmodes else (1,):
        F1, F2, R, Vs, ratio = direct_model.call_Fq(k1, dict(pars, radius_effective_mode=mode))
        if mode == 1:
            out["V_shell"] = np.array([Vs], dtype=float)
            out["V_ratio"] = np.array([ratio], dtype=float)
            if F1 is not None:
                out["F_over_V"] = np.asarray(F1, dtype=float) / Vs
        if nmodes:
            out["R_eff[%d]" % mode] = np.array([R], dtype=float)
    return out


def expected_factor(obs, lam, mu, const_volume):
    if obs in ("I", "I2d"):
        return lam ** 3 * mu ** 2
    if obs == "V_shell":
        return 1.0 if const_volume else lam ** 3
    if obs == "F_over_V":
        return mu
    if obs.startswith("R_eff"):
        return lam
    return 1.0


def defects(name, pars, lam, mu, const_volume, deg=None):
    """Relative defect of every observable under the declared scaling."""
    info = real_model(name).info
    a = observe(name, pars)
    b = observe(name, scale_pars(info, pars, lam, mu, deg), q=Q1D / lam, qxy=(QX / lam, QY / lam))
    res = {}
    for k in a:
        want = expected_factor(k, lam, mu, const_volume) * a[k]
        if not (np.all(np.isfinite(want)) and np.all(np.isfinite(b[k]))):
            res[k] = float("nan")
            continue
        ref = np.max(np.abs(want))
        res[k] = float(np.max(np.abs(b[k] - want)) / ref) if ref > 0 else \
            (0.0 if np.max(np.abs(b[k])) == 0 else float("inf"))
    return res, a, b


def parameter_sets(info, seed, n=3):
    """Defaults plus *n* seeded sets: every non-zero default is multiplied by a
    factor in [0.6, 1.5]; zero defaults with declared length/fraction meaning
    get a small positive value inside their limits."""
    base = {k: float(v) for k, v in info.parameters.defaults.items()
            if not k.startswith("up_") and "_M0" not in k and "_mtheta" not in k
            and "_mphi" not in k}
    base["scale"], base["background"] = 1.0, 0.0
    sets = [("defaults", dict(base))]
    limits = {p.id: p.limits for p in info.parameters.call_parameters}
    ptype = {p.id: p.type for p in info.parameters.call_parameters}
    control = {p.id for p in info.parameters.call_parameters if getattr(p, "is_control", False)}
    for i in range(n):
        rng = random.Random(zlib.crc32(("%s/%d/%d" % (info.id, seed, i)).encode()))
        s = dict(base)
        for k in sorted(base):
            if k in ("scale", "background") or k in control:
                continue
            lo, hi = limits.get(k, (-math.inf, math.inf))
            v = base[k]
            if v != 0:
                if v == int(v) and ptype.get(k) == "" and abs(v) <= 20 and hi - lo < 1e3 \
                        and k.startswith(("n", "num")):
                    continue                       # counts stay
                v = v * rng.uniform(0.6, 1.5)
            elif ptype.get(k) in ("volume", ""):
                v = rng.uniform(0.15, 0.6)
            v = min(max(v, lo), hi)
            s[k] = v
        sets.append(("seed%d.%d" % (seed, i), s))
    return sets


# ---------------------------------------------------------------------------
# the degree constraint system of one model

class System:
    """Typing of the leaf functions of one model under its declared units."""

    def __init__(self, info):
        self.info = info
        path, src = build.model_ir(info)
        self.mod = mod = irparse.parse(path)
        self.T = T = hdeg.Typing(mod)
        fields = hdeg.table_fields(src)
        kp = {p.id: p for p in info.parameters.kernel_parameters}
        self.slots, self.unit_lits, self.units = [], {}, {}
        for k, fname in enumerate(fields):
            if fname not in kp:
                raise irparse.Unsupported("table field %s is not a kernel parameter" % fname)
            p = kp[fname]
            d = declared_degree(p)
            v = T.fresh("par:" + fname)
            lit = z3.Bool("unit:%s[%s]" % (fname, p.units))
            T.sol.add(z3.Implies(lit, z3.And(v.l == d[0], v.m == d[1])))
            self.slots.append(v)
            self.unit_lits[fname] = lit
            self.units[fname] = {"units": str(p.units), "type": p.type, "degree": list(d)}
        self.q = T.const(-1, 0, "q")
        self.out = {}            # output name -> Val
        self.leaves = []
        seen = set()
        for kern in (info.id + "_Iq", info.id + "_Iqxy"):
            if kern not in mod.functions:
                continue
            for leaf, kinds in hdeg.bindings(mod, kern):
                key = (leaf, tuple(kinds))
                if key in seen:
                    continue
                seen.add(key)
                self._leaf(kern, leaf, kinds)
        self.const_volume = self._const_volume()

    def _leaf(self, kern, leaf, kinds):
        T = self.T
        args, outs = [], []
        for kd in kinds:
            if kd[0] == "slot":
                args.append(self.slots[kd[1]])
            elif kd[0] == "q":
                args.append(self.q)
            elif kd[0] == "out":
                v = T.fresh("%s.out%d" % (leaf, len(outs)))
                outs.append(v)
                args.append(v)
            else:
                args.append(None)
        ret = T.inst(leaf, args, ctx=kern + ">")
        self.leaves.append("%s(%s)" % (leaf, ", ".join(
            "q" if k[0] == "q" else "&out" if k[0] == "out" else "mode" if k[0] == "int"
            else list(self.unit_lits)[k[1]] for k in kinds)))
        name = {"form_volume": "V_form", "shell_volume": "V_shell", "radius_effective": "R_eff",
                "Iq": "I", "Iqac": "I2d", "Iqabc": "I2d", "Iqxy": "I2d"}.get(leaf)
        if leaf == "Fq":
            self.out.setdefault("F1", outs[0])
            self.out.setdefault("F2", outs[1])
        elif name in self.out:
            T.eq(self.out[name], ret, "two bindings of %s must agree" % leaf)
        else:
            self.out[name] = ret

    def _const_volume(self):
        """True when the model is normalised by a constant (no form_volume, or
        a form_volume whose every return is a literal)."""
        f = self.mod.functions.get("form_volume")
        if f is None or "V_form" not in self.out:
            return True
        rets = [ins[2] for b in f.blocks.values() for ins in b if ins[0] == "ret"]
        return all(r is not None and r[0] == "fp" for r in rets)

    def expected(self):
        """[(clause name, z3 formula)] -- the relative form of DESIGN 3/C13."""
        o = self.out
        zero = self.T.zero
        vs = o.get("V_shell", o.get("V_form", zero))
        vf = o.get("V_form", zero)
        cl = []

        def rel(name, v, l, m):
            cl.append((name, z3.And(v.l - vs.l == l, v.m - vs.m == m)))
        if "F2" in o:
            rel("F2/V_shell:(3,2)", o["F2"], 3, 2)
            rel("F1/V_shell:(0,1)", o["F1"], 0, 1)
        if "I" in o:
            rel("I/V_shell:(3,2)", o["I"], 3, 2)
        if "I2d" in o:
            rel("I2d/V_shell:(3,2)", o["I2d"], 3, 2)
        if "V_form" in o:
            cl.append(("V_form~V_shell", z3.And(vf.l == vs.l, vf.m == vs.m)))
            if not self.const_volume:
                cl.append(("V_shell:(3,0)", z3.And(vs.l == 3, vs.m == 0)))
        if "R_eff" in o:
            cl.append(("R_eff:(1,0)", z3.And(o["R_eff"].l == 1, o["R_eff"].m == 0)))
        return cl
