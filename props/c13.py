"""C13 -- particle models are dimensionally consistent with their declared units.

Deciding step: a homogeneity-degree constraint system (vlib.hdeg) over the
LLVM IR of each model's real generated C source, solved by z3 (QF_LRA).
Inputs of the leaf functions (form_volume, shell_volume, radius_effective,
Iq/Fq/Iqac/Iqabc/Iqxy) are bound to ParameterTable slots exactly as the real
generated dispatch code (<id>_Iq, <id>_Iqxy) binds them; each slot carries the
degree of its DECLARED unit string, q carries (-1, 0).
  Query 1: the system is satisfiable (a typing exists).
  Query 2: system /\\ not(expected output degrees) is unsat, i.e. every typing
           gives deg F^2 - deg V_shell = (3,2), deg F - deg V_shell = (0,1),
           deg V_form = deg V_shell, deg R_eff = (1,0) and V:(3,0) when
           form_volume is not a constant.
A solution of Query 1 is a scaling certificate: by induction over executed
instructions (see vlib.hdeg docstring) scaling the inputs by lambda^l mu^m
scales every value by its own lambda^l mu^m and leaves every branch unchanged,
so Query 2 unsat proves the relation of C13 for ALL q and parameter values of
the leaf functions; the dispersity loop is linear in these outputs (C01).
When a query fails, the unsat core names instructions and parameters, and a
numeric witness is sought on the real compiled DLL; only a witness with
relative defect > 1e-6 is a VIOLATION; otherwise the model is 'undecided'.
"""
import math
import random
import zlib

import numpy as np
import z3

from vlib import hdeg
from vlib.harness import Unit, pmap
from vlib.llsym import build, irparse

from sasmodels import core, direct_model

UNITS = {"Ang": (1, 0), "Ang^2": (2, 0), "Ang^3": (3, 0), "1/Ang": (-1, 0),
         "1/Ang^2": (-2, 0), "1e-6/Ang^2": (0, 1), "degrees": (0, 0), "": (0, 0),
         "None": (0, 0), "none": (0, 0), None: (0, 0)}
LAMBDAS = (0.5, 1.7)
TOL = 1e-6
Q1D = np.array([0.0031, 0.02, 0.11, 0.27])
QX = np.array([0.012, 0.05, -0.08, 0.15])
QY = np.array([0.03, -0.02, 0.11, 0.04])


def declared_degree(p):
    """Degree pair of a parameter from its declared unit string (None: not in table)."""
    if p.type == "sld" and p.units == "1e-6/Ang^2":
        return (0, 1)
    if p.units == "1e-6/Ang^2":
        return None                     # SLD unit on a non-SLD parameter: not claimed
    return UNITS.get(p.units)


def select_models():
    """(claimed, outside) among category shape:*."""
    claimed, outside = [], []
    for name in core.list_models():
        info = core.load_model_info(name)
        if not (info.category or "").startswith("shape:"):
            continue
        if callable(info.Iq):
            outside.append("%s (pure Python model: no C source)" % name)
            continue
        odd = sorted({str(p.units) for p in info.parameters.kernel_parameters
                      if declared_degree(p) is None})
        if odd:
            outside.append("%s (units outside the table: %s)" % (name, ", ".join(odd)))
            continue
        claimed.append(name)
    return claimed, outside


# ---------------------------------------------------------------------------
# numeric scaling relation on the real compiled model

def par_degrees(info):
    """call-parameter id -> (l, m), including the expanded vector entries."""
    deg = {}
    for p in info.parameters.call_parameters:
        d = declared_degree(p)
        deg[p.id] = d if d is not None else (0, 0)
    deg["scale"] = deg["background"] = (0, 0)
    return deg


def scale_pars(info, pars, lam, mu, deg=None):
    deg = par_degrees(info) if deg is None else deg
    out = dict(pars)
    for k, v in pars.items():
        l, m = deg.get(k, (0, 0))
        if l or m:
            out[k] = v * lam ** l * mu ** m
    return out


_MODELS = {}


def real_model(name):
    if name not in _MODELS:
        info = core.load_model_info(name)
        _MODELS[name] = core.build_model(info, dtype="double", platform="dll")
    return _MODELS[name]


def observe(name, pars, q=Q1D, qxy=(QX, QY)):
    """Observable name -> numpy vector, from the real compiled model."""
    model = real_model(name)
    info = model.info
    pars = dict(pars, background=0.0)
    out = {}
    k1 = model.make_kernel([np.asarray(q, dtype=float)])
    out["I"] = np.asarray(direct_model.call_kernel(k1, dict(pars)), dtype=float)
    if info.parameters.has_2d:
        k2 = model.make_kernel([np.asarray(qxy[0], dtype=float), np.asarray(qxy[1], dtype=float)])
        out["I2d"] = np.asarray(direct_model.call_kernel(k2, dict(pars)), dtype=float)
    nmodes = len(info.radius_effective_modes or ())
    for mode in range(1, nmodes + 1) if nmodes else (1,):
        F1, F2, R, Vs, ratio = direct_model.call_Fq(k1, dict(pars, radius_effective_mode=mode))
        if mode == 1:
            out["V_shell"] = np.array([Vs], dtype=float)
            out["V_ratio"] = np.array([ratio], dtype=float)
            if F1 is not None:
                out["F_over_V"] = np.asarray(F1, dtype=float) / Vs
        if nmodes:
            out["R_eff[%d]" % mode] = np.array([R], dtype=float)
    return out


def expected_factor(obs, lam, mu, const_volume):
    if obs in ("I", "I2d"):
        return lam ** 3 * mu ** 2
    if obs == "V_shell":
        return 1.0 if const_volume else lam ** 3
    if obs == "F_over_V":
        return mu
    if obs.startswith("R_eff"):
        return lam
    return 1.0


def parameter_sets(info, seed, n=3):
    """Defaults plus *n* seeded sets: every non-zero default is multiplied by a
    factor in [0.6, 1.5]; zero defaults with declared length/fraction meaning
    get a small positive value inside their limits."""
    base = {k: float(v) for k, v in info.parameters.defaults.items()
            if not k.startswith("up_") and "_M0" not in k and "_mtheta" not in k
            and "_mphi" not in k}
    base["scale"], base["background"] = 1.0, 0.0
    sets = [("defaults", dict(base))]
    limits = {p.id: p.limits for p in info.parameters.call_parameters}
    ptype = {p.id: p.type for p in info.parameters.call_parameters}
    for i in range(n):
        rng = random.Random(zlib.crc32(("%s/%d/%d" % (info.id, seed, i)).encode()))
        s = dict(base)
        for k in sorted(base):
            if k in ("scale", "background"):
                continue
            lo, hi = limits.get(k, (-math.inf, math.inf))
            v = base[k]
            if v != 0 and v == int(v) and ptype.get(k) != "sld" and abs(v) <= 20 \
                    and k.lower().startswith(("n", "num")):
                v = v + (i + 1) % 3                # counts stay integral (default+1, +2, +0)
            elif v != 0:
                v = v * rng.uniform(0.6, 1.5)
            elif ptype.get(k) in ("volume", ""):
                v = rng.uniform(0.15, 0.6)
            v = min(max(v, lo), hi)
            s[k] = v
        sets.append(("seed%d.%d" % (seed, i), s))
    return sets


# ---------------------------------------------------------------------------
# the degree constraint system of one model

class System:
    """Typing of the leaf functions of one model under its declared units."""

    def __init__(self, info):
        self.info = info
        path, src = build.model_ir(info)
        self.mod = mod = irparse.parse(path)
        self.T = T = hdeg.Typing(mod)
        fields = hdeg.table_fields(src)
        kp = {p.id: p for p in info.parameters.kernel_parameters}
        self.slots, self.unit_lits, self.units = [], {}, {}
        for k, fname in enumerate(fields):
            if fname not in kp:
                raise irparse.Unsupported("table field %s is not a kernel parameter" % fname)
            p = kp[fname]
            d = declared_degree(p)
            v = T.fresh("par:" + fname)
            lit = z3.Bool("unit:%s[%s]" % (fname, p.units))
            T.sol.add(z3.Implies(lit, z3.And(v.l == d[0], v.m == d[1])))
            self.slots.append(v)
            self.unit_lits[fname] = lit
            self.units[fname] = {"units": str(p.units), "type": p.type, "degree": list(d)}
        self.q = T.const(-1, 0, "q")
        self.out = {}            # output name -> Val
        self.leaves = []
        seen = set()
        for kern in (info.id + "_Iq", info.id + "_Iqxy"):
            if kern not in mod.functions:
                continue
            for leaf, kinds in hdeg.bindings(mod, kern):
                key = (leaf, tuple(kinds))
                if key in seen:
                    continue
                seen.add(key)
                self._leaf(kern, leaf, kinds)
        self.const_volume = self._const_volume()

    def _leaf(self, kern, leaf, kinds):
        T = self.T
        args, outs = [], []
        for kd in kinds:
            if kd[0] == "slot":
                args.append(self.slots[kd[1]])
            elif kd[0] == "q":
                args.append(self.q)
            elif kd[0] == "out":
                v = T.fresh("%s.out%d" % (leaf, len(outs)))
                outs.append(v)
                args.append(v)
            else:
                args.append(None)
        ret = T.inst(leaf, args, ctx=kern + ">")
        self.leaves.append("%s(%s)" % (leaf, ", ".join(
            "q" if k[0] == "q" else "&out" if k[0] == "out" else "mode" if k[0] == "int"
            else list(self.unit_lits)[k[1]] for k in kinds)))
        name = {"form_volume": "V_form", "shell_volume": "V_shell", "radius_effective": "R_eff",
                "Iq": "I", "Iqac": "I2d", "Iqabc": "I2d", "Iqxy": "I2d"}.get(leaf)
        if leaf == "Fq":
            self.out.setdefault("F1", outs[0])
            self.out.setdefault("F2", outs[1])
        elif name in self.out:
            T.eq(self.out[name], ret, "two bindings of %s must agree" % leaf)
        else:
            self.out[name] = ret

    def _const_volume(self):
        """True when the model is normalised by a constant (no form_volume, or
        a form_volume whose every return is a literal)."""
        f = self.mod.functions.get("form_volume")
        if f is None or "V_form" not in self.out:
            return True
        rets = [ins[2] for b in f.blocks.values() for ins in b if ins[0] == "ret"]
        return all(r is not None and r[0] == "fp" for r in rets)

    def expected(self):
        """[(clause name, z3 formula)] -- the relative form of DESIGN 3/C13."""
        o = self.out
        zero = self.T.zero
        vs = o.get("V_shell", o.get("V_form", zero))
        vf = o.get("V_form", zero)
        cl = []

        def rel(name, v, l, m):
            cl.append((name, z3.And(v.l - vs.l == l, v.m - vs.m == m)))
        if "F2" in o:
            rel("F2/V_shell:(3,2)", o["F2"], 3, 2)
            rel("F1/V_shell:(0,1)", o["F1"], 0, 1)
        if "I" in o:
            rel("I/V_shell:(3,2)", o["I"], 3, 2)
        if "I2d" in o:
            rel("I2d/V_shell:(3,2)", o["I2d"], 3, 2)
        if "V_form" in o:
            cl.append(("V_form~V_shell", z3.And(vf.l == vs.l, vf.m == vs.m)))
            if not self.const_volume:
                cl.append(("V_shell:(3,0)", z3.And(vs.l == 3, vs.m == 0)))
        if "R_eff" in o:
            cl.append(("R_eff:(1,0)", z3.And(o["R_eff"].l == 1, o["R_eff"].m == 0)))
        return cl


def _num(x):
    f = x.as_fraction()
    return int(f) if f.denominator == 1 else float(f)


def analyse(S, u):
    """Queries 1 and 2 plus the diagnosis of a failure.  Returns dict with
    status typed|untypable|degrees, causes [(kind, name, text)], repaired
    {param: (l, m)}, core [...]."""
    T = S.T
    T.sol.set("smt.core.minimize", True)
    lits = list(S.unit_lits.values())
    res = {"status": None, "causes": [], "repaired": {}, "core": [], "clauses": []}
    exp = S.expected()
    res["clauses"] = [n for n, _c in exp]

    def timed(*a):
        import time
        t = time.time()
        r = T.check(a)
        u.r["solver_s"] += time.time() - t
        u.r["solver_checks"] += 1
        return r
    u.r["obligations"] += 1
    r1 = timed(*lits)
    if r1 == "unknown":
        u.r["unknown"] += 1
        u.error("Query 1 (typing exists): solver returned unknown")
        return res
    if r1 == "sat":
        u.r["discharged"] += 1
        u.r["obligations"] += 1
        T.sol.push()
        T.sol.add(z3.Not(z3.And([c for _n, c in exp])))
        r2 = timed(*lits)
        bad = []
        if r2 == "sat":
            m = T.sol.model()
            bad = [n for n, c in exp if not z3.is_true(m.eval(c, model_completion=True))]
        T.sol.pop()
        if r2 == "unknown":
            u.r["unknown"] += 1
            u.error("Query 2 (output degrees forced): solver returned unknown")
            return res
        if r2 == "unsat":
            u.r["discharged"] += 1
            res["status"] = "typed"
            return res
        res["status"] = "degrees"
        res["causes"] = _degree_causes(S, lits, exp, timed) or \
            [("degree", n.split(":")[0], n + " is violated by a typing") for n in bad] or \
            [("degree", "unspecified", "some typing violates the expected output degrees")]
        return res
    # Query 1 unsat: unsat core, then minimal relabelling
    res["status"] = "untypable"
    res["core"] = T.core_reasons()
    _relabel(S, res, exp)
    return res


def _degree_causes(S, lits, exp, timed, extra=()):
    """Expected-degree clauses that some typing violates."""
    T = S.T
    out = []
    for name, c in exp:
        T.sol.push()
        T.sol.add(z3.Not(c), *extra)
        r = timed(*lits)
        T.sol.pop()
        if r != "sat":
            continue
        T.sol.push()
        T.sol.add(c, *extra)
        r_can = timed(*lits)
        T.sol.pop()
        out.append(("degree", name.split(":")[0],
                    "%s %s" % (name, "cannot hold in any typing" if r_can == "unsat"
                               else "is not forced (another typing exists)")))
    return out


W_UNIT, W_INSTR = 1, 3


def _relabel(S, res, exp):
    """Cheapest set of unit labels (weight 2) and instruction constraints
    (weight 3) whose removal makes the system satisfiable (MaxSAT, z3
    Optimize); then the expected-degree clauses under the repaired labels."""
    T = S.T
    names = list(S.unit_lits)
    slot = dict(zip(names, S.slots))
    opt = z3.Optimize()
    opt.set("timeout", 120000)
    for a in T.sol.assertions():
        opt.add(a)
    groups = {}          # one soft literal per SOURCE instruction (all inlined copies together)
    for t, why in T.track.items():
        head, _, ins = why.partition(": ")
        groups.setdefault((head.split(">")[-1], ins), []).append(t)
    glit = {}
    for i, (key, ts) in enumerate(sorted(groups.items())):
        g = glit[key] = z3.Bool("g%d" % i)
        opt.add(z3.Implies(g, z3.And([z3.Bool(t) for t in ts])))
        opt.add_soft(g, W_INSTR)
    for n in names:
        opt.add_soft(S.unit_lits[n], W_UNIT)
    if str(opt.check()) != "sat":
        res["causes"].append(("formula", "?", "no diagnosis (optimizer inconclusive)"))
        return
    m = opt.model()
    dropped = [n for n in names if not z3.is_true(m.eval(S.unit_lits[n], model_completion=True))]
    kept = [S.unit_lits[n] for n in names if n not in dropped]
    off = [key for key, g in sorted(glit.items()) if not z3.is_true(m.eval(g, model_completion=True))]
    fix = []
    for n in dropped:
        v = slot[n]
        l, mm = m.eval(v.l, model_completion=True), m.eval(v.m, model_completion=True)
        fix.append(z3.And(v.l == l, v.m == mm))
        d = (_num(l), _num(mm))
        res["repaired"][n] = d
        res["causes"].append(("unit", n, "parameter %s is declared '%s' %s but the code uses it "
                              "with degree %s" % (n, S.units[n]["units"],
                                                  tuple(S.units[n]["degree"]), d)))
    for fn, ins in off:
        opname = ins.split(" = ")[-1].split(" ")[0]
        if opname == "call":
            opname = ins.split("call ")[1].split("(")[0]
        res["causes"].append(("formula", "%s:%s" % (fn, opname),
                              "operands of mixed degree in %s: %s" % (fn, ins)))
    if off:
        return          # degrees of a system with removed instructions are not meaningful
    res["causes"] += _degree_causes(S, kept, exp, lambda *a: T.check(a), extra=fix)


# ---------------------------------------------------------------------------
# numeric witness search

# Extra evaluation points suggested by the triage of unsat cores (a witness is
# a witness wherever it is found; these only add places to look).
DIRECTED = {
    "triaxial_ellipsoid": [
        {"pars": {"radius_equat_minor": 20.0, "radius_equat_major": 20.0, "radius_polar": 1.0}}],
    "flexible_cylinder": [
        {"pars": {"length": 2.0, "kuhn_length": 1.0, "radius": 0.5}, "q": [3.3, 3.7, 4.1]}],
    "flexible_cylinder_elliptical": [
        {"pars": {"length": 2.0, "kuhn_length": 1.0, "radius": 0.5}, "q": [3.3, 3.7, 4.1]}],
}
SCALINGS = tuple((lam, 1.0) for lam in LAMBDAS) + tuple((1.0, mu) for mu in LAMBDAS)


def _defects_q(name, pars, lam, mu, const_volume, deg, q):
    info = real_model(name).info
    q = Q1D if q is None else np.asarray(q, dtype=float)
    a = observe(name, pars, q=q)
    if not np.any(a["I"] != 0):
        raise ValueError("parameter set rejected by the model's validity test (I == 0)")
    b = observe(name, scale_pars(info, pars, lam, mu, deg), q=q / lam, qxy=(QX / lam, QY / lam))
    res = {}
    for k in a:
        want = expected_factor(k, lam, mu, const_volume) * a[k]
        if not (np.all(np.isfinite(want)) and np.all(np.isfinite(b[k]))):
            continue                      # point outside the model's domain
        ref = np.max(np.abs(want))
        res[k] = float(np.max(np.abs(b[k] - want)) / ref) if ref > 0 else \
            (0.0 if np.max(np.abs(b[k])) == 0 else 1.0)
    return res


def witness_points(info, seed, nseeded):
    pts = [{"tag": t, "pars": p, "q": None} for t, p in parameter_sets(info, seed, nseeded)]
    base = pts[0]["pars"]
    for f in (1e-2, 1e2):       # the defaults far from their usual scale (thresholds, series cut-offs)
        pts.append({"tag": "defaults*%g^degree" % f, "pars": scale_pars(info, base, f, 1.0),
                    "q": list(Q1D / f)})
    for i, d in enumerate(DIRECTED.get(info.id, ())):
        pts.append({"tag": "directed%d" % i, "pars": dict(base, **d["pars"]), "q": d.get("q")})
    return pts


def degree_maps(info, repaired):
    """declared map, all-repaired map, and {param: declared-but-param-repaired map}."""
    declared = par_degrees(info)
    kmap = {}
    for kp in info.parameters.kernel_parameters:
        for k in range(1, kp.length + 1):
            kmap[kp.id + str(k) if kp.length > 1 else kp.id] = kp.id
    allrep, single = dict(declared), {n: dict(declared) for n in repaired}
    for cid, kid in kmap.items():
        if kid in repaired:
            allrep[cid] = single[kid][cid] = tuple(repaired[kid])
    return declared, allrep, single


def judge(name, kind, pars, q, lam, mu, const_volume, deg_main, deg_alt):
    """Decide one (cause, point): observables whose scaling relation fails.
    unit cause: fails under the declared degrees (deg_main) and the defect
    changes when only that parameter is relabelled (deg_alt);
    other causes: fails under deg_main (= declared, after relabelling)."""
    D = _defects_q(name, pars, lam, mu, const_volume, deg_main, q)
    if kind == "unit":
        Dp = _defects_q(name, pars, lam, mu, const_volume, deg_alt, q)
        obs = [k for k in D if k in Dp and D[k] > TOL and abs(D[k] - Dp[k]) > TOL]
    else:
        obs = [k for k in D if D[k] > TOL]
    return {k: D[k] for k in sorted(obs)}


def find_witnesses(name, const_volume, causes, repaired, seed, nseeded):
    """For each cause the first point where it is numerically confirmed."""
    info = real_model(name).info
    declared, allrep, single = degree_maps(info, repaired)
    found, evals = {}, 0
    for pt in witness_points(info, seed, nseeded):
        for lam, mu in SCALINGS:
            for i, (kind, cname, _text) in enumerate(causes):
                if i in found:
                    continue
                main = declared if kind == "unit" else allrep
                alt = single.get(cname) if kind == "unit" else None
                try:
                    fail = judge(name, kind, pt["pars"], pt["q"], lam, mu, const_volume, main, alt)
                    evals += 1
                except Exception:
                    continue
                if fail:
                    k = max(fail, key=lambda o: fail[o])
                    found[i] = {"model": name, "kind": kind, "point": pt["tag"], "pars": pt["pars"],
                                "q": pt["q"], "lambda": lam, "mu": mu, "const_volume": const_volume,
                                "observable": k, "defect": fail[k], "failing": fail,
                                "degrees": {a: list(b) for a, b in main.items() if tuple(b) != (0, 0)},
                                "degrees_alt": None if alt is None else
                                {a: list(b) for a, b in alt.items() if tuple(b) != (0, 0)}}
            if len(found) == len(causes):
                return found, evals
    return found, evals


# ---------------------------------------------------------------------------
# units

VALIDATION_SCALINGS = ((1.7, 1.7), (0.5, 0.5))


def unit(cfg):
    name, seed, quick = cfg
    u = Unit(name)
    info = core.load_model_info(name)
    rec = {"model": name, "status": None, "units": {}, "causes": [], "witnessed": [],
           "undecided": [], "values": 0, "constraints": 0}
    u.r["c13"] = rec
    try:
        S = System(info)
    except irparse.Unsupported as e:
        rec["status"] = "not encoded"
        u.r["not_encoded"].append("%s: %s" % (name, e))
        return u.r
    T = S.T
    rec.update(units=S.units, values=T.nvals, constraints=T.nconstr, leaves=S.leaves,
               inlined=T.inlined, instructions=T.instrs, zero_edge_exemptions=T.exempted,
               externals=sorted(T.externals), const_volume=S.const_volume)
    u.functions("%s [generated C]: %s" % (name, ", ".join(sorted(T.callees))))
    u.r["paths"] = T.inlined
    res = analyse(S, u)
    rec["status"], rec["core"] = res["status"], res["core"][:12]
    rec["repaired"] = {k: list(v) for k, v in res["repaired"].items()}
    u.sample({"model": name, "units": {k: v["units"] for k, v in S.units.items()},
              "leaves": S.leaves, "status": res["status"], "constraints": T.nconstr})
    nseeded = 3
    if res["status"] is None:
        return u.r
    if res["status"] == "typed":
        u.r["vacuity_ok"] += 1              # Query 1 sat: the hypotheses are satisfiable
        # translator validation: the proved relation must hold on the real DLL
        deg = par_degrees(info)
        for tag, pars in parameter_sets(info, seed, 1 if quick else 3):
            for lam, mu in VALIDATION_SCALINGS:
                try:
                    fail = judge(name, "numeric", pars, None, lam, mu, S.const_volume, deg, None)
                except Exception as e:
                    u.note("validation of %s at %s skipped: %r" % (name, tag, e))
                    continue
                if not fail:
                    u.r["validated"] += 1
                    continue
                k = max(fail, key=lambda o: fail[o])
                w = {"model": name, "kind": "numeric", "point": tag, "pars": pars, "q": None,
                     "lambda": lam, "mu": mu, "const_volume": S.const_volume, "observable": k,
                     "defect": fail[k], "failing": fail,
                     "degrees": {a: list(b) for a, b in deg.items() if tuple(b) != (0, 0)},
                     "degrees_alt": None}
                u.r["cex"].append({"obligation": "numeric relation of a typed model",
                                   "key": "C13/%s/numeric:%s" % (name, k), "reproduced": True,
                                   "what": "%s types under its declared units but %s fails the scaling "
                                           "relation by %.3g at %s, lambda=%g mu=%g"
                                           % (name, k, fail[k], tag, lam, mu), "inputs": w})
                return u.r
        return u.r
    causes = list(res["causes"])
    if causes and all(c[0] == "unit" for c in causes):
        causes.append(("residual", "after-relabel", "scaling relation fails even with the repaired labels"))
    rec["causes"] = [list(c) for c in res["causes"]]
    found, evals = find_witnesses(name, S.const_volume, causes, res["repaired"], seed, nseeded)
    rec["witness_evaluations"] = evals
    for i, (kind, cname, text) in enumerate(causes):
        key = "C13/%s/%s:%s" % (name, kind, cname.split(":")[0] if kind == "formula" else cname)
        if i in found:
            w = found[i]
            rec["witnessed"].append(key)
            u.r["cex"].append({
                "obligation": "Query 1 (typing exists)" if res["status"] == "untypable"
                else "Query 2 (output degrees forced)",
                "key": key, "reproduced": True, "inputs": w,
                "what": "%s; numeric witness: %s off by %.3g under lambda=%g mu=%g at %s %s"
                        % (text, w["observable"], w["defect"], w["lambda"], w["mu"], w["point"],
                           {k: w["pars"][k] for k in sorted(w["pars"]) if k not in ("scale", "background")})})
        elif kind != "residual":
            rec["undecided"].append([key, text])
            u.note("UNDECIDED %s: %s (typing fails, no numeric witness in %d evaluations)"
                   % (key, text[:300], evals))
    return u.r


def run(chk):
    claimed, outside = select_models()
    if getattr(chk, "only", None):
        claimed = [n for n in claimed if chk.only in n]
    chk.explanation = (
        "Homogeneity-degree typing of the LLVM IR regenerated from each model's real generated C "
        "source (generate.make_source + convert_type, clang -O0, mem2reg): every SSA value gets "
        "rational unknowns (l, m); instruction rules (vlib/hdeg.py docstring) make any solution a "
        "scaling certificate: by induction over executed instructions, in real arithmetic, scaling "
        "each input x by lambda^l(x) mu^m(x) (lambda, mu > 0) scales each value v by lambda^l(v) "
        "mu^m(v); fcmp requires equal degrees on both sides (a literal 0 is exempt, a non-zero "
        "literal threshold forces degree 0 on the other side; nothing else is exempted), so every "
        "branch and loop count is invariant.  Leaf-function arguments are bound to ParameterTable "
        "slots as the real dispatch code (<id>_Iq/_Iqxy) binds them, slots carry the DECLARED unit "
        "degree, q is (-1,0).  z3 (QF_LRA) decides Query 1 (typing exists) and Query 2 (system and "
        "not(expected output degrees) unsat).  A failed query is diagnosed by unsat core and MaxSAT "
        "(cheapest labels/instructions to drop) and confirmed or not by the numeric relation on the "
        "compiled DLL; typed models are additionally validated numerically.")
    chk.bounds = {"models_claimed": len(claimed), "lambda_mu_witness": list(LAMBDAS),
                  "witness_tolerance": TOL, "seeded_parameter_sets": 3,
                  "typing": "all q and all parameter values (symbolic degrees, no data bound)",
                  "unit_table": {str(k): list(v) for k, v in UNITS.items()}}
    chk.outside = ["outside the claim: " + o for o in outside] + [
        "magnetic kernels (<id>_Imagnetic) and magnetic SLD parameters",
        "the dispersity loop and Python driver (linear in the leaf outputs; C01), covered here only "
        "by the numeric validation at sample points",
        "floating-point rounding (doubles read as reals)"]
    chk.stubs = ["libm functions by rule table (vlib.hdeg.DIMLESS/SAME1/ALLEQ, sqrt, cbrt, pow, atan2); "
                 "all sasmodels library helpers are typed from their real bodies"]
    chk.assumptions = ["lambda > 0, mu > 0",
                       "all elements of one C array share one degree; one degree per struct field",
                       "a value compared (==, !=) with literal 0 is exactly 0 on the equal edge"]
    chk.trusted = ["z3 %s (QF_LRA, Optimize for diagnosis only)" % z3.get_version_string(),
                   "clang-14 -O0 + opt -mem2reg -simplifycfg -instsimplify", "vlib.llsym.irparse",
                   "real-arithmetic model of doubles"]
    results = pmap(unit, [(n, chk.seed, chk.quick) for n in claimed])
    chk.add(results)
    recs = [r.get("c13", {}) for r in results]
    chk.extra["c13"] = {
        "models_typed": sorted(r["model"] for r in recs if r.get("status") == "typed"),
        "models_not_typed": {r["model"]: {"status": r["status"], "causes": r.get("causes"),
                                          "unsat_core": r.get("core"), "witnessed": r.get("witnessed")}
                             for r in recs if r.get("status") in ("untypable", "degrees")},
        "models_undecided_excluded_from_claim": {r["model"]: r["undecided"] for r in recs if r.get("undecided")},
        "models_not_encoded": sorted(r["model"] for r in recs if r.get("status") == "not encoded"),
        "constraints_total": sum(r.get("constraints", 0) for r in recs),
        "values_total": sum(r.get("values", 0) for r in recs),
        "instructions_total": sum(r.get("instructions", 0) for r in recs),
        "unsat_cores": sum(1 for r in recs if r.get("core")),
        "numeric_witnesses": sum(len(r.get("witnessed", ())) for r in recs),
        "units_per_model": {r["model"]: {k: v["units"] for k, v in r.get("units", {}).items()} for r in recs},
        "libm_rule_table": {"degree0_in_degree0_out": sorted(hdeg.DIMLESS), "same": sorted(hdeg.SAME1),
                            "all_equal": sorted(hdeg.ALLEQ)},
    }


def replay(cex):
    w = cex["inputs"]
    name = w["model"]
    deg = {k: tuple(v) for k, v in w["degrees"].items()}
    alt = None if w.get("degrees_alt") is None else {k: tuple(v) for k, v in w["degrees_alt"].items()}
    fail = judge(name, w["kind"], w["pars"], w["q"], w["lambda"], w["mu"], w["const_volume"], deg, alt)
    print("replay %s: %s at lambda=%g mu=%g -> failing observables %s"
          % (cex.get("key"), name, w["lambda"], w["mu"], fail))
    return 1 if fail else 0
