"""C18 -- building a model is atomic under concurrent first use and crashes.

N "processes" (threads run hand-over-hand by ``vlib.sched``) each execute the
REAL ``kerneldll.load_dll`` -> ``make_dll`` -> ``compile_model`` and
``DllModel.make_kernel`` -> ``_load_dll`` against one shared virtual cache
directory (``vlib.vfs``): the scripted compiler writes its output in two
halves with a yield between, rename/replace is atomic, and ``CDLL`` succeeds
only on a complete library.  Which process runs next at every operation that
is visible to the others, and the yield point at which process 0 is killed,
are symbolic integers; z3 decides the feasible alternatives and the explorer
enumerates the interleavings.  Counterexamples (a schedule and a kill point)
are replayed with real OS processes, a real compiler behind a FIFO-gated
wrapper and ``kill -9``.
"""
import hashlib
import json
import os
import re
import select
import shutil
import signal
import subprocess
import sys
import tempfile
import time
import types

import numpy as np
import z3

import vlib
from vlib import symx, vfs as V, sched as S
from vlib.harness import Unit, pmap

from sasmodels import core, generate, kerneldll

MODEL = "sphere"
Q = [0.01, 0.05, 0.1]
PARS = {"scale": 1.0, "background": 0.001, "radius": 50.0, "sld": 1.0, "sld_solvent": 6.0}
VDLL = "/verif-virtual/cache/compiled_models"
KEYBASE = "C18"


# --------------------------------------------------------------------------
# the model run (one explorer path = one interleaving)

class Setup:
    def __init__(self, dtype):
        self.dtype = np.dtype(dtype)
        self.info = core.load_model_info(MODEL)
        self.source = generate.make_source(self.info)["dll"]
        self.ctext = generate.convert_type(self.source, self.dtype)
        self.digest = V.digest(self.ctext)
        self.q = np.array(Q)


_KCODE = {}


def fresh_kerneldll():
    """A new copy of the kerneldll module = the module-level state of an
    independently started process (the source is executed again)."""
    path = kerneldll.__file__
    if path not in _KCODE:
        with open(path) as f:
            _KCODE[path] = compile(f.read(), path, "exec")
    mod = types.ModuleType("sasmodels.kerneldll")
    mod.__file__ = path
    mod.__package__ = "sasmodels"
    exec(_KCODE[path], mod.__dict__)
    return mod


def _proc_main(setup, mod):
    def main(p):
        model = mod.load_dll(setup.source, setup.info, setup.dtype)
        model.make_kernel([setup.q])
        lib = model._dll
        return {"path": model.dllpath, "digest": getattr(lib, "digest", None),
                "complete": lib.inode.complete, "kernels": len(model._kernels)}
    return main


def shared_names(setup, dir_exists, kind):
    """Names in the cache directory that are the same in two single-process
    runs of this process kind (= names another process can know)."""
    runs = []
    for _ in range(2):
        r = run_model(setup, 1, S.ScriptedChooser([]), dir_exists=dir_exists, shared="all", kind=kind)
        runs.append(set(r["touched"]))
        if r["listed"]:
            # the code enumerates the cache directory: every name in it, random
            # temporary names included, is visible to every process
            return "all"
    return runs[0] & runs[1]


def run_model(setup, nproc, chooser, dir_exists=True, shared=None, kind="independent"):
    """One run of N concurrent first loads (+ one fresh load afterwards) on a
    new virtual filesystem under *chooser*.  Returns a plain dict of facts.

    kind "forked": the N processes share the module-level state of kerneldll
    (workers forked after the import); "independent": every process has its
    own copy of the module (interpreters started separately).  The later fresh
    process is always a separately started one."""
    vfs = V.VFS(volatile=[VDLL])
    vfs.shared_names = None if shared == "all" else shared
    if dir_exists:
        vfs.add_dir(VDLL)
    sc = S.Scheduler(chooser)
    vfs.hook = sc.hook
    vfs.owner = sc.current_pid
    patch = V.Patch()

    def bind(mod):
        V.attach_kerneldll(patch, vfs, mod, pid=lambda: 1000 + sc.current_pid())
        patch.set(mod, "SAS_DLL_PATH", VDLL)
        return mod
    try:
        bind(kerneldll)
        final = kerneldll.dll_path(setup.info.id + "_" + generate.tag_source(setup.source),
                                   setup.dtype)
        for _ in range(nproc):
            mod = kerneldll if kind == "forked" else bind(fresh_kerneldll())
            sc.spawn(_proc_main(setup, mod))
        sc.run()
        procs = []
        for p in sc.procs:
            procs.append(_proc_facts(p, setup, final))
        ino = vfs.peek(final)
        quiescent = {"exists": ino is not None,
                     "complete": bool(ino is not None and V.well_formed(ino))}
        ntrace = len(sc.trace)
        fresh = sc.spawn(_proc_main(setup, bind(fresh_kerneldll())))
        sc.run([fresh])
        ff = _proc_facts(fresh, setup, final)
        ino = vfs.peek(final)
        after = {"exists": ino is not None,
                 "complete": bool(ino is not None and V.well_formed(ino))}
        return {"procs": procs, "fresh": ff, "quiescent": quiescent, "after": after,
                "crashed": sc.crashed, "child_killed": sc.child_killed,
                "trace": [list(t) for t in sc.trace[:ntrace]],
                "fresh_trace": [list(t) for t in sc.trace[ntrace:]],
                "final": final, "compiles": vfs.compiles, "listed": vfs.listed,
                "touched": sorted({pth for _o, _l, pth in vfs.log if vfs._is_volatile(pth)}),
                "leftovers": [os.path.basename(f) for f in vfs.listdir(VDLL) if f != final],
                "choices": [(str(s), n, v) for s, n, v in getattr(chooser, "choices", [])]}
    finally:
        sc.shutdown()
        patch.restore()


def _proc_facts(p, setup, final):
    f = {"pid": p.pid, "state": p.state, "exc": None, "exc_type": None, "ok": False,
         "last": p.at[0] if p.at else None, "unsupported": False}
    if p.state == "dead":
        return f
    if p.exc is not None:
        f["exc"] = ("%s: %s" % (type(p.exc).__name__, p.exc))[:300]
        f["exc_type"] = type(p.exc).__name__
        f["unsupported"] = isinstance(p.exc, (V.VfsUnsupported, S.SchedulerError))
        return f
    r = p.result
    f["ok"] = bool(r and r["complete"] and r["digest"] == setup.digest and r["path"] == final
                   and r["kernels"] == 3)
    f["result"] = r
    return f


# --------------------------------------------------------------------------
# unit

def cfg_name(cfg):
    return "N=%d/%s/%s/%s/preempt<=%s/dir=%s/%s/split=%s" % (
        cfg["n"], cfg.get("kind", "independent"), cfg["dtype"], "crash" if cfg["crash"] else "nocrash",
        cfg["bound"], "present" if cfg["dir"] else "absent", cfg["tier"], cfg.get("split", "all"))


def unit(cfg):
    if cfg.get("validate"):
        return validate_unit(cfg)
    name = cfg_name(cfg)
    u = Unit(name, timeout_ms=60000)
    u.functions("sasmodels.kerneldll.load_dll", "sasmodels.kerneldll.make_dll",
                "sasmodels.kerneldll.compile_model", "sasmodels.kerneldll.compile_command",
                "sasmodels.kerneldll.dll_path", "sasmodels.kerneldll.dll_name",
                "sasmodels.kerneldll.DllModel.make_kernel", "sasmodels.kerneldll.DllModel._load_dll",
                "sasmodels.generate.tag_source", "sasmodels.generate.convert_type")
    setup = Setup(cfg["dtype"])
    n = cfg["n"]
    cands = (0,) if cfg["crash"] else ()

    proto = S.SymbolicChooser(crash_candidates=cands, preemption_bound=cfg["bound"])
    A = proto.assumptions()
    if cfg["crash"]:
        A.append(proto.crash_at >= 0)
        A.append(proto.crash_at <= cfg["maxyield"])
    for k, v in enumerate(cfg.get("split") or ()):
        A.append(z3.Int("s%d" % k) == v)
    lo, hi = cfg.get("crash_range", (None, None))
    if lo is not None:
        A += [proto.crash_at >= lo, proto.crash_at <= hi]

    kind = cfg.get("kind", "independent")
    shared = shared_names(setup, cfg["dir"], kind)
    if cfg.get("split") in (None, (0,), (0, 0)) and cfg.get("crash_range", (None,))[0] in (None, 0):
        u.note("names treated as shared between processes (same in two independent runs): %s"
               % ("every name in the cache directory (the code under test enumerates it)" if shared == "all"
                  else sorted(os.path.basename(x) for x in shared)))

    bound = cfg["bound"]
    if shared == "all" and bound is None:
        # every temporary name is a yield point: keep the exploration finite
        bound = 2
        u.note("directory enumeration seen: all names shared, preemption bound 2 applied to this unit")
    budget = 120.0 if cfg["tier"] == "quick" else 300.0
    t_start = time.time()
    failing = [0]

    def fn():
        if time.time() - t_start > budget or failing[0] >= 200:
            # stop: reported as truncated exploration (inconclusive), never as success
            ex.max_paths = 0
        ch = S.SymbolicChooser(crash_candidates=cands, preemption_bound=bound)
        r = run_model(setup, n, ch, dir_exists=cfg["dir"], shared=shared, kind=kind)
        if not (all(f["ok"] for f in r["procs"] if f["state"] != "dead") and r["fresh"]["ok"]):
            failing[0] += 1
        if cfg["crash"] and r["crashed"] is None and r["child_killed"] is None:
            # crash_at beyond the last yield of process 0: the same run as "no crash"
            raise symx.CutPath("infeasible")
        return r

    ex = symx.Explorer(timeout_ms=20000, max_paths=cfg.get("max_paths", 40000), max_forks=4000)
    t0 = time.time()
    paths = ex.explore(fn, A)
    u.absorb(ex, paths)
    u.reachable(name, A)
    u.note("%s: %d interleavings in %.1fs" % (name, len(paths), time.time() - t0))

    seen_labels = set()
    more = {}
    for pi, p in enumerate(paths):
        if p.cut:
            u.error("path cut: %s" % p.cut)
            continue
        if p.exc is not None:
            u.error("harness failure inside the model run: %r" % (p.exc,))
            continue
        r = p.result
        H = p.constraints()
        bad_stub = [f for f in r["procs"] + [r["fresh"]] if f["unsupported"]]
        if bad_stub:
            u.error("the code under test used an OS facility the virtual filesystem does "
                    "not model: %s" % bad_stub[0]["exc"])
            continue
        if r["crashed"]:
            seen_labels.add("process@" + r["crashed"][2])
        if r["child_killed"]:
            seen_labels.add("compiler@" + r["child_killed"][2])
        if pi < 2:
            u.sample({"config": name, "path": pi, "schedule": r["choices"][:12],
                      "crashed": r["crashed"], "compiler_killed": r["child_killed"],
                      "trace_head": ["p%s:%s" % (t[0], t[2]) if t[0] not in ("crash", "killcc")
                                     else "KILL %s p%s" % ("compiler of" if t[0] == "killcc" else "", t[1])
                                     for t in r["trace"][:14]]})
        live = [f for f in r["procs"] if f["state"] != "dead"]
        # the process whose compiler was killed may report the failed build; what it
        # must not do is return a kernel on anything but a complete, correct library
        excused = r["child_killed"][0] if r["child_killed"] else None
        obl = [
            ("every-live-process-loads-a-complete-library",
             all(f["ok"] or (f["pid"] == excused and f["exc_type"] is not None) for f in live),
             "live-load"),
            ("no-partial-library-under-final-name",
             (not r["quiescent"]["exists"] or r["quiescent"]["complete"]) and
             (not r["after"]["exists"] or r["after"]["complete"]), "partial-left"),
            ("fresh-process-loads-after", r["fresh"]["ok"], "fresh-load"),
        ]
        for oname, ok, oracle in obl:
            if ok:
                u.prove(oname, z3.BoolVal(True), H)
                continue
            key = finding_key(r, oracle)
            if not claim(key):
                u.r["obligations"] += 1
                more[key] = more.get(key, 0) + 1
                continue
            u.prove(oname, z3.BoolVal(False), H, _handler(cfg, r, oracle, key, p))
    for key, cnt in sorted(more.items()):
        u.note("%d further failing interleavings with signature %s (one witness of the signature is "
               "replayed per run; these are not, and their obligations stay undischarged)" % (cnt, key))
    if cfg["crash"]:
        u.note("kill points reached: %s" % sorted(seen_labels))
    return u.r


def finding_key(r, oracle):
    crash = r["crashed"]
    ck = r.get("child_killed")
    where = "kill@%s" % crash[2] if crash else ("compiler-killed@%s" % ck[2] if ck else "no-kill")
    if oracle == "live-load":
        excused = ck[0] if ck else None
        bad = [f for f in r["procs"] if f["state"] != "dead" and not f["ok"]
               and not (f["pid"] == excused and f["exc_type"] is not None)]
        f = bad[0]
        what = "%s@%s" % (f["exc_type"], f["last"]) if f["exc_type"] else "wrong-library"
        return "%s/concurrent-load/%s/%s" % (
            KEYBASE, "with-kill" if crash else ("compiler-killed" if ck else "no-kill"), what)
    if oracle == "partial-left":
        return "%s/partial-library-left-under-final-name/%s" % (KEYBASE, where)
    f = r["fresh"]
    what = "%s@%s" % (f["exc_type"], f["last"]) if f["exc_type"] else "wrong-library"
    return "%s/fresh-load-fails/%s/%s" % (KEYBASE, where, what)


def claim(key):
    """One real replay per finding signature and check run (units run in parallel)."""
    d = os.path.join(vlib.scratch(), "c18-claims")
    os.makedirs(d, exist_ok=True)
    try:
        fd = os.open(os.path.join(d, hashlib.sha1(key.encode()).hexdigest()),
                     os.O_CREAT | os.O_EXCL | os.O_WRONLY)
        os.close(fd)
        return True
    except FileExistsError:
        return False


def _handler(cfg, r, oracle, key, path):
    def handler(m):
        # the schedule of the counterexample = the model's values of s<k>, crash_at
        sched_vals = {}
        for sname, n, v in r["choices"]:
            mv = m.eval(z3.Int(sname), model_completion=True).as_long()
            sched_vals[sname] = mv
            if mv != v:
                raise RuntimeError("model value %s=%d differs from the explored path (%d)" % (sname, mv, v))
        inputs = {"model": MODEL, "dtype": str(np.dtype(cfg["dtype"])), "nproc": cfg["n"],
                  "dir_exists": cfg["dir"], "schedule": sched_vals,
                  "crash": list(r["crashed"]) if r["crashed"] else None,
                  "compiler_killed": list(r["child_killed"]) if r["child_killed"] else None,
                  "kind": cfg.get("kind", "independent"),
                  "trace": r["trace"], "oracle": oracle,
                  "final_name": os.path.basename(r["final"])}
        out = real_replay(inputs)
        what = ("%d concurrent first loads of %r (%s) by %s%s%s: %s" % (
            cfg["n"], MODEL, inputs["dtype"],
            "workers forked after importing sasmodels.kerneldll" if inputs["kind"] == "forked"
            else "separately started processes",
            ", process 0 killed at its yield #%d (%s)" % (r["crashed"][1], r["crashed"][2])
            if r["crashed"] else "",
            ", the compiler of process %d killed (-9) at %s" % (r["child_killed"][0], r["child_killed"][2])
            if r["child_killed"] else "", out["summary"]))
        return {"reproduced": oracle in out["violated"], "key": key, "what": what,
                "inputs": inputs, "detail": out, "block": z3.And(*path.pc) if path.pc else None}
    return handler


# --------------------------------------------------------------------------
# real replay: OS processes, FIFO-gated compiler, kill -9

AGENT = r'''
import json, os, sys
ctl = os.environ.get("VERIF_CTL")
state = {"req": None, "ack": None}
def open_gates(me):
    state["req"] = open(os.path.join(ctl, "req.%s" % me), "w")
    state["ack"] = open(os.path.join(ctl, "ack.%s" % me), "r")
def gate(label, path=""):
    state["req"].write(json.dumps({"gate": label, "path": str(path)}) + "\n"); state["req"].flush()
    if not state["ack"].readline():
        os._exit(98)
KFILE = os.path.join("sasmodels", "kerneldll.py")
PY = {("genericpath", "exists"): "exists", ("genericpath", "isfile"): "exists",
      ("genericpath", "isdir"): "exists", ("posixpath", "lexists"): "exists",
      ("genericpath", "getmtime"): "getmtime", ("genericpath", "getsize"): "exists",
      ("os", "makedirs"): "makedirs", ("tempfile", "mkstemp"): "mkstemp",
      ("tempfile", "NamedTemporaryFile"): "mkstemp", ("os", "fdopen"): "fdopen",
      ("subprocess", "check_output"): "spawn-cc", ("subprocess", "check_call"): "spawn-cc",
      ("subprocess", "run"): "spawn-cc", ("subprocess", "call"): "spawn-cc",
      ("glob", "glob"): "listdir", ("glob", "iglob"): "listdir",
      ("ctypes", "CDLL.__init__"): "dlopen"}
C = {"open": "open", "replace": "replace", "rename": "replace", "unlink": "unlink",
     "remove": "unlink", "mkdir": "makedirs", "chmod": "chmod", "listdir": "listdir",
     "scandir": "listdir"}
def hook(frame, event, arg):
    if event == "call":
        back = frame.f_back
        if back is not None and back.f_code.co_filename.endswith(KFILE):
            co = frame.f_code
            fn = co.co_filename
            for (mod, qual), label in PY.items():
                if co.co_qualname == qual and mod in fn:
                    loc = frame.f_locals
                    gate(label, loc.get("path", loc.get("name", "")))
                    break
    elif event == "c_call":
        if frame.f_code.co_filename.endswith(KFILE):
            name = getattr(arg, "__name__", "")
            owner = type(getattr(arg, "__self__", None)).__name__
            if name in ("__exit__", "close"):
                if owner in ("TextIOWrapper", "BufferedWriter", "BufferedReader", "FileIO"):
                    gate("close")
                elif owner == "module":
                    gate("close-fd")
            elif name == "write":
                if owner in ("TextIOWrapper", "BufferedWriter", "FileIO"):
                    gate("write")
            elif name in C and owner == "module":
                gate(C[name])
sys.path.insert(0, os.environ["VERIF_REPO"])

def do_load(gated):
    try:
        import numpy as np
        from sasmodels import core, generate, kerneldll
        from sasmodels.direct_model import call_kernel
        spec = json.loads(os.environ["VERIF_SPEC"])
        info = core.load_model_info(spec["model"])
        source = generate.make_source(info)["dll"]
        dtype = np.dtype(spec["dtype"])
        q = np.array(spec["q"])
        if gated:
            sys.setprofile(hook)
        try:
            model = kerneldll.load_dll(source, info, dtype)
            kernel = model.make_kernel([q])
        finally:
            sys.setprofile(None)
        val = call_kernel(kernel, spec["pars"])
        return {"ok": True, "value": [float(v) for v in val], "dll": model.dllpath}
    except BaseException as e:
        return {"ok": False, "error": ("%s: %s" % (type(e).__name__, e))[:400],
                "exc_type": type(e).__name__}

if os.environ.get("VERIF_MODE") == "zygote":
    # parent imports sasmodels (module-level state is created once), then forks the workers
    import numpy as np
    from sasmodels import core, generate, kerneldll
    from sasmodels.direct_model import call_kernel
    procs = json.loads(sys.stdin.readline())
    kids = {}
    for me in procs:
        c = os.fork()
        if c == 0:
            os.setsid()
            os.environ["VERIF_PROC"] = str(me)
            open_gates(me)
            out = do_load(True)
            with open(os.path.join(ctl, "result.%s" % me), "w") as f:
                json.dump(out, f)
            os._exit(0)
        kids[c] = me
        sys.stdout.write("FORKED %s %d\n" % (me, c)); sys.stdout.flush()
    while kids:
        c, status = os.wait()
        me = kids.pop(c, None)
        if me is not None:
            with open(os.path.join(ctl, "exit.%s.tmp" % me), "w") as f:
                f.write(str(status))
            os.rename(os.path.join(ctl, "exit.%s.tmp" % me), os.path.join(ctl, "exit.%s" % me))
else:
    me = os.environ.get("VERIF_PROC")
    gated = bool(ctl) and me is not None
    if gated:
        open_gates(me)
    out = do_load(gated)
    print("RESULT " + json.dumps(out))
    sys.stdout.flush()
'''

FAKECC = r'''#!%(python)s
# scripted compiler: real cc into a private file, then the output in two halves
import hashlib, json, os, subprocess, sys
args = sys.argv[1:]
ctl = os.environ["VERIF_CTL"]; me = os.environ.get("VERIF_PROC")
i = args.index("-o"); out = args[i + 1]
tmp = os.path.join(ctl, "img.%%d" %% os.getpid())
a2 = list(args); a2[i + 1] = tmp
r = subprocess.run([os.environ.get("VERIF_REAL_CC", "cc")] + a2, stdout=subprocess.PIPE,
                   stderr=subprocess.STDOUT)
if r.returncode:
    sys.stdout.buffer.write(r.stdout); sys.exit(r.returncode)
data = open(tmp, "rb").read(); os.unlink(tmp)
with open(os.path.join(ctl, "complete.sha"), "a") as f:
    f.write(hashlib.sha256(data).hexdigest() + "\n")
gated = me is not None
if gated:
    req = open(os.path.join(ctl, "req.%%s" %% me), "w")
    ack = open(os.path.join(ctl, "ack.%%s" %% me), "r")
def gate(label):
    if gated:
        req.write(json.dumps({"gate": label, "path": out, "ospid": os.getpid()}) + "\n"); req.flush()
        if not ack.readline():
            os._exit(98)
half = len(data) // 2
gate("cc-half1")
try:
    os.unlink(out)          # like GNU ld: remove an existing output, create a new file
except FileNotFoundError:
    pass
fd = os.open(out, os.O_WRONLY | os.O_CREAT | os.O_TRUNC, 0o755)
os.write(fd, data[:half])
gate("cc-half2")
os.write(fd, data[half:])
os.close(fd)
'''


class Desync(Exception):
    pass


class RealWorld:
    """N real python processes + scripted compiler under hand-over-hand control."""
    WAIT = 90.0

    def __init__(self, spec):
        self.spec = spec
        self.root = tempfile.mkdtemp(prefix="c18-replay-", dir=vlib.scratch())
        self.ctl = os.path.join(self.root, "ctl")
        self.dll = os.path.join(self.root, "cache", "compiled_models")
        os.makedirs(self.ctl)
        os.makedirs(os.path.dirname(self.dll))
        if spec.get("dir_exists", True):
            os.makedirs(self.dll)
        self.agent = os.path.join(self.root, "agent.py")
        with open(self.agent, "w") as f:
            f.write(AGENT)
        self.cc = os.path.join(self.root, "fakecc")
        with open(self.cc, "w") as f:
            f.write(FAKECC % {"python": sys.executable})
        os.chmod(self.cc, 0o755)
        self.procs = {}
        self.fds = {}
        self.buf = {}
        self.log = []
        self.forked = {}            # pid -> OS pid of a worker forked by the zygote
        self.zygote = None

    def env(self, pid=None, dll=None):
        e = dict(os.environ)
        for k in ("SAS_COMPILER", "CPPFLAGS", "LDFLAGS", "LIBS", "VERIF_PROC", "SAS_MODELPATH"):
            e.pop(k, None)
        e.update(SAS_DLL_PATH=dll or self.dll, CC=self.cc, CFLAGS="-std=c99 -O1",
                 SAS_OPENCL="none", PYTHONDONTWRITEBYTECODE="1", HOME=self.root,
                 VERIF_CTL=self.ctl, VERIF_REPO=vlib.REPO,
                 VERIF_SPEC=json.dumps({"model": self.spec["model"], "dtype": self.spec["dtype"],
                                        "q": Q, "pars": PARS}))
        if pid is not None:
            e["VERIF_PROC"] = str(pid)
        return e

    def _fifos(self, pid):
        req = os.path.join(self.ctl, "req.%d" % pid)
        ack = os.path.join(self.ctl, "ack.%d" % pid)
        os.mkfifo(req)
        os.mkfifo(ack)
        self.fds[pid] = (os.open(req, os.O_RDWR | os.O_NONBLOCK), os.open(ack, os.O_RDWR))
        self.buf[pid] = b""

    def start_forked(self, pids):
        """Workers forked from one parent that has already imported sasmodels."""
        for pid in pids:
            self._fifos(pid)
        env = self.env()
        env["VERIF_MODE"] = "zygote"
        self.zygote = subprocess.Popen([sys.executable, self.agent], env=env, stdin=subprocess.PIPE,
                                       stdout=subprocess.PIPE, stderr=subprocess.PIPE, cwd=self.root)
        self.zygote.stdin.write((json.dumps(list(pids)) + "\n").encode())
        self.zygote.stdin.flush()
        for _ in pids:
            line = self.zygote.stdout.readline().decode().split()
            if len(line) != 3 or line[0] != "FORKED":
                raise Desync("zygote did not fork: %r %s" % (line, self.zygote.stderr.read()[-300:]))
            self.forked[int(line[1])] = int(line[2])

    def exited(self, pid):
        if pid in self.forked:
            return os.path.exists(os.path.join(self.ctl, "exit.%d" % pid))
        return self.procs[pid].poll() is not None

    def start(self, pid):
        self._fifos(pid)
        self.procs[pid] = subprocess.Popen(
            [sys.executable, self.agent], env=self.env(pid), stdout=subprocess.PIPE,
            stderr=subprocess.PIPE, start_new_session=True, cwd=self.root)

    def next_gate(self, pid):
        """The next gate of process *pid*, or None when it has exited."""
        fd = self.fds[pid][0]
        deadline = time.time() + self.WAIT
        while True:
            if b"\n" in self.buf[pid]:
                line, self.buf[pid] = self.buf[pid].split(b"\n", 1)
                return json.loads(line)
            r, _, _ = select.select([fd], [], [], 0.02)
            if r:
                try:
                    self.buf[pid] += os.read(fd, 65536)
                    continue
                except BlockingIOError:
                    pass
            elif self.exited(pid):
                r, _, _ = select.select([fd], [], [], 0)
                if not r:
                    return None
            if time.time() > deadline:
                raise Desync("process %d reached no gate within %gs" % (pid, self.WAIT))

    def grant(self, pid):
        os.write(self.fds[pid][1], b"go\n")

    def kill(self, pid):
        if pid in self.forked:
            try:
                os.killpg(self.forked[pid], signal.SIGKILL)
            except ProcessLookupError:
                pass
            deadline = time.time() + self.WAIT
            while not self.exited(pid) and time.time() < deadline:
                time.sleep(0.01)
            return
        p = self.procs[pid]
        try:
            os.killpg(p.pid, signal.SIGKILL)
        except ProcessLookupError:
            pass
        p.wait()

    def kill_compiler(self, gate_msg):
        os.kill(int(gate_msg["ospid"]), signal.SIGKILL)

    def result(self, pid):
        if pid in self.forked:
            path = os.path.join(self.ctl, "result.%d" % pid)
            if os.path.exists(path):
                with open(path) as f:
                    return json.load(f)
            try:
                with open(os.path.join(self.ctl, "exit.%d" % pid)) as f:
                    status = int(f.read())
            except Exception:
                status = None
            return {"ok": False, "error": "process died, wait status %s (signal %s)"
                    % (status, status & 0x7f if status is not None else "?")}
        p = self.procs[pid]
        try:
            out, err = p.communicate(timeout=self.WAIT)
        except subprocess.TimeoutExpired:
            self.kill(pid)
            return {"ok": False, "error": "timeout"}
        for line in out.decode("utf8", "replace").splitlines():
            if line.startswith("RESULT "):
                return json.loads(line[7:])
        return {"ok": False, "error": "process died rc=%s: %s" % (p.returncode, err.decode("utf8", "replace")[-300:])}

    def free_run(self, dll=None, gated=False, pid=90):
        """One process run to completion; with *gated* every gate is granted at
        once and the label sequence is returned."""
        labels = []
        if gated:
            self.start(pid)
            while True:
                g = self.next_gate(pid)
                if g is None:
                    break
                labels.append(g["gate"])
                self.grant(pid)
            return self.result(pid), labels
        p = subprocess.run([sys.executable, self.agent], env=self.env(None, dll),
                           stdout=subprocess.PIPE, stderr=subprocess.PIPE, cwd=self.root,
                           timeout=300)
        for line in p.stdout.decode("utf8", "replace").splitlines():
            if line.startswith("RESULT "):
                return json.loads(line[7:]), labels
        return {"ok": False, "error": "process died rc=%s: %s" % (
            p.returncode, p.stderr.decode("utf8", "replace")[-300:])}, labels

    def follow(self, nproc, trace, kind="independent"):
        if kind == "forked":
            self.start_forked(range(nproc))
        else:
            for pid in range(nproc):
                self.start(pid)
        pending = {pid: self.next_gate(pid) for pid in range(nproc)}
        killed = set()
        for step in trace:
            if step[0] == "killcc":
                _, pid, k, label = step
                g = pending[pid]
                if g is None or g["gate"] != label or "ospid" not in g:
                    raise Desync("compiler kill point: model process %d is at %r, real process at %r"
                                 % (pid, label, g))
                self.kill_compiler(g)
                self.log.append("KILL -9 the compiler of p%d at %s" % (pid, label))
                pending[pid] = self.next_gate(pid)
                continue
            if step[0] == "crash":
                _, pid, k, label = step
                g = pending[pid]
                if g is None or g["gate"] != label:
                    raise Desync("kill point: model process %d is at %r, real process at %r"
                                 % (pid, label, g))
                self.kill(pid)
                killed.add(pid)
                pending[pid] = None
                self.log.append("KILL -9 p%d (and its compiler) at %s" % (pid, label))
                continue
            pid, k, label, path = step
            g = pending[pid]
            if g is None or g["gate"] != label:
                raise Desync("step %r: real process %d is at %r" % (step, pid, g))
            self.grant(pid)
            self.log.append("p%d:%s" % (pid, label))
            pending[pid] = self.next_gate(pid)
        for pid, g in pending.items():
            if g is not None:
                raise Desync("model process %d finished, real process still at %r" % (pid, g))
        return {pid: self.result(pid) for pid in range(nproc) if pid not in killed}, killed

    def complete_images(self):
        try:
            with open(os.path.join(self.ctl, "complete.sha")) as f:
                return set(f.read().split())
        except FileNotFoundError:
            return set()

    def final_state(self, basename):
        path = os.path.join(self.dll, basename)
        if not os.path.exists(path):
            return {"exists": False, "complete": False}
        with open(path, "rb") as f:
            sha = hashlib.sha256(f.read()).hexdigest()
        return {"exists": True, "complete": sha in self.complete_images(),
                "size": os.path.getsize(path)}

    def close(self):
        for pid in list(self.forked):
            if not self.exited(pid):
                self.kill(pid)
        if self.zygote is not None:
            try:
                self.zygote.stdin.close()
                self.zygote.wait(timeout=10)
            except Exception:
                self.zygote.kill()
            for st in (self.zygote.stdout, self.zygote.stderr):
                st.close()
        for pid in list(self.procs):
            if self.procs[pid].poll() is None:
                self.kill(pid)
            for s in (self.procs[pid].stdout, self.procs[pid].stderr):
                try:
                    s.close()
                except Exception:
                    pass
        for a, b in self.fds.values():
            os.close(a)
            os.close(b)
        shutil.rmtree(self.root, ignore_errors=True)


def _value_ok(res, ref):
    if not res.get("ok"):
        return False
    if ref is None:         # no reference values (even an undisturbed build fails)
        return True
    return bool(np.allclose(res["value"], ref["value"], rtol=1e-5, atol=0))


def real_replay(inputs):
    """Replay one schedule / kill point with real processes.  Returns the set of
    violated oracles as observed on the real system."""
    w = RealWorld(inputs)
    try:
        ref, _ = w.free_run(dll=os.path.join(w.root, "refcache"))
        basename = inputs.get("final_name")
        if not ref.get("ok"):
            ref = None
        elif not basename:
            basename = os.path.basename(ref["dll"])
        try:
            results, killed = w.follow(inputs["nproc"], inputs["trace"], inputs.get("kind", "independent"))
        except Desync as e:
            return {"violated": [], "summary": "replay lost step with the model: %s" % e,
                    "desync": True, "log": w.log[-30:]}
        violated = set()
        ck = inputs.get("compiler_killed")
        excused = ck[0] if ck else None     # may report its failed build, must not return a bad kernel
        bad = {pid: r for pid, r in results.items() if not _value_ok(r, ref)
               and not (pid == excused and not r.get("ok") and r.get("exc_type"))}
        if bad:
            violated.add("live-load")
        quiescent = w.final_state(basename)
        fresh, _ = w.free_run()
        after = w.final_state(basename)
        if (quiescent["exists"] and not quiescent["complete"]) or \
                (after["exists"] and not after["complete"]):
            violated.add("partial-left")
        if not _value_ok(fresh, ref):
            violated.add("fresh-load")
        parts = []
        for pid, r in sorted(bad.items()):
            parts.append("process %d fails: %s" % (pid, r.get("error", "wrong values %s" % r.get("value"))))
        if "partial-left" in violated:
            parts.append("truncated %s (%s bytes) left under the final cache name"
                         % (basename, quiescent.get("size", after.get("size"))))
        if "fresh-load" in violated:
            parts.append("a later fresh process fails: %s" % fresh.get("error", fresh.get("value")))
        if not parts:
            parts.append("all real processes loaded and evaluated correctly")
        return {"violated": sorted(violated), "summary": "; ".join(parts),
                "results": {str(k): v for k, v in results.items()}, "fresh": fresh,
                "quiescent": quiescent, "after": after, "reference": ref and ref["value"],
                "log": w.log[-40:]}
    finally:
        w.close()


def replay(cex):
    out = real_replay(cex["inputs"])
    print("real processes:", out["summary"])
    print("violated on the real system:", out["violated"])
    return 1 if cex["inputs"]["oracle"] in out["violated"] else 0


# --------------------------------------------------------------------------
# validation of the model against the real system (one process, no contention)

def validate_unit(cfg):
    u = Unit("validate/model-trace-vs-real-process/%s" % cfg["dtype"])
    setup = Setup(cfg["dtype"])
    r = run_model(setup, 1, S.ScriptedChooser([]), dir_exists=True, shared="all")
    model_labels = [t[2] for t in r["trace"]]
    model_fresh = [t[2] for t in r["fresh_trace"]]
    w = RealWorld({"model": MODEL, "dtype": str(np.dtype(cfg["dtype"])), "dir_exists": True})
    try:
        res1, real_labels = w.free_run(gated=True, pid=90)
        res2, real_fresh = w.free_run(gated=True, pid=91)
        ok = (real_labels == model_labels and real_fresh == model_fresh
              and bool(res1.get("ok")) == r["procs"][0]["ok"]
              and bool(res2.get("ok")) == r["fresh"]["ok"])
        if ok:
            u.r["validated"] += 2
        else:
            u.r["validation_fail"] += 1
            u.error("validation: operation sequence of a real first load %r / cached load %r "
                    "differs from the model's %r / %r (results %r %r)"
                    % (real_labels, real_fresh, model_labels, model_fresh, res1, res2))
        # the real tag in the library name is the model's
        if res1.get("ok") and os.path.basename(res1["dll"]) != os.path.basename(r["final"]):
            u.r["validation_fail"] += 1
            u.error("validation: real library name %s, model %s" % (res1["dll"], r["final"]))
        u.sample({"real_first_load_operations": real_labels, "real_cached_load_operations": real_fresh,
                  "library": os.path.basename(r["final"])})
    finally:
        w.close()
    u.r["obligations"] += 1
    u.r["discharged"] += 1 if not u.r["errors"] else 0
    u.r["paths"] += 1
    return u.r


# --------------------------------------------------------------------------

def configs(chk):
    out = [{"validate": True, "dtype": "float64", "tier": chk.tier}]
    def add(n, bound, crash, dtype="float64", d=True, splits=(None,), ranges=((None, None),),
            maxyield=40, kinds=("independent", "forked")):
        for kind in kinds:
            for sp in splits:
                for rg in ranges:
                    out.append({"n": n, "bound": bound, "crash": crash, "dtype": dtype, "dir": d,
                                "split": sp, "crash_range": rg, "tier": chk.tier,
                                "maxyield": maxyield, "kind": kind})
    two = [(0,), (1,)]
    three = [(0,), (1,), (2,)]
    cr = ((0, 3), (4, 6), (7, 9), (10, 40))
    if chk.quick:
        add(2, None, False, splits=two)
        add(2, None, True, splits=two, ranges=cr)
        add(3, 2, False, splits=three)
        add(3, 2, True, splits=three, ranges=cr)
        add(2, None, False, dtype="float32", splits=two, kinds=("independent",))
    else:
        add(2, None, False, splits=two)
        add(2, None, True, splits=two, ranges=cr)
        add(2, None, True, d=False, splits=two, ranges=cr, kinds=("independent",))
        add(2, None, False, dtype="float32", splits=two, kinds=("independent",))
        add(3, None, False, splits=[(a, b) for a in range(3) for b in range(3)])
        add(3, None, True, splits=[(a, b) for a in range(3) for b in range(3)], ranges=cr)
        add(4, 3, False, splits=[(a, b) for a in range(4) for b in range(4)], kinds=("independent",))
        add(4, 2, True, splits=[(a, b) for a in range(4) for b in range(4)], ranges=cr, kinds=("independent",))
    return out


def run(chk):
    chk.explanation = (
        "The real kerneldll.load_dll/make_dll/compile_model/DllModel._load_dll run in N scheduler-"
        "controlled threads against one shared virtual cache directory (vlib.vfs: inodes, atomic "
        "rename, two-half scripted compiler, dlopen only of complete libraries).  The process "
        "resumed at every operation visible to other processes (s<k>) and the yield point at which "
        "process 0 is killed (crash_at) are symbolic integers; z3 decides which alternatives are "
        "feasible (choice range, preemption bound, unit split) and the symx explorer enumerates the "
        "interleavings as paths.  On every path: every live process holds a complete library of the "
        "requested source and precision without an exception; no partial file is left under the "
        "final cache name; a fresh process loads successfully afterwards.  Counterexamples are "
        "replayed step by step with real OS processes (profile-hook gates at the same operations, "
        "FIFO-gated wrapper around the real cc, kill -9 of the process group).")
    chk.bounds = {
        "processes": "2 (all interleavings) and 3 (preemption bound 2)" if chk.quick else
                     "2 and 3 (all interleavings, with and without a kill), 4 (preemption bound 3 without kill, 2 with kill)",
        "kill points": "every yield point (filesystem operation, compiler half) of process 0, at most one kill per run; "
                       "kill target (symbolic): the process together with its compiler, or - at the compiler's "
                       "yield points - the compiler child alone (subprocess then reports return code -9)",
        "process kinds": "separately started interpreters (each with its own copy of kerneldll's module-level "
                         "state) and workers forked after sasmodels.kerneldll was imported (shared module-level state)",
        "model": "%s, float64 and float32" % MODEL,
        "compiler": "output written in two halves, one yield between",
    }
    chk.outside = [
        "more than one kill per run; signals other than an immediate kill",
        "compilers that write the output in more than two steps or through their own temporary name",
        "non-POSIX rename semantics (Windows replace of a loaded DLL), network filesystems",
        "power loss (no fsync modelling): a completed write is durable",
        "more than %d processes; interleavings beyond the preemption bound for N>=3" % (3 if chk.quick else 4),
        "OpenCL/CUDA program caches (kernelcl/kernelcuda)",
        "user-space buffering of file writes (in the model a write is visible at once; only matters "
        "for files that other processes know the name of)",
    ]
    chk.stubs = [
        "kerneldll.os -> vfs.OsShim (path.exists, makedirs, fdopen, unlink, replace/rename on virtual inodes)",
        "kerneldll.tempfile -> vfs.TempfileShim (mkstemp: unique private names)",
        "kerneldll.subprocess -> vfs.SubprocessShim: scripted compiler (unlink+create output, first half, yield, second half)",
        "kerneldll.ct -> vfs.CtShim: CDLL raises OSError unless the file is complete; symbols looked up in the compiled text",
        "kerneldll.open -> vfs.open (non-atomic write: empty file visible between open and close)",
        "kerneldll.SAS_DLL_PATH -> virtual cache directory",
    ]
    chk.assumptions = [
        "a killed process performs no further filesystem operation and its compiler dies with it; a killed "
        "compiler leaves what it has written and its parent sees a negative return code; the process whose "
        "compiler was killed may raise, but must not return a kernel on anything but a complete library",
        "names that are equal in two runs of the same process kind are shared between processes "
        "(module-level values are equal in forked workers, re-created in separately started ones)",
        "partial-order reduction: operations on files whose name only the calling process knows "
        "(mkstemp) and reads of paths nobody writes commute with all operations of other processes",
        "processes are identical, so the killed one is process 0 without loss of generality",
        "rename/replace within the cache directory is atomic; unlink+create by the linker gives a new inode",
    ]
    chk.trusted.append("vlib.vfs / vlib.sched (validated on every run: the operation sequence of a "
                       "real gated process equals the model's)")
    cfgs = configs(chk)
    if getattr(chk, "only", None):
        cfgs = [c for c in cfgs if chk.only in (cfg_name(c) if not c.get("validate") else "validate")]
    shutil.rmtree(os.path.join(vlib.scratch(), "c18-claims"), ignore_errors=True)
    results = pmap(unit, cfgs)
    table = {}
    for r in results:
        k = re.sub(r"/split=.*$", "", r["unit"])
        t = table.setdefault(k, {"units": 0, "interleavings": 0, "obligations": 0, "discharged": 0,
                                 "unit_wall_s": 0.0})
        t["units"] += 1
        t["interleavings"] += r["paths"]
        t["obligations"] += r["obligations"]
        t["discharged"] += r["discharged"]
        t["unit_wall_s"] = round(t["unit_wall_s"] + r.get("wall_s", 0.0), 1)
    chk.extra["per_configuration"] = table
    chk.add(results)
