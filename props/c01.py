"""C01 -- dispersity-averaged I(q) is the documented volume-normalised weighted mean.

The real Python driver (details.make_kernel_args/make_details,
kerneldll.DllModel.make_kernel, DllKernel._call_kernel chunk loop,
kernel.Kernel.Fq/Iq) runs on z3 proxies; its ctypes call is served by the IR
interpreter executing the exported kernel of the model's real generated C
source (regenerated and recompiled to IR on this run).  Leaf functions (Iq,
Fq, form_volume, shell_volume, radius_effective) are uninterpreted; every
value, distribution point, weight, q and the cutoff are symbolic reals; the
result buffer starts with arbitrary contents.  Obligations compare the
accumulators and the returned intensity with vlib.kharness.Reference.
"""
import itertools
import random

import numpy as np
import z3

from vlib import symx, kharness
from vlib.harness import Unit, pmap
from vlib.kharness import KModel, Reference, sym_mesh
from vlib.symx import Sym, term

from sasmodels import core, details as sdetails, direct_model


def c_models():
    out = []
    for name in core.list_models():
        info = core.load_model_info(name)
        if not callable(info.Iq):
            out.append(name)
    return out


def pd_params(info, dim):
    return [p.id for p in info.parameters.call_parameters[2:2 + info.parameters.npars]
            if p.polydisperse and (dim == "2d" or p.type != "orientation")]


# ---------------------------------------------------------------------------

def _run(km, mesh, q, cutoff, mode, dim, want):
    """Execute the real driver on proxies.  Returns dict of outputs."""
    model = km.make_model()
    if dim == "1d":
        kern = model.make_kernel([q])
    else:
        kern = model.make_kernel([q[0::2], q[1::2]])
    stale = [term(x) for x in kern.result]
    cd, values, is_mag = sdetails.make_kernel_args(kern, mesh)
    out = {"stale": stale, "num_eval": int(cd.num_eval), "is_mag": bool(is_mag)}
    if want == "call":
        # the chunk loop only (H3): no Python-level post-processing forks
        kern._call_kernel(cd, values, cutoff, is_mag, mode)
    elif want == "Iq":
        out["Iq"] = [term(x) for x in kern.Iq(cd, values, cutoff, is_mag)]
    else:
        F1, F2, R, Vs, ratio = kern.Fq(cd, values, cutoff, is_mag, mode)
        out["Fq"] = (None if F1 is None else [term(x) for x in F1], [term(x) for x in F2],
                     term(R), term(Vs), term(ratio))
    out["buffer"] = [term(x) for x in kern.result]
    out["side"] = list(model.side)
    out["defs"] = list(model.defs)
    out["calls"] = list(model.calls)
    out["steps"] = model.steps
    out["called"] = sorted(model.called)
    return out


def _prove_side(u, side, H, mk):
    """In-bounds / int32-range / non-zero-divisor side conditions of the
    interpreted kernel: one query for the conjunction, split only on failure."""
    if not side:
        return
    seen, conds = set(), []
    for desc, c in side:
        if c.get_id() not in seen:
            seen.add(c.get_id())
            conds.append((desc, c))
    r, _m, _s = u.solve(symx.abstract_ufs(list(H) + [z3.Not(z3.And(*[c for _d, c in conds]))]))
    u.r["obligations"] += 1
    if r == "unsat":
        u.r["discharged"] += 1
        return
    u.r["obligations"] -= 1
    for desc, c in conds:
        u.prove("side:" + desc, c, H, mk(desc), abstract=True)


def unit_h1(cfg):
    name, dim, lengths, mode, want = cfg[:5]
    pid = cfg[5] if len(cfg) > 5 else "C01"
    magnetic = cfg[6] if len(cfg) > 6 else False
    gates_open = cfg[7] if len(cfg) > 7 else False
    ext_cfg = cfg[8] if len(cfg) > 8 else False     # thorough-only configuration: extended obligations
    label = "H1/%s/%s/%s/mode=%s/%s" % (name, dim, ",".join("%s=%d" % kv for kv in sorted(lengths.items())) or "mono", mode, want)
    if magnetic:
        label += "/magnetic=" + ("all" if magnetic is True else "+".join(sorted(magnetic)))
    u = Unit(label, timeout_ms=30000)
    try:
        km = KModel.get(name)
    except Exception as e:
        u.r["not_encoded"].append("%s: %r" % (name, e))
        u.error("IR build/parse failed for %s: %r" % (name, e))
        return u.r
    info = km.info
    mesh, syms = sym_mesh(info, lengths, dim, magnetic=magnetic, unit_weights=bool(gates_open))
    nq = 2 if dim == "1d" else 1
    q = symx.oarray([symx.real("q%d" % i) for i in range(nq * (1 if dim == "1d" else 2))])
    cutoff = symx.real("cutoff")
    A = kharness.mesh_constraints(syms) + [cutoff.t >= 0]
    ref_plain = Reference(km, mesh, q, cutoff, mode, dim)
    if gates_open:
        # larger meshes: every weight exceeds the cutoff and every point is valid
        # (the gate semantics is covered by the small-mesh configurations)
        label += "/gates-open"
        u.r["unit"] = label
        # (unit weights, zero cutoff: the weights' routing is covered by the small meshes)
        A.append(cutoff.t == 0)
        A.extend(pt["gate"] for pt in ref_plain.points)
    ref_mag = None
    if magnetic:
        ref_mag = Reference(km, mesh, q, cutoff, mode, dim, magnetic=True)
        # the q=0 guard is code, not property; a channel weight is either 0 or above the
        # kernel's 1e-8 threshold (contributions below it are outside the claim)
        A.append(q[0].t * q[0].t + q[1].t * q[1].t > symx.rat(1e-16))
        for wc in ref_mag.channel_weights:
            A.append(z3.Or(wc == 0, wc > symx.rat(1e-8)))
    import os as _os, time as _time
    thorough = _os.environ.get("VERIF_TIER_EFFECTIVE") == "thorough"
    # thorough-tier configurations are extended obligations with a wall budget per unit:
    # what does not finish is reported as undecided, never as success and never as an error
    u.extended = thorough or ext_cfg
    mand = not ext_cfg
    budget = _time.time() + (900 if thorough else 3600)
    ex = symx.Explorer(timeout_ms=20000, max_paths=3000, abstract=True)
    ex.deadline = budget if thorough else None
    paths = ex.explore(lambda: _run(km, mesh, q, cutoff, mode, dim, want), A)
    u.absorb(ex, paths)
    u.reachable(label, A)
    ref = ref_plain
    want_buf = ref.buffer()
    scale, background = term(mesh[0][0]), term(mesh[1][0])
    u.functions("%s (IR of generated source: kernel_iq.c template + %s)" % (km.names[0 if dim == "1d" else 1], name),
                "sasmodels.details.make_kernel_args", "sasmodels.details.make_details",
                "sasmodels.details.convert_magnetism",
                "sasmodels.kerneldll.DllModel.make_kernel", "sasmodels.kerneldll.DllKernel.__init__",
                "sasmodels.kerneldll.DllKernel._call_kernel", "sasmodels.kernel.Kernel.Fq",
                "sasmodels.kernel.Kernel.Iq", "sasmodels.kernelpy.PyInput")
    for pi, p in enumerate(paths):
        if thorough and _time.time() > budget:
            u.note("extended unit undecided: wall budget exhausted after %d of %d paths" % (pi, len(paths)))
            u.r["undecided_extended"] = u.r.get("undecided_extended", 0) + 1
            break
        if p.cut:
            u.error("path cut: %s" % p.cut)
            continue
        H = p.constraints()
        ctx = dict(name=name, dim=dim, lengths=lengths, mode=mode, want=want, syms=syms, q=q,
                   cutoff=cutoff, pid=pid)
        if p.exc is not None:
            u.prove("driver-raises-nothing", z3.BoolVal(False), H,
                    _cex(ctx, "exception:%s" % type(p.exc).__name__, repr(p.exc)))
            continue
        r = p.result
        if magnetic:
            # documented selection: the polarised formula applies iff some magnitude is non-zero
            # (decided from the inputs, not from the flag the code computed on this path)
            m0s = [term(syms[pid][0]) for pid in sorted(syms) if pid.endswith("_M0")
                   and isinstance(syms[pid][0], Sym)]
            anymag = z3.Or(*[t != 0 for t in m0s]) if m0s else z3.BoolVal(False)
            ref = ref_mag
            want_buf = [z3.If(anymag, a, b) for a, b in zip(ref_mag.buffer(), ref_plain.buffer())]
            u.note("path %d: magnetic kernel selected by the code = %s" % (pi, r["is_mag"])) if pi < 2 else None
        defs = set(d.get_id() for d in r["defs"])
        if pi < 3:
            u.sample({"config": label, "path": pi, "kernel_calls": r["calls"],
                      "interpreted_instructions": r["steps"],
                      "path_condition": [str(c)[:100] for c in p.pc if c.get_id() not in defs][:6]})
        got = r["buffer"]
        nres = len(want_buf)
        defs = set(d.get_id() for d in r["defs"])
        H2 = [c for c in H if c.get_id() not in defs]
        want = kharness.align_leaves(u, H2, want_buf, r["defs"])
        ncex = len(u.r["cex"])
        ok = u.prove("accumulators", z3.And(*[got[i] == want[i] for i in range(nres)]), H,
                     _cex(ctx, "accumulators"), sample=(pi == 0), abstract=True, mandatory=mand)
        if not ok and not any(c.get("reproduced") for c in u.r["cex"][ncex:]):
            kharness.search_witness(u, H2, _cex(ctx, "leaf-arguments"))
        _prove_side(u, r["side"], H, lambda d: _cex(ctx, "side:" + d))
        # The outputs are the documented function of the accumulators: stated over
        # the *named* buffer cells (whose equality with the reference sums is the
        # obligation above), without their defining equations.
        nq = ref.nq
        nout = 2 if ref.have_fq else 1
        bF2 = [got[nout * j] for j in range(nq)]
        bF1 = [got[nout * j + 1] for j in range(nq)] if ref.have_fq else None
        W, WVf, WVs, WR = got[nout * nq:nout * nq + 4]
        if "Iq" in r:
            phi, empty = [], []
            for j, I in enumerate(r["Iq"]):
                empty.append(z3.Implies(W == 0, I == background))
                phi.append(z3.Implies(z3.And(W != 0, WVs != 0),
                                      I * WVs == scale * bF2[j] + background * WVs))
            u.prove("Iq-formula", z3.And(*phi), H2, _cex(ctx, "Iq"), abstract=True)
            # no qualifying point => background (needs the cell definitions: W = 0
            # forces every gate closed, hence every accumulator to 0)
            u.prove("Iq-empty-selection-is-background", z3.And(*empty), H, _cex(ctx, "Iq-empty"),
                    abstract=True)
        else:
            F1, F2, R, Vs, ratio = r["Fq"]
            nz = z3.And(W != 0, WVs != 0)
            cs = [F2[j] * W == bF2[j] for j in range(len(F2))]
            if F1 is not None:
                cs += [F1[j] * W == bF1[j] for j in range(len(F1))]
            cs += [R * W == WR, Vs * W == WVs, ratio * WVs == WVf]
            u.prove("Fq-outputs", z3.Implies(nz, z3.And(*cs)), H2, _cex(ctx, "Fq"), abstract=True)
    return u.r


# ---------------------------------------------------------------------------
# H2: the value does not depend on how the mesh is split across kernel calls

def _range_reference(km, mesh, cd, q, cutoff, mode, dim, start, stop, incoming):
    """Incoming accumulators plus the contributions of the mesh points whose
    linear index (real CallDetails strides) lies in [start, stop)."""
    ref = Reference(km, mesh, q, cutoff, mode, dim)
    info = km.info
    npars = info.parameters.npars
    lengths = [len(mesh[2 + i][1]) for i in range(npars)]
    max_pd = info.parameters.max_pd
    slot_of = {int(cd.pd_par[s]): s for s in range(max_pd)}
    strides = [int(x) for x in cd.pd_stride[:max_pd]]
    nq = ref.nq
    nout = 2 if ref.have_fq else 1
    acc = [incoming[i] for i in range(nout * nq + 4)]
    seen = set()
    for pt in ref.points:
        n = 0
        for i, k in enumerate(pt["multi"]):
            if lengths[i] > 1:
                if i not in slot_of:
                    raise RuntimeError("dispersed parameter outside the loop slots")
                n += k * strides[slot_of[i]]
        seen.add(n)
        inr = z3.And(start <= n, n < stop, pt["gate"])
        g = lambda t: z3.If(inr, t, z3.RealVal(0))
        w = pt["w"]
        for j in range(nq):
            acc[nout * j] = acc[nout * j] + g(w * pt["leaf"][j])
            if ref.have_fq:
                acc[nout * j + 1] = acc[nout * j + 1] + g(w * pt["leaf1"][j])
        b = nout * nq
        acc[b] = acc[b] + g(w)
        acc[b + 1] = acc[b + 1] + g(w * pt["vf"])
        acc[b + 2] = acc[b + 2] + g(w * pt["vs"])
        acc[b + 3] = acc[b + 3] + g(w * pt["r"])
    if seen != set(range(len(ref.points))):
        raise RuntimeError("strides do not enumerate the mesh bijectively")
    return acc


def unit_h2(cfg):
    name, dim, lengths, mode = cfg
    label = "H2/%s/%s/%s/mode=%s" % (name, dim, ",".join("%s=%d" % kv for kv in sorted(lengths.items())), mode)
    u = Unit(label, timeout_ms=30000)
    km = KModel.get(name)
    info = km.info
    mesh, syms = sym_mesh(info, lengths, dim)
    nq = 1
    q = symx.oarray([symx.real("q%d" % i) for i in range(nq * (1 if dim == "1d" else 2))])
    cutoff = symx.real("cutoff")
    start, mid, stop = z3.Int("pd_start"), z3.Int("pd_mid"), z3.Int("pd_stop")
    fname = km.names[0 if dim == "1d" else 1]
    # structure from the real driver (concrete): details and value vector
    model0 = km.make_model()
    kern0 = model0.make_kernel([q] if dim == "1d" else [q[0::2], q[1::2]])
    cd, values, is_mag = sdetails.make_kernel_args(kern0, mesh)
    N = int(cd.num_eval)
    nres = len(kern0.result)
    stale = [z3.Real("stale!%d" % i) for i in range(nres)]
    # gates forced open: every weight exceeds the cutoff (the gate semantics is H1's subject)
    A = [cutoff.t >= 0, start >= 0, start < mid, mid < stop, stop <= N]
    for nm, (v, d, w) in syms.items():
        for x in w:
            if isinstance(x, Sym):
                A.append(x.t > 1)
    A.append(cutoff.t < 1)
    # ... and the model's validity predicate holds at every mesh point
    for pt in Reference(km, mesh, q, cutoff, mode, dim).points:
        A.append(pt["gate"])

    def fn():
        host = km.make_model()
        out = {}
        for tag, pieces in (("whole", [(start, stop)]), ("split", [(start, mid), (mid, stop)])):
            res = np.empty(nres, dtype=object)
            for i in range(nres):
                res[i] = Sym(stale[i])
            for a, b in pieces:
                kharness.run_kernel(host, fname, nq, a, b, cd.buffer, values, list(q), res, cutoff, mode)
            out[tag] = [term(x) for x in res]
        out["side"] = list(host.side)
        out["defs"] = list(host.defs)
        out["steps"] = host.steps
        return out

    ex = symx.Explorer(timeout_ms=20000, max_paths=5000, abstract=True)
    paths = ex.explore(fn, A)
    u.absorb(ex, paths)
    u.reachable(label, A)
    u.functions("%s (IR): restart arithmetic i_k=(pd_start/stride_k)%%n_k, step/pd_stop tests, accumulator carry" % fname)
    ref_acc = _range_reference(km, mesh, cd, q, cutoff, mode, dim, start, stop, stale)
    nuse = len(ref_acc)
    for pi, p in enumerate(paths):
        if p.cut:
            u.error("path cut: %s" % p.cut)
            continue
        H = p.constraints()
        ctx = dict(name=name, dim=dim, lengths=lengths, mode=mode, syms=syms, q=q, cutoff=cutoff,
                   split=(start, mid, stop), N=N)
        if p.exc is not None:
            u.prove("kernel-raises-nothing", z3.BoolVal(False), H, _cex_split(ctx, "exception", repr(p.exc)))
            continue
        r = p.result
        if pi < 2:
            dd = set(d.get_id() for d in r["defs"])
            u.sample({"config": label, "path": pi, "num_eval": N, "steps": r["steps"],
                      "path_condition": [str(c)[:80] for c in p.pc if c.get_id() not in dd][:8]})
        whole, split = r["whole"], r["split"]
        u.prove("split-independence", z3.And(*[whole[i] == split[i] for i in range(nuse)]), H,
                _cex_split(ctx, "split"), abstract=True, sample=(pi == 0))
        defs = set(d.get_id() for d in r["defs"])
        H2 = [c for c in H if c.get_id() not in defs]
        want = kharness.align_leaves(u, H2, ref_acc, r["defs"])
        inc = [z3.If(start == 0, z3.RealVal(0), stale[i]) for i in range(nuse)]
        want = [z3.substitute(t, *[(stale[i], inc[i]) for i in range(nuse)]) for t in want]
        u.prove("call-accumulates-exactly-its-range", z3.And(*[whole[i] == want[i] for i in range(nuse)]), H,
                _cex_split(ctx, "range"), abstract=True)
        _prove_side(u, r["side"], H, lambda d: _cex_split(ctx, "side:" + d))
    return u.r


def real_split(name, dim, mesh, q, cutoff, mode, start, mid, stop):
    """Real DLL: [start,stop) in one call versus [start,mid) then [mid,stop)."""
    info = core.load_model_info(name)
    model = core.build_model(info, dtype="double", platform="dll")
    qv = [np.array(q, dtype=float)] if dim == "1d" else [np.array(q[0::2], float), np.array(q[1::2], float)]
    kern = model.make_kernel(qv)
    cd, values, is_mag = sdetails.make_kernel_args(kern, mesh)
    fn = kern.kernel[0]
    out = []
    for pieces in ([(start, stop)], [(start, mid), (mid, stop)]):
        # arbitrary incoming accumulators: distinct value per cell
        kern.result[:] = 0.731 + 0.0173 * np.arange(len(kern.result))
        for a, b in pieces:
            fn(kern.q_input.nq, a, b, cd.buffer.ctypes.data, values.ctypes.data,
               kern.q_input.q.ctypes.data, kern.result.ctypes.data, kern._as_dtype(cutoff), mode)
        out.append(kern.result.copy())
    den = np.maximum(np.abs(out[0]), np.abs(out[1]))
    rel = np.where(den > 0, np.abs(out[0] - out[1]) / np.where(den > 0, den, 1), 0.0)
    return float(rel.max()), {"whole": out[0].tolist(), "split": out[1].tolist()}


def _cex_split(ctx, oracle, extra=""):
    def handler(m):
        info = core.load_model_info(ctx["name"])
        a, b, c = [int(symx.model_float(m, t)) for t in ctx["split"]]
        cut = float(symx.model_float(m, ctx["cutoff"].t))
        mesh = _generic_values(info, ctx["syms"], m, False)
        qq = [0.013 * (i + 1) for i in range(len(ctx["q"]))]
        try:
            defect, detail = real_split(ctx["name"], ctx["dim"], mesh, qq, cut, ctx["mode"], a, b, c)
            if oracle != "split" and defect <= 1e-9:
                # compare the single call against the documented range sum through H1's reference
                d2, det2 = real_vs_reference(ctx["name"], ctx["dim"], mesh, qq, cut, ctx["mode"])
                if a == 0 and c == ctx["N"]:
                    defect, detail = d2, det2
        except Exception as e:
            defect, detail = float("inf"), {"exception": repr(e)}
        return {"reproduced": bool(defect > 1e-9),
                "key": "C01/%s/split=%d,%d,%d-of-%d" % (oracle.split(":")[0], a, b, c, ctx["N"]),
                "what": "%s %s mesh %s: kernel calls [%d,%d)+[%d,%d) differ from [%d,%d) on the real DLL "
                        "(relative defect %.3g) %s" % (ctx["name"], ctx["dim"], ctx["lengths"], a, b, b, c, a, c, defect, extra),
                "inputs": {"model": ctx["name"], "dim": ctx["dim"], "mode": ctx["mode"], "cutoff": cut, "q": qq,
                           "split": [a, b, c],
                           "mesh": [[float(v), [float(x) for x in d], [float(x) for x in w]] for v, d, w in mesh]},
                "detail": detail, "block": None}
    return handler


# ---------------------------------------------------------------------------
# H3: the driver's 100-point chunking; H4: refusal of too many dispersed parameters

def unit_h3(cfg):
    name, dim, lengths = cfg
    label = "H3/%s/%s/%s" % (name, dim, ",".join("%s=%d" % kv for kv in sorted(lengths.items())))
    u = Unit(label, timeout_ms=120000)
    km = KModel.get(name)
    mode = 1 if km.info.radius_effective_modes else 0
    mesh, syms = sym_mesh(km.info, lengths, dim)
    q = symx.oarray([symx.real("q%d" % i) for i in range(1 if dim == "1d" else 2)])
    cutoff = symx.real("cutoff")
    A = [cutoff.t >= 0, cutoff.t < 1]
    for nm, (v, d, w) in syms.items():
        for x in w:
            if isinstance(x, Sym):
                A.append(x.t > 1)
    for pt in Reference(km, mesh, q, cutoff, mode, dim).points:
        A.append(pt["gate"])
    ex = symx.Explorer(timeout_ms=20000, max_paths=50, max_forks=5000, abstract=True)
    paths = ex.explore(lambda: _run(km, mesh, q, cutoff, mode, dim, "call"), A)
    u.absorb(ex, paths)
    u.reachable(label, A)
    ref = Reference(km, mesh, q, cutoff, mode, dim)
    want_buf = ref.buffer()
    u.functions("sasmodels.kerneldll.DllKernel._call_kernel (chunk loop, step 100) composed with the kernel IR")
    for pi, p in enumerate(paths):
        if p.cut or p.exc is not None:
            u.error("path %d: %s" % (pi, p.cut or repr(p.exc)))
            continue
        r = p.result
        H = p.constraints()
        ctx = dict(name=name, dim=dim, lengths=lengths, mode=mode, want="Iq", syms=syms, q=q, cutoff=cutoff)
        u.sample({"config": label, "num_eval": r["num_eval"], "kernel_calls": r["calls"]})
        if len(r["calls"]) != (r["num_eval"] + 99) // 100:
            u.note("driver issued %d calls for %d mesh points" % (len(r["calls"]), r["num_eval"]))
        got = r["buffer"]
        defs = set(d.get_id() for d in r["defs"])
        H2 = [c for c in H if c.get_id() not in defs]
        want = kharness.align_leaves(u, H2, want_buf, r["defs"])
        u.prove("accumulators-across-chunks", z3.And(*[got[i] == want[i] for i in range(len(want))]), H,
                _cex(ctx, "chunking"), abstract=True)
        _prove_side(u, r["side"], H, lambda d: _cex(ctx, "side:" + d))
    return u.r


def unit_h4(name):
    label = "H4/%s/too-many-dispersed-parameters" % name
    u = Unit(label)
    info = core.load_model_info(name)
    pars = info.parameters
    npars = pars.npars
    u.functions("sasmodels.details.make_details (refusal)")
    if npars <= pars.max_pd:
        u.note("model has no more parameters than loop slots: refusal not reachable")
        return u.r
    length = np.ones(npars, dtype=int)
    length[:pars.max_pd + 1] = 2
    offset = np.cumsum(np.hstack((0, length)))
    n = z3.Int("extra_points")        # the (max_pd+1)-th distribution has any length >= 2

    def fn():
        ln = length.copy().astype(object)
        k = symx.Sym(n)
        ln[pars.max_pd] = int(k)
        ln = ln.astype(int)
        off = np.cumsum(np.hstack((0, ln)))
        return sdetails.make_details(info, ln, off[:-1], off[-1])

    ex = symx.Explorer(max_paths=40, int_range=8)
    paths = ex.explore(fn, [n >= 2, n <= 6])
    u.absorb(ex, paths)
    for p in paths:
        H = p.constraints()
        ok = isinstance(p.exc, ValueError)
        u.prove("refused-with-ValueError", z3.BoolVal(ok), H,
                lambda m, p=p: {"reproduced": True, "key": "C01/refusal/%s" % name,
                                "what": "make_details accepted %d dispersed parameters for %s (max_pd=%d): %r"
                                        % (pars.max_pd + 1, name, pars.max_pd, p.exc or p.result),
                                "inputs": {"model": name}, "block": None})
    return u.r


# ---------------------------------------------------------------------------
# replay on the real compiled DLL

def _generic_values(info, syms, model, use_model):
    """Concrete mesh.  Weights come from the solver model (they realise the
    gate pattern); parameter values are the solver's when *use_model*, else
    distinct generic physical values derived from the defaults.  One value per
    symbol: entries that share a symbol (value == its one-point distribution
    for non-dispersible parameters) stay equal."""
    mesh = []
    cache = {}
    for p in info.parameters.call_parameters:
        v, d, w = syms[p.id]

        def num(x, k=0, kind="v"):
            if not isinstance(x, Sym):
                return float(x)
            key = str(x.t)
            if key not in cache:
                if use_model or kind == "w":
                    cache[key] = float(symx.model_float(model, x.t))
                else:
                    base = p.default if p.default not in (0, 0.0) else 0.5
                    if not np.isfinite(base):
                        base = 1.0
                    cache[key] = float(base * (1.0 + 0.083 * (k + 1)) if kind == "d" else base)
            return cache[key]
        val = num(v)
        dd = [num(x, k, "d") for k, x in enumerate(d)]
        ww = [num(x, k, "w") for k, x in enumerate(w)]
        mesh.append((val, np.array(dd), np.array(ww)))
    return mesh


def real_vs_reference(name, dim, mesh, q, cutoff, mode):
    """Real DLL on the whole mesh versus the documented combination of
    single-point evaluations of the same DLL.  Returns (max rel defect, detail)."""
    info = core.load_model_info(name)
    model = core.build_model(info, dtype="double", platform="dll")
    qv = [np.array(q, dtype=float)] if dim == "1d" else [np.array(q[0::2], float), np.array(q[1::2], float)]
    kern = model.make_kernel(qv)
    npars = info.parameters.npars
    cps = info.parameters.call_parameters
    cd, values, is_mag = sdetails.make_kernel_args(kern, mesh)
    kern.result[:] = 12345.678       # stale contents must not matter
    kern.Fq(cd, values, cutoff, is_mag, mode)
    nq = len(qv[0])
    nout = 2 if (info.have_Fq and dim == "1d") else 1
    nres = nout * nq + 4
    real = kern.result[:nres].copy()
    Ireal = kern.Iq(cd, values, cutoff, is_mag)
    # reference: one evaluation per mesh point, combined by the documented formula
    ref = np.zeros(nres)
    lengths = [len(mesh[2 + i][1]) for i in range(npars)]
    for multi in itertools.product(*[range(n) for n in lengths]):
        w = 1.0
        pt = list(mesh[:2])
        for i in range(npars):
            val, d, ww = mesh[2 + i]
            k = multi[i]
            w *= ww[k]
            p = cps[2 + i]
            x = d[k]
            if p.type == "orientation":
                if dim == "2d" and x != 0.0:
                    pt.append((val, np.array([x, x]), np.array([0.5, 0.5])))
                else:
                    pt.append((val, np.array([x]), np.array([1.0])))
                if p.id == "theta" and dim == "2d":
                    w *= abs(np.cos(np.radians(x)))
            else:
                pt.append((x, np.array([x]), np.array([1.0])))
        pt.extend(mesh[2 + npars:])
        if not w > cutoff:
            continue
        cd1, v1, m1 = sdetails.make_kernel_args(kern, pt)
        kern.Fq(cd1, v1, -1.0, m1, mode)
        one = kern.result[:nres].copy()
        if one[nout * nq] == 0:        # invalid point
            continue
        one = one / one[nout * nq]
        if dim == "2d":
            mag = _magnetic_point(name, kern, pt, mesh, qv, nq)
            if mag is not None:
                # independent polarisation analysis: documented channel SLDs and weights,
                # each channel evaluated by the non-magnetic kernel
                one[:nq] = mag
            else:
                # independent orientation: the model's own Iqac/Iqabc (float-mode IR of the
                # real source) at R^-1 (qx,qy,0) computed here from the documented matrices
                indep = _oriented_point(name, mesh, multi, qv)
                if indep is not None:
                    one[:nq] = indep
        ref += w * one
    scale, bg = mesh[0][0], mesh[1][0]
    Iref = scale * ref[0:nout * nq:nout] / ref[nout * nq + 2] + bg if ref[nout * nq] != 0 and ref[nout * nq + 2] != 0 \
        else np.full(nq, bg)
    den = np.maximum(np.abs(ref), np.abs(real))
    with np.errstate(all="ignore"):
        rel = np.where(den > 0, np.abs(ref - real) / den, 0.0)
        relI = np.abs(Iref - Ireal) / np.maximum(np.abs(Iref), np.abs(Ireal))
    relI = np.where(np.isfinite(relI), relI, 0.0)
    return float(max(rel.max(), relI.max())), {"real": real.tolist(), "reference": ref.tolist(),
                                               "I_real": Ireal.tolist(), "I_reference": Iref.tolist()}


def _magnetic_point(name, kern, pt, mesh, qv, nq):
    """Polarised intensity of one mesh point from the documented formula, every
    channel evaluated with the real *non-magnetic* 2-D kernel."""
    info = kern.info
    pars = info.parameters
    npars = pars.npars
    m0 = 2 + npars
    if pars.nmagnetic == 0 or len(mesh) <= m0:
        return None
    vals = [float(m[0]) for m in mesh]
    slds = [(i, p) for i, p in enumerate(pars.call_parameters[2:2 + npars]) if p.type == "sld"]
    M0s = [vals[m0 + 4 + 3 * k] for k in range(len(slds))]
    if not any(m != 0.0 for m in M0s):
        return None
    i_, f_ = np.clip(vals[m0], 0, 1), np.clip(vals[m0 + 1], 0, 1)
    uth, uph = np.radians(vals[m0 + 2]), np.radians(vals[m0 + 3])
    norm = max(f_, 1 - f_)
    w = {"dd": (1 - i_) * (1 - f_) / norm, "du": (1 - i_) * f_ / norm,
         "ud": i_ * (1 - f_) / norm, "uu": i_ * f_ / norm}
    P = np.array([np.sin(uth) * np.cos(uph), np.sin(uth) * np.sin(uph), np.cos(uth)])
    e1 = np.array([-np.sin(uph), np.cos(uph), 0.0])
    e2 = np.array([-np.cos(uth) * np.cos(uph), -np.cos(uth) * np.sin(uph), np.sin(uth)])
    model = core.build_model(info, dtype="double", platform="dll")
    out = np.zeros(nq)
    for j in range(nq):
        qx, qy = float(qv[0][j]), float(qv[1][j])
        qh = np.array([qx, qy, 0.0]) / np.hypot(qx, qy)
        k1 = model.make_kernel([np.array([qx]), np.array([qy])])
        chans = [("dd", lambda rho, m: rho - P @ m), ("du", lambda rho, m: e1 @ m), ("ud", lambda rho, m: e1 @ m),
                 ("uu", lambda rho, m: rho + P @ m), ("du", lambda rho, m: -(e2 @ m)), ("ud", lambda rho, m: e2 @ m)]
        for cname, fn in chans:
            if w[cname] == 0.0:
                continue
            ptc = list(pt)
            for k, (i, p) in enumerate(slds):
                M0, mth, mph = vals[m0 + 4 + 3 * k: m0 + 7 + 3 * k]
                mth, mph = np.radians(mth), np.radians(mph)
                M = M0 * np.array([np.sin(mth) * np.cos(mph), np.sin(mth) * np.sin(mph), np.cos(mth)])
                mperp = M - qh * (qh @ M)
                rho = float(pt[2 + i][1][0])
                v = float(fn(rho, mperp))
                ptc[2 + i] = (v, np.array([v]), np.array([1.0]))
            # switch magnetism off for the channel evaluation
            for k in range(len(slds)):
                ptc[m0 + 4 + 3 * k] = (0.0, np.array([0.0]), np.array([1.0]))
            cd1, v1, m1 = sdetails.make_kernel_args(k1, ptc)
            k1.Fq(cd1, v1, -1.0, m1, 0)
            if k1.result[1] != 0:
                out[j] += w[cname] * k1.result[0] / k1.result[1]
    return out


def _oriented_point(name, mesh, multi, qv):
    """I(qx,qy) of one mesh point of an oriented model, from the model's own
    Iqac/Iqabc evaluated by the float-mode interpreter at the particle-frame q
    given by the documented R = Rz(phi)Ry(theta)Rz(psi)Rx(dphi)Ry(dtheta)Rz(dpsi)."""
    from vlib.llsym import interp as _interp
    km = KModel.get(name)
    if km.xy_mode not in ("qac", "qabc"):
        return None
    info = km.info
    npars = info.parameters.npars
    cps = info.parameters.call_parameters[2:2 + npars]
    if any(p.length > 1 for p in info.parameters.kernel_parameters):
        return None
    x, jit = {}, {}
    for i, p in enumerate(cps):
        val, d, _w = mesh[2 + i]
        if p.type == "orientation":
            x[p.id] = float(val)
            jit[p.id] = float(d[multi[i]])
        else:
            x[p.id] = float(d[multi[i]])

    def rz(a):
        c, s_ = np.cos(np.radians(a)), np.sin(np.radians(a))
        return np.array([[c, -s_, 0], [s_, c, 0], [0, 0, 1]])

    def ry(a):
        c, s_ = np.cos(np.radians(a)), np.sin(np.radians(a))
        return np.array([[c, 0, s_], [0, 1, 0], [-s_, 0, c]])

    def rx(a):
        c, s_ = np.cos(np.radians(a)), np.sin(np.radians(a))
        return np.array([[1, 0, 0], [0, c, -s_], [0, s_, c]])

    asym = km.xy_mode == "qabc"
    R = rz(x["phi"]) @ ry(x["theta"]) @ (rz(x.get("psi", 0.0)) if asym else np.eye(3))
    J = rx(jit.get("phi", 0.0)) @ ry(jit.get("theta", 0.0)) @ (rz(jit.get("psi", 0.0)) if asym else np.eye(3))
    M = R @ J
    iq = [x[p.id] for p in info.parameters.iq_parameters]
    out = []
    for qx, qy in zip(qv[0], qv[1]):
        qa, qb, qc = M.T @ np.array([qx, qy, 0.0])
        it = _interp.Interp(km.mod, mode="float", max_steps=50000000)
        if asym:
            out.append(it.call("Iqabc", [float(qa), float(qb), float(qc)] + iq))
        else:
            out.append(it.call("Iqac", [float(np.hypot(qa, qb)), float(qc)] + iq))
    return np.array(out)


def _cex(ctx, oracle, extra=""):
    def handler(m):
        info = core.load_model_info(ctx["name"])
        qv = [symx.model_float(m, term(x)) for x in ctx["q"]]
        cut = float(symx.model_float(m, ctx["cutoff"].t))
        best = None
        for use_model in (False, True):
            mesh = _generic_values(info, ctx["syms"], m, use_model)
            qq = qv if use_model else [0.013 * (i + 1) + 0.002 * i * i for i in range(len(qv))]
            try:
                defect, detail = real_vs_reference(ctx["name"], ctx["dim"], mesh, qq, cut, ctx["mode"])
            except Exception as e:
                defect, detail = float("inf"), {"exception": repr(e)}
            if best is None or defect > best[0]:
                best = (defect, detail, mesh, qq)
            if defect > 1e-9:
                break
        defect, detail, mesh, qq = best
        inputs = {"model": ctx["name"], "dim": ctx["dim"], "mode": ctx["mode"], "cutoff": cut, "q": qq,
                  "mesh": [[float(v), [float(x) for x in d], [float(x) for x in w]] for v, d, w in mesh]}
        return {"reproduced": bool(defect > 1e-9),
                "key": "%s/%s/%s" % (ctx.get("pid", "C01"), oracle.split(":")[0], _signature(ctx, mesh)),
                "what": "%s %s mesh %s: real DLL result differs from the documented weighted mean "
                        "(relative defect %.3g) %s" % (ctx["name"], ctx["dim"], ctx["lengths"], defect, extra),
                "inputs": inputs, "detail": detail, "block": None}
    return handler


def _signature(ctx, mesh):
    lens = sorted(set(len(d) for _v, d, _w in mesh))
    return "lengths=%s" % lens


def replay(cex):
    i = cex["inputs"]
    mesh = [(v, np.array(d), np.array(w)) for v, d, w in i["mesh"]]
    defect, detail = real_vs_reference(i["model"], i["dim"], mesh, i["q"], i["cutoff"], i["mode"])
    print("real DLL vs documented combination: relative defect %.3g" % defect)
    print(detail)
    return 1 if defect > 1e-9 else 0


# ---------------------------------------------------------------------------

def configs(chk):
    rng = random.Random(chk.seed)
    names = c_models()
    out = []
    for name in names:
        info = core.load_model_info(name)
        for dim in ("1d", "2d"):
            pds = pd_params(info, dim)
            if dim == "2d" and not chk.quick:
                pass
            out.append((name, dim, {}, 0, "Iq"))
            singles = pds if not chk.quick else pds[:2] + pds[-1:]
            for p in dict.fromkeys(singles):
                out.append((name, dim, {p: 2}, 0, "Iq"))
            if pds:
                out.append((name, dim, {pds[0]: 3}, 1 if info.radius_effective_modes else 0, "Fq"))
                # H5: empty distributions (cut to nothing by the limits)
                out.append((name, dim, {pds[0]: 0}, 0, "Iq"))
                if len(pds) >= 2:
                    out.append((name, dim, {pds[-1]: 0, pds[0]: 2}, 0, "Iq"))
            if len(pds) >= 2:
                pairs = list(itertools.combinations(pds, 2))
                if chk.quick:
                    pairs = rng.sample(pairs, min(1, len(pairs)))
                elif len(pds) > 6:
                    pairs = rng.sample(pairs, 8)
                for a, b in pairs:
                    out.append((name, dim, {a: 2, b: 2}, 0, "Iq"))
            if not chk.quick and len(pds) >= 2:
                a, b = pds[0], pds[-1]
                out.append((name, dim, {a: 3, b: 2}, 0, "Iq"))
            if not chk.quick and len(pds) >= 3 and dim == "1d":
                tris = list(itertools.combinations(pds, 3))
                for tri in rng.sample(tris, min(2, len(tris))):
                    out.append((name, dim, {k: 2 for k in tri}, 0, "Iq"))
    return out


def h2_configs(chk):
    out = [("sphere", "1d", {"radius": 3}, 1),
           ("cylinder", "1d", {"radius": 3, "length": 2}, 1),
           ("vesicle", "1d", {"radius": 2, "thickness": 2}, 1),        # hollow, Fq
           ("raspberry", "1d", {"radius_lg": 3}, 1),                   # no Fq, effective radius
           ("cylinder", "2d", {"radius": 2, "phi": 2}, 1)]
    if not chk.quick:
        out += [("cylinder", "2d", {"radius": 2, "length": 2, "phi": 2}, 0),
                ("core_shell_parallelepiped", "1d", {"length_a": 2, "length_b": 2, "length_c": 3}, 1),
                ("sphere", "1d", {"radius": 12}, 0)]
    return out


def h3_configs(chk):
    out = [("sphere", "1d", {"radius": 101}),
           ("cylinder", "1d", {"radius": 67, "length": 3}),
           ("vesicle", "1d", {"radius": 51, "thickness": 2}),          # hollow, Fq
           ("cylinder", "2d", {"radius": 26, "length": 4})]
    if not chk.quick:

        out += [("sphere", "1d", {"radius": n}) for n in (99, 100, 199, 200, 201, 300)]
        out += [("core_shell_parallelepiped", "1d", {"length_a": 5, "length_b": 4, "length_c": 5, "thick_rim_a": 2}),
                # (no jitter in H3: with |cos dtheta| in the weight the open-gate assumption does not
                # prune the gate forks; jitter is covered by H1/C05, chunking does not depend on it)
                ("triaxial_ellipsoid", "2d", {"radius_equat_minor": 5, "radius_equat_major": 5, "radius_polar": 5}),
                ("cylinder", "2d", {"radius": 15, "length": 14})]
    return out


def unit_validate(name):
    """Translator validation (every run): the IR of the model's generated source executed by the
    interpreter in *float* mode (real libm) must reproduce the real compiled DLL on the same buffers."""
    from vlib.llsym import interp as _interp, kcall as _kcall
    label = "validate/%s" % name
    u = Unit(label)
    try:
        km = KModel.get(name)
    except Exception as e:
        u.error("IR build/parse failed for %s: %r" % (name, e))
        return u.r
    info = km.info
    model = core.build_model(info, dtype="double", platform="dll")
    u.functions("float-mode execution of %s / %s IR versus the real DLL" % (km.names[0], km.names[1]))
    for dim in ("1d", "2d"):
        qv = [np.array([0.011, 0.09, 0.31])] if dim == "1d" else [np.array([0.011, 0.09, -0.21]), np.array([0.02, -0.05, 0.13])]
        kern = model.make_kernel(qv)
        pds = pd_params(info, dim)
        pars = {}
        if pds:
            pars = {pds[0] + "_pd": 0.2, pds[0] + "_pd_n": 3}
        mesh = direct_model.get_mesh(info, pars, dim=dim)
        cd, values, is_mag = sdetails.make_kernel_args(kern, mesh)
        mode = 1 if info.radius_effective_modes else 0
        kern.result[:] = 0.5
        kern.Fq(cd, values, 1e-5, is_mag, mode)
        nq = len(qv[0])
        nres = (2 * nq if (info.have_Fq and dim == "1d") else nq) + 4
        want = kern.result[:nres].copy()
        it = _interp.Interp(km.mod, mode="float", max_steps=4000000)
        regs = _kcall.load_args(it, cd.buffer, values, kern.q_input.q.ravel()[:nq * (2 if dim == "2d" else 1)],
                                [0.5] * nres)
        try:
            res = _kcall.call_kernel(it, km.names[0 if dim == "1d" else 1], nq, 0, int(cd.num_eval), regs, 1e-5, mode)
        except _interp.StepCap:
            u.note("validation of %s %s skipped: more than 4e6 interpreted instructions" % (name, dim))
            continue
        except Exception as e:
            u.error("float-mode interpretation of %s %s failed: %r" % (name, dim, e))
            continue
        for i in range(nres):
            u.check_close("%s %s cell %d" % (name, dim, i), float(res[8 * i]), float(want[i]), rtol=1e-9, atol=1e-300)
    u.r["paths"] += 1
    return u.r


def _prebuild(name):
    from vlib.llsym import build
    from vlib.harness import new_unit
    build.model_ir(core.load_model_info(name))
    return new_unit("prebuild " + name)


def _dispatch(item):
    kind, cfg = item
    return {"h1": unit_h1, "h2": unit_h2, "h3": unit_h3, "h4": unit_h4, "val": unit_validate}[kind](cfg)


def run(chk):
    chk.explanation = (
        "Symbolic execution of the real Python driver on z3 proxies composed with symbolic execution of the "
        "LLVM IR of each model's real generated kernel source (llsym); leaves are uninterpreted functions; "
        "all values/weights/q/cutoff and the initial result buffer are symbolic. H1: each path's accumulators, "
        "returned I(q) and Fq outputs equal the documented weighted mean (gates, one-point and empty "
        "distributions included). H2: with symbolic integers 0<=start<mid<stop<=num_eval, one call over "
        "[start,stop) equals two calls over [start,mid),[mid,stop) and accumulates exactly the mesh points of "
        "its range onto the incoming buffer (independent of the buffer when start=0), so any partition follows "
        "by induction. H3: the real 100-point chunk loop of DllKernel._call_kernel on meshes across the chunk "
        "boundary. H4: make_details refuses max_pd+1 dispersed parameters.")
    chk.bounds = {
        "H1 mesh": "mono; every (quick: first two and last) dispersible parameter with 2 points; one with 3 points "
                   "(Fq, effective-radius mode 1); sampled pairs 2x2; empty (0-point) distributions; nq=2 (1-D), 1 (2-D)",
        "H2 mesh": "1-3 loops of length <=3 (quick), up to 4 loops / 12 points (thorough); nq=1; gates forced open",
        "H3 mesh": "num_eval in {101,201,100} quick; {99,100,199,200,201,300,...} with up to 5 loops thorough; gates forced open",
        "solver": "60 s per obligation (120 s H3), 20 s per fork feasibility; unknown = inconclusive",
        "interpreter": "3e6 instruction cap per kernel call (reported if hit)",
    }
    chk.outside = ["OpenCL/CUDA variants of the template (USE_GPU branches)", "single/long-double builds",
                   "meshes larger than the bounds (induction over the split obligation is a paper argument)",
                   "rounding, overflow, NaN propagation (doubles are reals)",
                   "numeric interior of the leaf functions (uninterpreted)",
                   "the 6 magnetic-kernel (_Imagnetic) variants: C06"]
    chk.stubs = ["ctypes function pointers of DllModel -> IR interpreter on the driver's own buffers (vlib.kharness.SymDll)",
                 "DllKernel._as_dtype -> identity", "np.empty result buffer -> fresh symbols (arbitrary previous contents)",
                 "Iq/Fq/Iqac/Iqabc/Iqxy/form_volume/shell_volume/radius_effective -> uninterpreted functions of their actual arguments",
                 "libm sin/cos/sqrt -> uninterpreted with circle/sqrt axioms; exact values at 0/1 folded"]
    chk.assumptions = ["weights >= 0, cutoff >= 0", "non-dispersible parameters carry ([value],[1]) (get_mesh contract)",
                       "a one-point distribution has weight 1 (get_weights normalisation, C02); one-point jitter is 0",
                       "sum(w*V_shell) != 0 on non-empty selections for the I(q) formula",
                       "H2/H3: every weight > cutoff and the validity predicate holds (gate semantics is H1's subject)",
                       "H2: ranges are non-empty (start < mid < stop); the drivers never request empty ranges (H3)"]
    items = [("h1", c) for c in configs(chk)]
    items += [("h2", c) for c in h2_configs(chk)]
    items += [("h3", c) for c in h3_configs(chk)]
    items += [("h4", n) for n in c_models()]
    items += [("val", n) for n in c_models()]
    if getattr(chk, "only", None):
        def label(it):
            k, c = it
            if k == "h4":
                return "H4/%s" % c
            if k == "val":
                return "validate/%s" % c
            return "%s/%s/%s/%s" % (k.upper(), c[0], c[1], c[2])
        items = [it for it in items if chk.only in label(it)]
    # build every IR once, before forking workers
    pmap(_prebuild, sorted({(c if k in ("h4", "val") else c[0]) for k, c in items}))
    # long units first
    order = {"h2": 0, "h3": 1, "val": 2, "h1": 3, "h4": 4}
    items.sort(key=lambda it: order[it[0]])
    chk.add(pmap(_dispatch, items))
