"""C10 -- every calling interface yields the same theory; unknown names refused.

Three harnesses, all executing the REAL interface code on z3 proxies:

MESH    per (model, 1-D/2-D, multiplicity, dispersity setting) the same symbolic
        parameter values / widths / nsigmas / cutoff are expressed in every
        interface's naming scheme and pushed through ``call_kernel(get_mesh)``,
        ``DirectModel.__call__``, ``Iq/Iqxy``, ``SasviewModel.setParam`` +
        ``evalDistribution/calculate_Iq`` and ``bumps_model.Model`` +
        ``Experiment.theory``.  The kernel is a recording stub; z3 decides that
        what each interface hands to the kernel (details, values, cutoff,
        magnetic flag, q) and what it returns are identical term by term.
SELECT  ``DataMixin._interpret_data`` (through ``DirectModel`` and the bumps
        ``Experiment``) on 1-D, oriented 1-D and 2-D data objects with symbolic
        q, mask, qmin/qmax and NaN flags: the points handed to the resolution /
        kernel are exactly ``mask==0 and qmin<=q<=qmax and not isnan(y)``, in order.
REFUSE  one extra entry under a SYMBOLIC STRING key (z3 String) outside the
        documented names is given to every interface; no path may return normally.
"""
import math
import os
import traceback

import numpy as np
import z3

from vlib import symx, npshim, compose as C, ifaces as I
from vlib.harness import Unit, pmap
from vlib.symx import Sym, term

I.install_bumps_stub()

from sasmodels import core, details, weights as W, data as D          # noqa: E402
from sasmodels import direct_model as DM, sasview_model as SM, bumps_model as BM   # noqa: E402
from sasmodels import resolution, resolution2d                         # noqa: E402

PD_TYPES = ["gaussian", "rectangle", "lognormal", "schulz", "uniform", "boltzmann"]
SUFFIX = [("_pd_nsigma", ".nsigmas"), ("_pd_type", ".type"), ("_pd_n", ".npts"), ("_pd", ".width")]
Q1 = [np.array([0.0125, 0.125])]
Q2 = [np.array([0.0125, 0.125]), np.array([0.03125, -0.0625])]
HELPER_CUTOFF = 1e-5      # DirectModel's documented default, used by Iq/Iqxy

QUICK_MODELS = ["sphere", "cylinder", "core_shell_sphere", "ellipsoid", "parallelepiped",
                "core_multi_shell", "onion", "spherical_sld", "rpa", "unified_power_Rg",
                "hardsphere", "hayter_msa", "stickyhardsphere", "fractal", "guinier",
                "lamellar_hg", "vesicle", "core_shell_bicelle", "teubner_strey", "power_law",
                "micromagnetic_FF_3D", "stacked_disks"]

FUNCS = ["sasmodels.direct_model.call_kernel", "sasmodels.direct_model.get_mesh",
         "sasmodels.direct_model._pop_par_weights", "sasmodels.direct_model.DirectModel.__call__",
         "sasmodels.direct_model.DataMixin._interpret_data", "sasmodels.direct_model.DataMixin._calc_theory",
         "sasmodels.direct_model.Iq", "sasmodels.direct_model.Iqxy", "sasmodels.direct_model._direct_calculate",
         "sasmodels.sasview_model.make_model_from_info", "sasmodels.sasview_model.SasviewModel.__init__",
         "sasmodels.sasview_model.SasviewModel.setParam", "sasmodels.sasview_model.SasviewModel.set_dispersion",
         "sasmodels.sasview_model.SasviewModel.evalDistribution", "sasmodels.sasview_model.SasviewModel.calculate_Iq",
         "sasmodels.sasview_model.SasviewModel._calculate_Iq", "sasmodels.sasview_model.SasviewModel._get_weights",
         "sasmodels.bumps_model.create_parameters", "sasmodels.bumps_model.Model",
         "sasmodels.bumps_model.Experiment.theory", "sasmodels.weights.get_weights",
         "sasmodels.weights.Dispersion.get_weights", "sasmodels.details.make_kernel_args",
         "sasmodels.details.make_details", "sasmodels.details.convert_magnetism",
         "sasmodels.kernel.Kernel.Iq/Fq", "sasmodels.data.Data1D", "sasmodels.data.Data2D",
         "sasmodels.core.build_model (leaf loaders stubbed)", "sasmodels.modelinfo.ParameterTable"]

STUBS = [I.BUMPS_STUB, I.WEIGHT_STUB,
         "direct_model.float -> identity on proxies; weights.np / direct_model.np / data.np -> vlib.npshim "
         "(np.array(x,'d') keeps proxies, isnan of a data proxy = its symbolic NaN flag)",
         "details.radians/sin/cos -> elementwise versions that accept floats and proxies in one object array",
         "kernel: vlib.compose.StubModel/StubKernel (real Kernel subclass; _call_kernel records "
         "(call_details, values, cutoff, magnetic) and returns named symbols for the raw accumulators; the "
         "real Kernel.Iq/Fq run on top); core.build_model runs with the leaf loaders replaced, and is itself "
         "replaced by 'return the stub model' inside Iq/Iqxy",
         "the raw kernel outputs carry the same names in every call of one path: justified by the obligation "
         "that the kernel arguments are identical, and by the kernel not reading values[0:2] (scale, "
         "background), which is C01's claim"]


def install():
    DM.float = npshim.ident_float
    W.np = npshim.NpShim()
    sh = npshim.NpShim()
    details.radians, details.sin, details.cos = sh.radians, sh.sin, sh.cos
    I.install_weight_leaves()
    C.install_shims()


def uninstall():
    """Back to the real numeric code for replays (the proxies' shims are the
    identity on floats, only the distribution leaves must be restored)."""
    I.remove_weight_leaves()


def sasview_name(key):
    for a, b in SUFFIX:
        if key.endswith(a):
            return key[:-len(a)] + b
    return key


def model_class(info):
    return SM.make_model_from_info(info)


def visible_names(info, mult):
    """Names the SasviewModel of this multiplicity exposes (real constructor)."""
    m = model_class(info)(mult)
    return list(m.params.keys()), m


def control_of(info):
    ctl = [p for p in info.parameters.kernel_parameters if p.is_control]
    return ctl[0] if ctl else None
