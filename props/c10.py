"""C10 -- every calling interface yields the same theory; unknown names refused.

Three harnesses, all executing the REAL interface code on z3 proxies:

MESH    per (model, 1-D/2-D, multiplicity, dispersity setting) the same symbolic
        parameter values / widths / nsigmas / cutoff are expressed in every
        interface's naming scheme and pushed through ``call_kernel(get_mesh)``,
        ``DirectModel.__call__``, ``Iq/Iqxy``, ``SasviewModel.setParam`` +
        ``evalDistribution/calculate_Iq`` and ``bumps_model.Model`` +
        ``Experiment.theory``.  The kernel is a recording stub; z3 decides that
        what each interface hands to the kernel (details, values, cutoff,
        magnetic flag, q) and what it returns are identical term by term.
SELECT  ``DataMixin._interpret_data`` (through ``DirectModel`` and the bumps
        ``Experiment``) on 1-D, oriented 1-D and 2-D data objects with symbolic
        q, mask, qmin/qmax and NaN flags: the points handed to the resolution /
        kernel are exactly ``mask==0 and qmin<=q<=qmax and not isnan(y)``, in order.
REFUSE  one extra entry under a SYMBOLIC STRING key (z3 String) outside the
        documented names is given to every interface; no path may return normally.
"""
import math
import os
import traceback

import numpy as np
import z3

from vlib import symx, npshim, compose as C, ifaces as I
from vlib.harness import Unit, pmap
from vlib.symx import Sym, term

I.install_bumps_stub()

from sasmodels import core, details, weights as W, data as D          # noqa: E402
from sasmodels import direct_model as DM, sasview_model as SM, bumps_model as BM   # noqa: E402
from sasmodels import resolution, resolution2d                         # noqa: E402

PD_TYPES = ["gaussian", "rectangle", "lognormal", "schulz", "uniform", "boltzmann"]
SUFFIX = [("_pd_nsigma", ".nsigmas"), ("_pd_type", ".type"), ("_pd_n", ".npts"), ("_pd", ".width")]
Q1 = [np.array([0.0125, 0.125])]
Q2 = [np.array([0.0125, 0.125]), np.array([0.03125, -0.0625])]
HELPER_CUTOFF = 1e-5      # DirectModel's documented default, used by Iq/Iqxy

QUICK_MODELS = ["sphere", "cylinder", "core_shell_sphere", "ellipsoid", "parallelepiped",
                "core_multi_shell", "onion", "spherical_sld", "rpa", "unified_power_Rg",
                "hardsphere", "hayter_msa", "stickyhardsphere", "fractal", "guinier",
                "lamellar_hg", "vesicle", "core_shell_bicelle", "teubner_strey", "power_law",
                "micromagnetic_FF_3D", "stacked_disks"]

FUNCS = ["sasmodels.direct_model.call_kernel", "sasmodels.direct_model.get_mesh",
         "sasmodels.direct_model._pop_par_weights", "sasmodels.direct_model.DirectModel.__call__",
         "sasmodels.direct_model.DataMixin._interpret_data", "sasmodels.direct_model.DataMixin._calc_theory",
         "sasmodels.direct_model.Iq", "sasmodels.direct_model.Iqxy", "sasmodels.direct_model._direct_calculate",
         "sasmodels.sasview_model.make_model_from_info", "sasmodels.sasview_model.SasviewModel.__init__",
         "sasmodels.sasview_model.SasviewModel.setParam", "sasmodels.sasview_model.SasviewModel.set_dispersion",
         "sasmodels.sasview_model.SasviewModel.evalDistribution", "sasmodels.sasview_model.SasviewModel.calculate_Iq",
         "sasmodels.sasview_model.SasviewModel._calculate_Iq", "sasmodels.sasview_model.SasviewModel._get_weights",
         "sasmodels.bumps_model.create_parameters", "sasmodels.bumps_model.Model",
         "sasmodels.bumps_model.Experiment.theory", "sasmodels.weights.get_weights",
         "sasmodels.weights.Dispersion.get_weights", "sasmodels.details.make_kernel_args",
         "sasmodels.details.make_details", "sasmodels.details.convert_magnetism",
         "sasmodels.kernel.Kernel.Iq/Fq", "sasmodels.data.Data1D", "sasmodels.data.Data2D",
         "sasmodels.core.build_model (leaf loaders stubbed)", "sasmodels.modelinfo.ParameterTable"]

STUBS = [I.BUMPS_STUB, I.WEIGHT_STUB,
         "direct_model.float -> identity on proxies; weights.np / direct_model.np / data.np -> vlib.npshim "
         "(np.array(x,'d') keeps proxies, isnan of a data proxy = its symbolic NaN flag)",
         "details.radians/sin/cos -> elementwise versions that accept floats and proxies in one object array",
         "kernel: vlib.compose.StubModel/StubKernel (real Kernel subclass; _call_kernel records "
         "(call_details, values, cutoff, magnetic) and returns named symbols for the raw accumulators; the "
         "real Kernel.Iq/Fq run on top); core.build_model runs with the leaf loaders replaced, and is itself "
         "replaced by 'return the stub model' inside Iq/Iqxy",
         "the raw kernel outputs carry the same names in every call of one path: justified by the obligation "
         "that the kernel arguments are identical, and by the kernel not reading values[0:2] (scale, "
         "background), which is C01's claim"]


def install():
    DM.float = npshim.ident_float
    W.np = npshim.NpShim()
    sh = npshim.NpShim()
    details.radians, details.sin, details.cos = sh.radians, sh.sin, sh.cos
    I.install_weight_leaves()
    C.install_shims()


def uninstall():
    """Back to the real numeric code for replays (the proxies' shims are the
    identity on floats, only the distribution leaves must be restored)."""
    I.remove_weight_leaves()


def sasview_name(key):
    for a, b in SUFFIX:
        if key.endswith(a):
            return key[:-len(a)] + b
    return key


def model_class(info):
    return SM.make_model_from_info(info)


def visible_names(info, mult):
    """Names the SasviewModel of this multiplicity exposes (real constructor)."""
    m = model_class(info)(mult)
    return list(m.params.keys()), m


def control_of(info):
    ctl = [p for p in info.parameters.kernel_parameters if p.is_control]
    return ctl[0] if ctl else None


# --------------------------------------------------------------------------
# MESH: one symbolic parameter set in every naming scheme

IFACES = ["call_kernel", "DirectModel", "helper", "sasview", "bumps"]
DATAMIXIN = ("DirectModel", "helper", "bumps")     # background added after the kernel


def _pref(p, k):
    """A generic concrete value for parameter *p* inside its limits."""
    lo, hi = float(p.limits[0]), float(p.limits[1])
    d = float(p.default)
    if p.name.endswith("_M0"):
        x = 1.5 + 0.25 * (k % 5)
    elif p.name == "background":
        x = 0.0625
    elif d == 0.0:
        x = 0.11 + 0.01 * (k % 7)
    else:
        x = d * (1.0 + 0.004 * (k % 9))
    return C._clip_inside(x, lo, hi, d)


def build_pars(info, mult, disp, nmag=1, strict=False):
    """(direct-scheme dict, prefs {symbol name: float}, assumptions, sasview model class)"""
    names, m0 = visible_names(info, mult)
    ctl = control_of(info)
    callp = dict((p.name, p) for p in info.parameters.call_parameters)
    slds = [p.name for p in info.parameters.call_parameters if p.type == "sld" and p.name in names]
    keep_mag = set(slds[:nmag])
    direct, prefs, A = {}, {}, []
    for k, name in enumerate(names):
        p = callp[name]
        if ctl is not None and name == ctl.name:
            continue
        if C.is_structural(p):
            continue
        if p.type == "magnetic" and name.rsplit("_", 1)[-1] in ("M0", "mtheta", "mphi") \
                and name.rsplit("_", 1)[0] not in keep_mag:
            continue
        s = symx.real("v." + name)
        direct[name] = s
        prefs["v." + name] = _pref(p, k)
        if p.polydisperse:
            lo, hi = p.limits
            if np.isfinite(lo):
                A.append(s.t >= symx.rat(lo))
            if np.isfinite(hi):
                A.append(s.t <= symx.rat(hi))
    if ctl is not None:
        direct[ctl.name] = float(mult)
    for name, n, kind in disp:
        p = callp[name]
        direct[name + "_pd"] = symx.real("pd." + name)
        direct[name + "_pd_n"] = n
        direct[name + "_pd_nsigma"] = symx.real("ns." + name)
        direct[name + "_pd_type"] = kind
        prefs["pd." + name] = 0.15 if p.relative_pd else 7.5
        prefs["ns." + name] = 1.5 if kind == "rectangle" else 2.5   # rectangle: support is sqrt(3) sigma
        A += [direct[name + "_pd"].t >= 0, direct[name + "_pd_nsigma"].t > 0]
        if strict and n > 1:
            # non-degenerate distributions only (width and centre strictly positive)
            A += [direct[name + "_pd"].t > 0] + ([direct[name].t > 0] if p.relative_pd else [])
    return direct, prefs, A, m0


def run_interfaces(info, mult, dim, direct, cut, model, only=None, patch_build=True):
    """The five interfaces on one parameter set (proxies or floats).  *model*:
    kernel model handed to the interfaces that take one."""
    qv = Q1 if dim == "1d" else Q2
    ctl = control_of(info)
    out = {}

    def want(name):
        return only is None or name in only
    if want("call_kernel"):
        k = model.make_kernel(qv)
        out["call_kernel"] = DM.call_kernel(k, dict(direct), cutoff=cut)
    mk = (lambda: D.Data1D(x=qv[0])) if dim == "1d" else (lambda: D.Data2D(x=qv[0], y=qv[1]))
    if want("DirectModel"):
        out["DirectModel"] = DM.DirectModel(mk(), model, cutoff=cut)(**direct)
    if want("helper"):
        saved = core.build_model
        if patch_build:
            core.build_model = lambda mi, *a, **kw: model
        try:
            out["helper"] = (DM.Iq(info.id, qv[0], **direct) if dim == "1d"
                             else DM.Iqxy(info.id, qv[0], qv[1], **direct))
        finally:
            core.build_model = saved
    if want("sasview"):
        m = model_class(info)(mult)
        m._model = model
        for key, v in direct.items():
            if ctl is not None and key == ctl.name:
                continue
            m.setParam(sasview_name(key), v)
        m.cutoff = cut
        out["sasview"] = m.evalDistribution(qv[0] if dim == "1d" else [qv[0], qv[1]])
    if want("bumps"):
        bm = BM.Model(model, **direct)
        out["bumps"] = BM.Experiment(mk(), bm, cutoff=cut).theory()
    return out


def real_interfaces(name, mult, dim, conc, cutoff, only=None):
    """Replay: plain floats, real distributions, real compiled kernel."""
    uninstall()
    try:
        info = core.load_model_info(name)
        model = C.real_model(name)
        out = run_interfaces(info, mult, dim, conc, cutoff, model, only=only, patch_build=False)
        return dict((k, np.array(v, dtype=float)) for k, v in out.items())
    finally:
        install()


def _zero_background(view):
    v = dict(view)
    v["values"] = list(view["values"])
    v["values"][1] = 0.0
    return v


def mesh_name(cfg):
    _kind, name, dim, mult, disp, tag = cfg[:6]
    return "mesh/%s/%s/m=%s/%s" % (name, dim, mult, tag)


def finding_class(info, dim, disp, iface):
    callp = dict((p.name, p) for p in info.parameters.call_parameters)
    if dim == "1d" and iface == "sasview" and any(callp[n].type == "orientation" for n, _n, _k in disp):
        return "orientation-dispersity-in-1d"
    return "kernel-arguments"


def shells_visible(info, mult):
    """SasviewModel(multiplicity=m) exposes shells 1..m of every vector parameter
    (and their magnetic triples), nothing beyond."""
    ctl = control_of(info)
    names = set(model_class(info)(mult).params.keys())
    vec = [p for p in info.parameters.kernel_parameters if p.length_control == ctl.id]
    want = set(p.id + str(k) for p in vec for k in range(1, int(mult) + 1))
    deny = set(p.id + str(k) for p in vec for k in range(int(mult) + 1, p.length + 1))
    deny |= set(n + t for n in list(deny) for t in ("_M0", "_mtheta", "_mphi"))
    missing, extra = sorted(want - names), sorted(deny & names)
    return (not missing and not extra and ctl.name not in names,
            "missing %s, exposed beyond the multiplicity %s" % (missing, extra))


def mesh_unit(cfg):
    _kind, name, dim, mult, disp, tag = cfg[:6]
    nmag = cfg[6] if len(cfg) > 6 else 1
    u = Unit(mesh_name(cfg), timeout_ms=60000)
    u.functions(*FUNCS)
    install()
    info = core.load_model_info(name)
    direct, prefs, A, _m0 = build_pars(info, mult, disp, nmag=nmag, strict=(dim == "1d" and tag.startswith("orientation")))
    cut = symx.real("cutoff")
    prefs["cutoff"] = 0.03     # trims the tails of a 5-point gaussian
    A = A + [cut.t >= 0] + I.INF_AXIOMS

    def fn():
        rec = []
        model = C.stub_build(info, [0], rec)
        out = run_interfaces(info, mult, dim, direct, cut, model)
        return rec, out

    ex = symx.Explorer(timeout_ms=20000, max_paths=600)
    paths = ex.explore(fn, A)
    u.absorb(ex, paths)
    u.reachable(u.r["unit"], A)
    u.sample({"config": u.r["unit"], "direct_scheme_keys": sorted(direct)[:12],
              "sasview_scheme_keys": sorted(sasview_name(k) for k in direct)[:12]})
    consts = dict((n, z3.Real(n)) for n in prefs)
    if tag == "defaults" or tag.startswith("pd:"):
        _validate_encoding(u, cfg, info, direct, prefs, paths)
    ctl = control_of(info)
    if tag == "defaults" and ctl is not None and not ctl.choices:
        ok, detail = shells_visible(info, mult)
        u.prove("multiplicity-expands-the-right-shells", z3.BoolVal(ok), A, lambda m: {
            "reproduced": not shells_visible(core.load_model_info(name), mult)[0],
            "key": "C10/multiplicity/%s/visible-shells" % name,
            "what": "%s(multiplicity=%s): %s" % (name, mult, detail),
            "inputs": {"harness": "shells", "model": name, "mult": mult}, "block": None})

    for pi, p in enumerate(paths):
        if p.cut:
            continue
        H = p.constraints()
        if p.exc is not None:
            tb = "".join(traceback.format_exception(type(p.exc), p.exc, p.exc.__traceback__))[-900:]
            u.prove("no-exception", z3.BoolVal(False), H,
                    _mesh_handler(u, cfg, info, direct, prefs, consts, H, None, "exception", tb))
            continue
        rec, out = p.result
        if len(rec) != len(IFACES):
            u.error("expected %d kernel calls, saw %d" % (len(IFACES), len(rec)))
            continue
        calls = dict(zip(IFACES, rec))
        base = calls["call_kernel"]
        vb = C.kernel_view(info, base.details, base.values, True)
        if info.structure_factor:
            sv = calls["sasview"].values
            u.prove("structure-factor-hidden-scale-1-background-0",
                    z3.And(C._eq_terms(sv[0], 1.0), C._eq_terms(sv[1], 0.0)), H,
                    _mesh_handler(u, cfg, info, direct, prefs, consts, H, "sasview", "hidden", ""))
        for iface in IFACES[1:]:
            call = calls[iface]
            v = C.kernel_view(info, call.details, call.values, True)
            want = _zero_background(vb) if iface in DATAMIXIN else vb
            phi, bad = C.views_equal(v, want)
            wantcut = symx.rat(HELPER_CUTOFF) if iface == "helper" else cut.t
            conj = [phi, z3.BoolVal(bool(call.magnetic) == bool(base.magnetic))]
            if any(n > 1 for _nm, n, _kd in disp):
                # without a distribution every weight is 1 and the cutoff is unobservable
                conj.append(term(call.cutoff) == wantcut)
            u.prove("same-kernel-call[%s]" % iface, z3.And(*conj), H,
                    _mesh_handler(u, cfg, info, direct, prefs, consts, H, iface, "args", "; ".join(bad)),
                    sample=(pi == 0 and iface == "sasview"))
            o, b = list(out[iface]), list(out["call_kernel"])
            same = z3.And(*[C._eq_terms(x, y) for x, y in zip(o, b)]) if len(o) == len(b) else z3.BoolVal(False)
            if iface == "helper":
                same = z3.Implies(cut.t == wantcut, same)
            u.prove("same-theory[%s]" % iface, same, H,
                    _mesh_handler(u, cfg, info, direct, prefs, consts, H, iface, "theory", ""))
    return u.r


class _LeafFuncs(object):
    """UF name -> the real distribution leaf (translator validation)."""

    def __getitem__(self, name):
        if not name.startswith(("pdx.", "pdw.")):
            raise KeyError(name)
        which, kind, n, k = name.split(".")
        n, k = int(n), int(k)
        cls = W.DISTRIBUTIONS[kind]
        leaf = I._SAVED_LEAVES[cls]

        def f(ns, c, s, lb, ub):
            obj = cls(n, 0.0, ns)
            x, w = leaf(obj, c, s, lb, ub)
            if len(x) != n:
                raise ValueError("distribution truncated by the limits")
            return float((x if which == "pdx" else w)[k])
        return f


def _validate_encoding(u, cfg, info, direct, prefs, paths):
    """Translator validation: the value vector the symbolic run hands to the
    kernel, evaluated at concrete inputs (UF leaves -> the real distribution
    code), against the real get_mesh + make_kernel_args on floats."""
    _kind, name, dim, mult, disp, tag = cfg[:6]
    env = dict(prefs)
    env.update({"+inf": float("inf"), "-inf": float("-inf"), "L0.tw": 1.0, "L0.sv": 1.0, "L0.fv": 1.0})
    funcs = _LeafFuncs()
    chosen = None
    for p in paths:
        if p.cut or p.exc is not None:
            continue
        try:
            if all(bool(symx.evalf(c, env, funcs)) for c in p.pc
                   if not any(n.startswith("L0.") for n in symx.consts_of([c]))):
                chosen = p
                break
        except Exception:
            continue
    if chosen is None:
        u.note("encoding validation: no path matches the preferred inputs")
        return
    rec, _out = chosen.result
    try:
        got = [float(symx.evalf(term(v), env, funcs)) if symx.is_sym(v) else float(v) for v in rec[0].values]
    except Exception as e:
        u.note("encoding validation skipped: %s" % e)
        return
    conc = _conc_pars(direct, env)
    uninstall()
    try:
        kern = C.real_model(name).make_kernel(Q1 if dim == "1d" else Q2)
        mesh = DM.get_mesh(info, conc, dim=kern.dim)
        _cd, vals, _mag = details.make_kernel_args(kern, mesh)
    finally:
        install()
    if len(vals) != len(got):
        u.error("encoding validation: %d values, real code %d" % (len(got), len(vals)))
        return
    for i, (g, w) in enumerate(zip(got, vals)):
        u.check_close("%s values[%d]" % (u.r["unit"], i), g, float(w), rtol=1e-9, atol=1e-12)


def _concretise(m, H, prefs, consts, use_prefs=True):
    """Concrete inputs: the preferred generic value of every symbol, except the
    symbols that a path condition over inputs alone pins down differently."""
    if not use_prefs:
        return dict((n, float(symx.model_float(m, c))) for n, c in consts.items())
    env = dict(prefs)
    for _round in range(2):
        dirty = False
        for h in H:
            syms = symx.consts_of([h])
            if not syms or not set(syms) <= set(env) or symx.apps_of([h]):
                continue
            try:
                ok = bool(symx.evalf(h, env))
            except Exception:
                ok = False
            if not ok:
                dirty = True
                for n in syms:
                    env[n] = float(symx.model_float(m, consts[n]))
        if not dirty:
            break
    return env


def _conc_pars(direct, env):
    out = {}
    for k, v in direct.items():
        out[k] = env[v.t.decl().name()] if isinstance(v, Sym) else v
    return out


def compare_real(name, mult, dim, conc, cutoff, iface):
    """(differs?, detail) of *iface* against call_kernel(get_mesh) on the real code."""
    cb = HELPER_CUTOFF if iface == "helper" else cutoff
    res, err = {}, {}
    for who, c in (("call_kernel", cb), (iface, cutoff)):
        try:
            res[who] = real_interfaces(name, mult, dim, conc, c, only={who})[who]
        except Exception as e:
            err[who] = "%s: %s" % (type(e).__name__, e)
    if err:
        return len(err) == 1 or err["call_kernel"] != err[iface], {"raised": err}
    a, b = res["call_kernel"], res[iface]
    differs = not C.close(a, b, rtol=1e-9)
    return differs, {"call_kernel": a.tolist(), iface: b.tolist()}


def _mesh_handler(u, cfg, info, direct, prefs, consts, H, iface, oracle, note):
    _kind, name, dim, mult, disp, tag = cfg[:6]

    def handler(m):
        ifs = [iface] if iface else IFACES[1:]
        last = None
        # the cutoff is a free input: several generic values, then the solver's own model
        for use_prefs, cval in ((True, None), (True, 1e-3), (True, 6e-3), (True, 0.2), (False, None)):
            env = _concretise(m, H, prefs, consts, use_prefs)
            if cval is not None:
                cs = [set(symx.consts_of([h])) for h in H]
                if any("cutoff" in c and len(c) > 1 for c in cs) or not all(
                        bool(symx.evalf(h, {"cutoff": cval})) for h, c in zip(H, cs) if c == {"cutoff"}):
                    continue
                env["cutoff"] = cval
            conc = _conc_pars(direct, env)
            for who in ifs:
                differs, detail = compare_real(name, mult, dim, conc, env["cutoff"], who)
                last = (who, conc, env["cutoff"], detail)
                if differs:
                    cls = finding_class(info, dim, disp, who)
                    return {"reproduced": True, "key": "C10/mesh/%s/%s" % (who, cls),
                            "what": "%s %s: %s and call_kernel(get_mesh) disagree for the same settings "
                                    "(cutoff %r): %s %s" % (name, dim, who, env["cutoff"], detail, note),
                            "inputs": {"harness": "mesh", "model": name, "dim": dim, "mult": mult,
                                       "pars": conc, "cutoff": env["cutoff"], "iface": who},
                            "block": z3.BoolVal(True)}
        who, conc, c, detail = last
        return {"reproduced": False, "key": "C10/mesh/%s/%s" % (who, oracle),
                "what": "%s %s: symbolic %s mismatch for %s (%s) but the real intensities agree: %s"
                        % (name, dim, oracle, who, note, detail),
                "inputs": {"harness": "mesh", "model": name, "dim": dim, "mult": mult, "pars": conc,
                           "cutoff": c, "iface": who}, "block": None}
    return handler


def mesh_configs(models, quick):
    out = []
    for name in models:
        info = core.load_model_info(name)
        P = info.parameters
        ctl = control_of(info)
        mults = [None]
        if ctl is not None:
            top = len(ctl.choices) if ctl.choices else int(ctl.limits[1])
            lo = 0 if ctl.choices else max(0, int(ctl.limits[0]))      # 0 is a legal multiplicity for some models
            mults = sorted(set([lo, min(2, top)])) if quick else sorted(set([lo, min(3, top), top]))
        for mult in mults:
            vis = set(visible_names(info, mult)[0])
            pd1 = [p.name for p in P.call_parameters if p.name in P.pd_1d and p.name in vis]
            ori = [p.name for p in P.call_parameters if p.polydisperse and p.type == "orientation"]
            dims = ["1d", "2d"] if (P.has_2d and (not quick or ori)) else ["1d"]
            for dim in dims:
                out.append(("mesh", name, dim, mult, (), "defaults"))
                if not quick and P.nmagnetic >= 2 and dim == "2d":
                    out.append(("mesh", name, dim, mult, (), "defaults+2 magnetic amplitudes", 2))
                k = 0
                groups = [pd1[i:i + 2] for i in range(0, len(pd1), 2)]
                if quick:
                    groups = groups[:1]
                for g in groups:
                    for n in ((5, 0) if quick else (5, 1, 0)):
                        disp = tuple((nm, n, PD_TYPES[(k + j) % len(PD_TYPES)]) for j, nm in enumerate(g))
                        k += 1 if quick else 2
                        out.append(("mesh", name, dim, mult, disp, "pd:" + ",".join(
                            "%s=%s/%d" % d for d in [(a, c, b) for a, b, c in disp])))
                if ori:
                    # with a second, size dispersity the cutoff trims the product weights
                    disp = (((pd1[0], 5, "gaussian"),) if pd1 else ()) + ((ori[0], 5, "gaussian"),) + (
                        ((ori[-1], 1, "uniform"),) if len(ori) > 1 and not quick else ())
                    out.append(("mesh", name, dim, mult, disp, "orientation:" + ",".join(a for a, _b, _c in disp)))
    return out


# --------------------------------------------------------------------------
# ARRAY: SasviewModel with an ArrayDispersion hands the user's arrays to the kernel

def array_name(cfg):
    _k, name, dim, mult, pname = cfg
    return "array/%s/%s/m=%s/%s" % (name, dim, mult, pname)


def run_array(info, mult, dim, direct, cut, model, pname, av, aw):
    """(reference: make_kernel_args on get_mesh with the parameter's entry replaced
    by the arrays, SasviewModel.set_dispersion(ArrayDispersion) + evalDistribution)"""
    qv = Q1 if dim == "1d" else Q2
    ctl = control_of(info)
    k = model.make_kernel(qv)
    mesh = DM.get_mesh(info, dict(direct), dim=k.dim)
    idx = [p.name for p in info.parameters.call_parameters].index(pname)
    mesh[idx] = (mesh[idx][0], av, aw)
    cd, vals, mag = details.make_kernel_args(k, mesh)
    ref = k(cd, vals, cut, mag)
    m = model_class(info)(mult)
    m._model = model
    for key, v in direct.items():
        if ctl is None or key != ctl.name:
            m.setParam(sasview_name(key), v)
    d = W.ArrayDispersion()
    d.set_weights(av, aw)
    m.set_dispersion(pname, d)
    m.cutoff = cut
    return ref, m.evalDistribution(qv[0] if dim == "1d" else [qv[0], qv[1]])


def array_unit(cfg):
    _k, name, dim, mult, pname = cfg
    u = Unit(array_name(cfg), timeout_ms=60000)
    u.functions("sasmodels.weights.ArrayDispersion.set_weights", "sasmodels.weights.Dispersion.get_pars",
                "sasmodels.sasview_model.SasviewModel.set_dispersion", "sasmodels.sasview_model.SasviewModel._get_weights")
    install()
    info = core.load_model_info(name)
    direct, prefs, A, _m0 = build_pars(info, mult, ())
    cut = symx.real("cutoff")
    n = 3
    av, aw = symx.oarray(symx.reals("av", n)), symx.oarray(symx.reals("aw", n))
    base = prefs["v." + pname]
    for i in range(n):
        prefs["av%d" % i], prefs["aw%d" % i] = base * (0.9 + 0.1 * i), 0.25 + 0.25 * i
    prefs["cutoff"] = 0.03     # trims the tails of a 5-point gaussian
    A = A + [cut.t >= 0] + I.INF_AXIOMS

    def fn():
        rec = []
        model = C.stub_build(info, [0], rec)
        return rec, run_array(info, mult, dim, direct, cut, model, pname, av, aw)

    ex = symx.Explorer(timeout_ms=20000, max_paths=400)
    paths = ex.explore(fn, A)
    u.absorb(ex, paths)
    u.reachable(u.r["unit"], A)
    consts = dict((nm, z3.Real(nm)) for nm in prefs)

    def handler(H):
        def h(m):
            env = _concretise(m, H, prefs, consts, True)
            conc = _conc_pars(direct, env)
            fa = np.array([env["av%d" % i] for i in range(n)])
            fw = np.array([env["aw%d" % i] for i in range(n)])
            uninstall()
            try:
                try:
                    ref, out = run_array(core.load_model_info(name), mult, dim, conc, env["cutoff"],
                                         C.real_model(name), pname, fa, fw)
                    bad, detail = not C.close(ref, out, rtol=1e-9), {"explicit mesh": [float(x) for x in ref],
                                                                      "sasview": [float(x) for x in out]}
                except Exception as e:
                    bad, detail = True, "raised %s: %s" % (type(e).__name__, e)
            finally:
                install()
            return {"reproduced": bool(bad), "key": "C10/array/sasview/%s" % dim,
                    "what": "%s %s: SasviewModel with ArrayDispersion on %s vs the same arrays in an explicit mesh: %s"
                            % (name, dim, pname, detail),
                    "inputs": {"harness": "array", "cfg": list(cfg), "pars": conc, "cutoff": env["cutoff"],
                               "values": fa.tolist(), "weights": fw.tolist()}, "block": None}
        return h

    for p in paths:
        if p.cut:
            continue
        H = p.constraints()
        if p.exc is not None:
            u.note("exception %r" % p.exc)
            u.prove("no-exception", z3.BoolVal(False), H, handler(H))
            continue
        rec, (ref, out) = p.result
        if len(rec) != 2:
            u.error("expected 2 kernel calls, saw %d" % len(rec))
            continue
        va = C.kernel_view(info, rec[0].details, rec[0].values, True)
        vb = C.kernel_view(info, rec[1].details, rec[1].values, True)
        phi, bad = C.views_equal(vb, va)
        same = z3.And(*[C._eq_terms(x, y) for x, y in zip(list(out), list(ref))]) if len(out) == len(ref) else z3.BoolVal(False)
        u.prove("array-distribution-reaches-kernel", z3.And(phi, term(rec[1].cutoff) == cut.t, same,
                                                           z3.BoolVal(bool(rec[0].magnetic) == bool(rec[1].magnetic))),
                H, handler(H))
    return u.r


def array_configs(models, quick):
    out = []
    for name in models:
        info = core.load_model_info(name)
        P = info.parameters
        ctl = control_of(info)
        mult = None
        if ctl is not None:
            mult = min(2, len(ctl.choices) if ctl.choices else int(ctl.limits[1]))
        vis = set(visible_names(info, mult)[0])
        pd1 = [p.name for p in P.call_parameters if p.name in P.pd_1d and p.name in vis]
        ori = [p.name for p in P.call_parameters if p.polydisperse and p.type == "orientation"]
        if pd1:
            out.append(("array", name, "1d", mult, pd1[0]))
        if ori and not quick:
            out.append(("array", name, "2d", mult, ori[0]))
    return out


# --------------------------------------------------------------------------
# SELECT: which points get a theory value

class QRecModel(C.StubModel):
    """Stub model that also remembers the q vectors each kernel was made for."""

    def __init__(self, info, leaf, rec):
        C.StubModel.__init__(self, info, leaf, rec)
        self.qlog = []

    def make_kernel(self, q_vectors):
        self.qlog.append(list(q_vectors))
        return C.StubModel.make_kernel(self, q_vectors)


def select_name(cfg):
    _k, dtype, n, has_y, maskmode, res, limits, iface = cfg
    return "select/%s/n=%d/%s/mask=%s/res=%s/limits=%s/%s" % (
        dtype, n, "data" if has_y else "nodata", maskmode, res, limits, iface)


def _seq_same(a, b):
    a, b = list(a), list(b)
    if len(a) != len(b):
        return False
    for x, y in zip(a, b):
        if isinstance(x, I.YVal) or isinstance(y, I.YVal):
            if x is not y:
                return False
        elif symx.is_sym(x) or symx.is_sym(y):
            if not term(x).eq(term(y)):
                return False
        elif x != y:
            return False
    return True


def build_data(cfg, S, concrete=None):
    """Data object of configuration *cfg* from the symbol table *S* (or floats)."""
    _k, dtype, n, has_y, maskmode, res, limits, _iface = cfg
    g = (lambda k: symx.oarray(S[k])) if concrete is None else (lambda k: np.array(concrete[k]))
    y = g("y") if has_y else None
    dy = g("dy") if has_y else None
    if dtype == "1d":
        data = D.Data1D(x=g("x"), y=y, dx=g("dx") if res == "dx" else None, dy=dy)
        if res == "slit":
            data.dxl, data.dxw = g("dxl"), g("dxw")
    else:
        rs = res == "dq"
        data = D.Data2D(x=g("x"), y=g("qy"), z=y, dx=g("dx") if rs else None,
                        dy=g("dxl") if rs else None, dz=dy)
    if maskmode == "symbolic":
        data.mask = g("mask")
    elif maskmode == "none":
        data.mask = None
    if limits == "symbolic":
        src = S if concrete is None else concrete
        data.qmin, data.qmax = src["qmin"], src["qmax"]
    return data


def select_spec_np(cfg, c):
    """Documented selection on plain numpy arrays (independent of the library)."""
    _k, dtype, n, has_y, maskmode, res, limits, _iface = cfg
    x = np.array(c["x"], dtype=float)
    q = x if dtype == "1d" else np.sqrt(x ** 2 + np.array(c["qy"], dtype=float) ** 2)
    if limits == "symbolic":
        lo, hi = c["qmin"], c["qmax"]
    else:
        lo, hi = (x.min(), x.max()) if dtype == "1d" else (1e-16, np.inf)
    sel = (q >= lo) & (q <= hi)
    nan = np.isnan(np.array(c["y"], dtype=float)) if has_y else np.zeros(n, dtype=bool)
    if maskmode == "symbolic":
        sel &= np.array(c["mask"]) == 0
    elif maskmode == "default":
        sel &= ~nan            # the constructors' own mask is isnan(y)
    return sel & ~nan


def real_select(cfg, c):
    """The real _interpret_data on float arrays (resolution objects recorded)."""
    iface = cfg[-1]
    uninstall()
    saved = (DM.resolution, DM.resolution2d, DM.np, D.np)
    log = []
    DM.np = D.np = np
    if cfg[5] != "none":
        DM.resolution, DM.resolution2d = I.resolution_namespaces(log, resolution, resolution2d)
    try:
        data = build_data(cfg, None, concrete=c)
        model = C.real_model("sphere")
        if iface == "bumps":
            calc = BM.Experiment(data, BM.Model(model))
            th = calc.theory()
        else:
            calc = DM.DirectModel(data, model)
            th = calc()
        return np.array(calc.index, dtype=bool), len(th)
    finally:
        DM.resolution, DM.resolution2d, DM.np, D.np = saved
        install()


def select_unit(cfg):
    _k, dtype, n, has_y, maskmode, res, limits, iface = cfg
    u = Unit(select_name(cfg), timeout_ms=60000)
    u.functions("sasmodels.direct_model.DataMixin._interpret_data", "sasmodels.direct_model.DataMixin._calc_theory",
                "sasmodels.direct_model.DirectModel.__init__/__call__", "sasmodels.bumps_model.Experiment.__init__/theory",
                "sasmodels.data.Data1D.__init__", "sasmodels.data.Data2D.__init__",
                "sasmodels.resolution.Perfect1D", "sasmodels.resolution2d.Pinhole2D (no-resolution branch)")
    install()
    info = core.load_model_info("sphere")
    S = {"x": symx.reals("x", n), "qy": symx.reals("qy", n), "dy": symx.reals("dy", n),
         "dx": symx.reals("dx", n), "dxl": symx.reals("dxl", n), "dxw": symx.reals("dxw", n),
         "mask": [symx.integer("mask%d" % i) for i in range(n)],
         "qmin": symx.real("qmin"), "qmax": symx.real("qmax")}
    nan = [z3.Bool("nan%d" % i) for i in range(n)]
    S["y"] = [I.YVal(symx.real("y%d" % i), nan[i]) for i in range(n)]
    A = [z3.Real("L0.tw") != 0, z3.Real("L0.sv") != 0]
    saved = (DM.resolution, DM.resolution2d, DM.np, D.np)

    def fn():
        log, rec = [], []
        DM.np = D.np = I.DataNp()
        if res != "none":
            DM.resolution, DM.resolution2d = I.resolution_namespaces(log, resolution, resolution2d)
        model = QRecModel(info, 0, rec)
        data = build_data(cfg, S)
        if iface == "bumps":
            calc = BM.Experiment(data, BM.Model(model))
            th = calc.theory()
        else:
            calc = DM.DirectModel(data, model)
            th = calc()
        return (np.array(calc.index, dtype=bool), calc.Iq, calc.dIq, calc.resolution, list(th),
                model.qlog, log, data)

    ex = symx.Explorer(timeout_ms=20000, max_paths=6000)
    try:
        paths = ex.explore(fn, A)
    finally:
        DM.resolution, DM.resolution2d, DM.np, D.np = saved
    u.absorb(ex, paths)
    u.reachable(u.r["unit"], A)
    xs = [term(v) for v in S["x"]]
    if dtype == "1d":
        q = xs
    else:
        q = [term((S["x"][i] * S["x"][i] + S["qy"][i] * S["qy"][i]).sqrt()) for i in range(n)]
    spec = []
    for i in range(n):
        c = []
        if limits == "symbolic":
            c += [q[i] >= S["qmin"].t, q[i] <= S["qmax"].t]
        elif dtype == "2d":
            c += [q[i] >= symx.rat(1e-16)]
        if maskmode == "symbolic":
            c.append(S["mask"][i].t == 0)
        if has_y:
            c.append(z3.Not(nan[i]))
        spec.append(z3.And(*c) if c else z3.BoolVal(True))
    u.sample({"config": u.r["unit"], "documented_selection": [str(s) for s in spec]})
    names = dict((k, S[k]) for k in ("x", "qy", "dy", "dx", "dxl", "dxw", "mask"))

    def handler(oracle):
        def h(m):
            c = dict((k, [symx.model_float(m, v.t) for v in vs]) for k, vs in names.items())
            flags = [bool(symx.model_float(m, f)) for f in nan]
            c["y"] = [float("nan") if flags[i] else float(symx.model_float(m, S["y"][i].v.t)) for i in range(n)]
            c["qmin"], c["qmax"] = (float(symx.model_float(m, S[k].t)) for k in ("qmin", "qmax"))
            c["mask"] = [int(v) for v in c["mask"]]
            try:
                got, nth = real_select(cfg, c)
                want = select_spec_np(cfg, c)
                bad = (got.tolist() != want.tolist()) or nth != int(want.sum())
                detail = "index %s, %d theory values; documented %s" % (got.astype(int).tolist(), nth, want.astype(int).tolist())
            except Exception as e:
                bad, detail = True, "raised %s: %s" % (type(e).__name__, e)
            return {"reproduced": bool(bad), "key": "C10/select/%s/%s/%s" % (dtype, iface, oracle),
                    "what": "%s: %s (inputs %s)" % (u.r["unit"], detail, c),
                    "inputs": {"harness": "select", "cfg": list(cfg), "data": c}, "block": None}
        return h

    for pi, p in enumerate(paths):
        if p.cut:
            continue
        H = p.constraints()
        if p.exc is not None:
            u.note("exception %r" % p.exc)
            u.prove("no-exception", z3.BoolVal(False), H, handler("exception"))
            continue
        idx, Iq, dIq, resn, th, qlog, log, data = p.result
        u.prove("index-is-documented-selection",
                z3.And(*[spec[i] == z3.BoolVal(bool(idx[i])) for i in range(n)]), H,
                handler("index"), sample=(pi == 0))
        sel = [i for i in range(n) if idx[i]]
        ok = len(qlog) == 1 and len(th) == len(sel)
        ok = ok and _seq_same(qlog[0][0], [S["x"][i] for i in sel])
        if dtype == "2d":
            ok = ok and _seq_same(qlog[0][1], [S["qy"][i] for i in sel])
        if has_y:
            ok = ok and _seq_same(Iq, [S["y"][i] for i in sel]) and _seq_same(dIq, [S["dy"][i] for i in sel])
        else:
            ok = ok and Iq is None
        if res == "dx":
            r = log[-1] if log else None
            ok = ok and ((r is None and isinstance(resn, resolution.Perfect1D)) or (
                r is not None and r.kind == "Pinhole1D" and _seq_same(r.args[0], [S["x"][i] for i in sel])
                and _seq_same(r.args[1], [S["dx"][i] for i in sel])))
        elif res == "slit":
            r = log[-1] if log else None
            ok = ok and r is not None and r.kind == "Slit1D" and _seq_same(r.args[0], [S["x"][i] for i in sel]) \
                and _seq_same(r.kw["q_length"], [S["dxl"][i] for i in sel]) \
                and _seq_same(r.kw["q_width"], [S["dxw"][i] for i in sel])
        elif res == "dq":
            r = log[-1] if log else None
            ok = ok and r is not None and r.kind == "Pinhole2D" and r.kw["data"] is data \
                and np.array_equal(np.array(r.kw["index"], dtype=bool), idx)
        u.prove("selected-points-in-order-to-resolution-and-kernel", z3.BoolVal(bool(ok)), H, handler("order"))
    return u.r


def select_configs(quick):
    out = []
    n = 2
    for iface in ("DirectModel", "bumps"):
        for dtype in ("1d", "2d"):
            for has_y in (True, False):
                for maskmode in (("symbolic", "default") if dtype == "2d" else ("symbolic", "default", "none")):
                    ress = ("none", "dx", "slit") if dtype == "1d" else ("none", "dq")
                    for res in ress:
                        for limits in ("symbolic", "default"):
                            full = (maskmode == "symbolic" and limits == "symbolic")
                            if quick and not full and not (res == "none" and iface == "DirectModel"):
                                continue
                            if iface == "bumps" and res != "none" and quick:
                                continue
                            out.append(("select", dtype, n, has_y, maskmode, res, limits, iface))
    if not quick:
        out.append(("select", "1d", 3, False, "symbolic", "none", "symbolic", "DirectModel"))
        out.append(("select", "2d", 3, False, "symbolic", "none", "symbolic", "DirectModel"))
        out.append(("select", "1d", 3, True, "default", "none", "symbolic", "DirectModel"))
    return out


# --------------------------------------------------------------------------
# REFUSE: a name the model does not define is an error in every interface

PD_US = ["_pd", "_pd_n", "_pd_nsigma", "_pd_type"]
PD_DOT = [".width", ".npts", ".nsigmas", ".type"]
KW_TARGETS = lambda: [(DM, "Iq"), (DM, "Iqxy"), (DM.DirectModel, "__call__"),
                      (BM, "create_parameters"), (BM.Model, "__init__")]
REFUSE_IFACES = ["get_mesh", "call_kernel", "call_Fq", "DirectModel", "Iq", "Iqxy",
                 "bumps.create_parameters", "bumps.Model", "setParam/1", "setParam/2", "setParam/3",
                 "set_dispersion"]
HELPER_ARGS = {"Iq": ["model", "q", "dq", "ql", "qw"], "Iqxy": ["model", "qx", "qy", "dqx", "dqy"],
               "bumps.create_parameters": ["model_info"], "bumps.Model": ["self", "model"],
               "DirectModel": ["self"], "call_Fq": ["radius_effective_mode"]}


def documented_names(info, scheme, mult=None):
    """Names the model defines, derived from ModelInfo alone.  scheme 'direct':
    parameter ids (magnetic ones included for magnetic models) plus _pd, _pd_n,
    _pd_nsigma, _pd_type on polydisperse parameters.  'sasview': the parameters
    visible at this multiplicity plus .width/.npts/.nsigmas/.type on the
    polydisperse ones.  'dispersion': the visible polydisperse parameters."""
    P = info.parameters
    if scheme == "direct":
        out = []
        for p in P.call_parameters:
            out.append(p.name)
            if p.polydisperse:
                out += [p.name + s for s in PD_US]
        return out
    hidden = set()
    ctl = control_of(info)
    if mult is not None:
        hidden |= set(info.get_hidden_parameters(mult))
        if ctl is not None:
            hidden.add(ctl.name)
    if info.structure_factor:
        hidden |= {"scale", "background"}
    vis = [p for p in P.call_parameters if p.name not in hidden]
    if scheme == "dispersion":
        return [p.name for p in vis if p.polydisperse]
    out = []
    for p in vis:
        out.append(p.name)
        if p.polydisperse:
            out += [p.name + s for s in PD_DOT]
    return out


def classify_key(info, key):
    callp = dict((p.name, p) for p in info.parameters.call_parameters)
    if key in callp:
        return "parameter-without-dispersity" if not callp[key].polydisperse else "parameter"
    for s in PD_US + PD_DOT:
        if key.endswith(s) and key[:-len(s)] in callp and not callp[key[:-len(s)]].polydisperse:
            return "dispersity-suffix-on-non-dispersible-parameter"
    return "unknown-name"


def _valid_entries(info, mult):
    """A realistic concrete call: one value and one dispersity setting."""
    vis = documented_names(info, "sasview", mult)
    P = info.parameters
    out = {}
    for p in P.call_parameters:
        if p.name in vis and not C.is_structural(p) and p.name not in ("scale", "background"):
            out[p.name] = float(p.default) if np.isfinite(p.default) else 1.0
            break
    for p in P.call_parameters:
        if p.name in vis and p.polydisperse and p.name in P.pd_1d:
            out[p.name + "_pd"], out[p.name + "_pd_n"] = 0.1, 3
            break
    ctl = control_of(info)
    if ctl is not None and mult is not None:
        out[ctl.name] = float(mult)
    return out


def call_refuse(iface, info, mult, model, valid, key, value, symbolic):
    """One interface call with the extra entry *key*: *value*.  Symbolic mode:
    *key* is a SymKey inside a SymKeyDict; replay: a plain string in a dict."""
    mk = (lambda d: I.SymKeyDict(d, key, value)) if symbolic else (lambda d: dict(d, **{key: value}))
    q = Q1[0]
    if iface == "get_mesh":
        return DM.get_mesh(info, mk(valid))
    if iface == "call_kernel":
        return DM.call_kernel(model.make_kernel(Q1), mk(valid))
    if iface == "call_Fq":
        return DM.call_Fq(model.make_kernel(Q1), mk(valid))
    if iface == "DirectModel":
        return DM.DirectModel(D.Data1D(x=q), model)(**mk(valid))
    if iface in ("Iq", "Iqxy"):
        saved = core.build_model
        if symbolic:
            core.build_model = lambda mi, *a, **kw: model
        try:
            if iface == "Iq":
                return DM.Iq(info.id, q, **mk(valid))
            return DM.Iqxy(info.id, Q2[0], Q2[1], **mk(valid))
        finally:
            core.build_model = saved
    if iface == "bumps.create_parameters":
        return BM.create_parameters(info, **mk(valid))
    if iface == "bumps.Model":
        return BM.Model(model, **mk(valid))
    m = model_class(info)(mult)
    if symbolic:
        m.params = I.SymAwareDict(m.params)
        m.dispersion = I.SymAwareDict(m.dispersion)
    if iface == "set_dispersion":
        return m.set_dispersion(key, W.GaussianDispersion(5, 0.1, 3))
    return m.setParam(key, value)


def refuse_name(cfg):
    _k, name, mult = cfg
    return "refuse/%s/m=%s" % (name, mult)


# plain-dict conversions of the proxy (hash events of the SymKey) per interface on
# the unchanged tree: f(**proxy) at the harness call and at every ** call site inside
EXPECTED_HASHES = {"get_mesh": 0, "call_kernel": 0, "call_Fq": 0, "DirectModel": 4, "Iq": 8, "Iqxy": 8,
                   "bumps.create_parameters": 4, "bumps.Model": 8, "setParam/1": 0, "setParam/2": 0,
                   "setParam/3": 0, "set_dispersion": None}


def _symbolic_key(iface, doc):
    """(SymKey, z3 term of the whole name, assumptions)"""
    if iface.startswith("setParam/"):
        n = int(iface[-1])
        parts = [z3.String("K%d" % i) for i in range(n)]
        whole = parts[0]
        for p in parts[1:]:
            whole = z3.Concat(whole, z3.StringVal("."), p)
        A = [z3.Not(z3.Contains(p, z3.StringVal("."))) for p in parts]
        key = I.SymKey(whole, excluded=doc)
        key.parts = [I.SymKey(p, label="<part %d>" % i) for i, p in enumerate(parts)]
        if n == 1:
            key.parts = [key]
    else:
        whole = z3.String("K")
        A = []
        key = I.SymKey(whole, excluded=doc)
    A += [whole != z3.StringVal(d) for d in doc]
    return key, whole, A


def refuse_unit(cfg):
    _k, name, mult = cfg
    u = Unit(refuse_name(cfg), timeout_ms=60000)
    u.functions("sasmodels.direct_model.get_mesh", "sasmodels.direct_model._pop_par_weights",
                "sasmodels.direct_model.call_kernel", "sasmodels.direct_model.call_Fq",
                "sasmodels.direct_model.DirectModel.__call__", "sasmodels.direct_model.DataMixin._calc_theory",
                "sasmodels.direct_model.Iq", "sasmodels.direct_model.Iqxy", "sasmodels.direct_model._direct_calculate",
                "sasmodels.bumps_model.create_parameters", "sasmodels.bumps_model.Model.__init__",
                "sasmodels.sasview_model.SasviewModel.setParam", "sasmodels.sasview_model.SasviewModel.set_dispersion")
    install()
    info = core.load_model_info(name)
    valid = _valid_entries(info, mult)
    value = symx.real("value")
    undo = I.install_kw_wrappers(KW_TARGETS())
    try:
        for iface in REFUSE_IFACES:
            if iface.startswith("set") and control_of(info) is None and mult is not None:
                continue
            scheme = "dispersion" if iface == "set_dispersion" else "sasview" if iface.startswith("setParam") else "direct"
            doc = documented_names(info, scheme, mult) + HELPER_ARGS.get(iface, [])
            key, whole, A = _symbolic_key(iface, doc)
            A = A + [z3.Real("L0.tw") != 0, z3.Real("L0.sv") != 0]

            def fn(iface=iface, key=key):
                rec = []
                model = C.stub_build(info, [0], rec)
                I.SymKey.hashes = 0
                call_refuse(iface, info, mult, model, valid, key, value, True)
                return I.SymKey.hashes

            ex = symx.Explorer(timeout_ms=20000, max_paths=400)
            paths = ex.explore(fn, A)
            u.absorb(ex, paths)
            u.reachable("%s[%s]" % (u.r["unit"], iface), A)
            if iface == "get_mesh":
                u.sample({"unit": u.r["unit"], "documented_names": doc[:40], "query":
                          "exists K not in documented_names: call returns normally  (must be unsat)"})
            for p in paths:
                if p.cut:
                    u.error("%s: path cut (%s)" % (iface, p.cut))
                    continue
                H = p.constraints()
                if p.exc is not None:
                    if not isinstance(p.exc, (TypeError, ValueError)) or "symbolic" in str(p.exc) \
                            and "<symbolic key>" not in str(p.exc):
                        u.error("%s: unexpected %r" % (iface, p.exc))
                    elif EXPECTED_HASHES[iface] is not None and I.SymKey.hashes != EXPECTED_HASHES[iface]:
                        u.error("%s: the symbolic key was hashed %d times, expected %d: the code converts the "
                                "parameter dict somewhere the harness does not re-wrap"
                                % (iface, I.SymKey.hashes, EXPECTED_HASHES[iface]))
                    else:
                        # refused on this path: the obligation 'no normal return' holds trivially
                        u.r["obligations"] += 1
                        u.r["discharged"] += 1
                    continue
                u.prove("refused[%s]" % iface, z3.BoolVal(False), H,
                        _refuse_handler(u, cfg, info, iface, whole, valid))
    finally:
        I.undo_kw_wrappers(undo)
    return u.r


def _refuse_handler(u, cfg, info, iface, whole, valid):
    _k, name, mult = cfg

    def handler(m):
        key = m.eval(whole, model_completion=True).as_string()
        accepted, detail = real_refuse(name, mult, iface, valid, key)
        return {"reproduced": accepted, "key": "C10/refuse/%s/%s" % (iface.split("/")[0], classify_key(info, key)),
                "what": "%s: %s accepts the undefined name %r without an error (%s)" % (name, iface, key, detail),
                "inputs": {"harness": "refuse", "model": name, "mult": mult, "iface": iface, "key": key,
                           "valid": valid}, "block": whole == z3.StringVal(key)}
    return handler


def real_refuse(name, mult, iface, valid, key):
    """Replay: the real interface with a plain string key; accepted = no error."""
    uninstall()
    try:
        info = core.load_model_info(name)
        model = C.real_model(name)
        try:
            call_refuse(iface, info, mult, model, valid, key, 1.25, False)
        except (TypeError, ValueError) as e:
            return False, "raised %s: %s" % (type(e).__name__, e)
        return True, "returned normally"
    finally:
        install()


def refuse_configs(models, quick):
    out = []
    for name in models:
        info = core.load_model_info(name)
        ctl = control_of(info)
        mult = None
        if ctl is not None:
            top = len(ctl.choices) if ctl.choices else int(ctl.limits[1])
            mult = min(2, top)
        out.append(("refuse", name, mult))
    return out


# --------------------------------------------------------------------------
# driver

def unit(cfg):
    return {"mesh": mesh_unit, "select": select_unit, "refuse": refuse_unit, "array": array_unit}[cfg[0]](cfg)


def unit_name(cfg):
    return {"mesh": mesh_name, "select": select_name, "refuse": refuse_name, "array": array_name}[cfg[0]](cfg)


def replay(cex):
    i = cex["inputs"]
    install()
    if i["harness"] == "mesh":
        differs, detail = compare_real(i["model"], i["mult"], i["dim"], i["pars"], i["cutoff"], i["iface"])
        print("real %s vs call_kernel on %s %s %s cutoff=%r -> %s" % (
            i["iface"], i["model"], i["dim"], i["pars"], i["cutoff"], detail))
        return 1 if differs else 0
    if i["harness"] == "select":
        cfg = tuple(i["cfg"])
        got, nth = real_select(cfg, i["data"])
        want = select_spec_np(cfg, i["data"])
        print("real index", got.astype(int).tolist(), "theory values", nth, "documented", want.astype(int).tolist())
        return 1 if (got.tolist() != want.tolist() or nth != int(want.sum())) else 0
    if i["harness"] == "array":
        _k, name, dim, mult, pname = i["cfg"]
        uninstall()
        ref, out = run_array(core.load_model_info(name), mult, dim, i["pars"], i["cutoff"], C.real_model(name),
                             pname, np.array(i["values"]), np.array(i["weights"]))
        print("explicit mesh", list(ref), "SasviewModel with ArrayDispersion", list(out))
        return 0 if C.close(ref, out, rtol=1e-9) else 1
    if i["harness"] == "shells":
        ok, detail = shells_visible(core.load_model_info(i["model"]), i["mult"])
        print(i["model"], i["mult"], detail)
        return 0 if ok else 1
    accepted, detail = real_refuse(i["model"], i["mult"], i["iface"], i["valid"], i["key"])
    print("real %s on %s with extra name %r: %s" % (i["iface"], i["model"], i["key"], detail))
    return 1 if accepted else 0


def configs(chk):
    models = core.list_models()      # QUICK_MODELS is the fall-back subset if the budget shrinks
    if os.environ.get("C10_SUBSET"):
        models = QUICK_MODELS
    me, se = mesh_configs(models, chk.quick), select_configs(chk.quick)
    re_, ar = refuse_configs(models, chk.quick), array_configs(models, chk.quick)
    # a few of each kind first (evidence samples), then the slow mesh units before the fast ones
    return me[1:3] + se[:2] + re_[:2] + me[:1] + me[3:] + ar + se[2:] + re_[2:]


def run(chk):
    chk.explanation = (
        "Symbolic execution (vlib.symx, z3 proxies on numpy object arrays) of the REAL calling interfaces. "
        "MESH: per model / dimension / multiplicity / dispersity setting one symbolic parameter set (every "
        "visible parameter value, the widths, nsigmas and the cutoff are symbolic reals; npts and distribution "
        "type enumerated) is written in each interface's naming scheme and pushed through call_kernel(get_mesh), "
        "DirectModel.__call__, Iq/Iqxy, SasviewModel.setParam+evalDistribution and bumps Model+Experiment.theory "
        "with a recording stub kernel; z3 proves on every path that the kernel receives identical call details, "
        "value vector (scale/background routing included), cutoff and magnetic flag and that the returned "
        "theory terms are identical.  SELECT: DataMixin._interpret_data/_calc_theory on Data1D/Data2D objects "
        "with symbolic q, mask, qmin/qmax and NaN flags; z3 proves index == (mask==0 and qmin<=q<=qmax and not "
        "isnan(y)) and the selected points reach resolution and kernel in order.  REFUSE: one extra entry "
        "under a symbolic string key (z3 String) outside the names derived from ModelInfo; a path that returns "
        "normally is a counterexample.  Every counterexample is replayed on the real compiled kernels / real "
        "interfaces with floats and strings.")
    chk.bounds = {"models": "all %d builtin models (core.list_models())" % len(core.list_models()),
                  "multiplicity": "lowest (incl. 0 where legal), 2" if chk.quick else "lowest, 3, highest",
                  "dispersed parameters per unit": "<= 2 (+ 1 orientation), npts in %s, types cycled over %s; %s"
                                                   % ("{5,0}" if chk.quick else "{5,1,0}", PD_TYPES,
                                                      "first pair of size parameters" if chk.quick else "every size parameter"),
                  "symbolic magnetic amplitudes": "first sld only (others at their default 0); first two in one thorough 2-D unit per model",
                  "q points": "2 (3 in some thorough selection units)",
                  "symbolic key": "one extra entry; setParam names with 0, 1 or 2 dots",
                  "solver timeout": "60 s per obligation, 20 s per fork"}
    chk.outside = [
        "parameter values outside the hard limits of a polydisperse parameter (get_mesh evaluates at the value, "
        "SasviewModel gets an empty distribution): excluded by assumption",
        "defaults that differ between schemes when a setting is left out (name_pd_n defaults to 0 in get_mesh, 35 "
        "in SasviewModel and bumps): every compared setting is given explicitly",
        "choice/control parameters other than the multiplicity are left at their defaults",
        "SESANS data (Gxi) and oriented 1-D slit data (data.oriented: raises TypeError, known finding of C03)",
        "resolution smearing itself (C03/C04): resolution objects with non-zero width are recording stubs",
        "what the compiled kernel does with its arguments (C01), the distribution formulas (C02)",
        "_set_data/simulate_data (random noise), getParam, ArrayDispersion in the 2-D quick tier",
        "rounding: doubles are reals"]
    chk.stubs = STUBS + [I.KEY_STUB,
                         "direct_model.resolution / resolution2d -> recording Pinhole1D/Slit1D/Pinhole2D in the "
                         "selection units that have resolution columns; real Perfect1D / Pinhole2D otherwise",
                         "NaN data: vlib.ifaces.YVal (value, symbolic NaN flag)"]
    chk.assumptions = ["mask convention checked: nonzero = excluded (Data2D docstring; Data1D/Data2D constructors set "
                       "mask=isnan(y); load_data inverts the loader's 2-D mask); the Data1D docstring line 'values to "
                       "include' contradicts its own constructor (documentation defect, proposed_fixes/C10-data1d-mask-docstring.diff)",
                       "centre of every polydisperse parameter inside its hard limits; width >= 0, nsigmas > 0, cutoff >= 0",
                       "1-D orientation-dispersity units: the size distribution is non-degenerate (width, centre > 0)",
                       "raw kernel outputs L0.tw, L0.sv non-zero in the selection and refusal units",
                       "the extra key differs from every documented name and from the helper's own keyword names",
                       "+inf > 1e300, -inf < -1e300 for the constants standing for infinite limits"]
    cfgs = configs(chk)
    if getattr(chk, "only", None):
        cfgs = [c for c in cfgs if chk.only in unit_name(c)]
    chk.add(pmap(unit, cfgs))
